"""C19 bounded stand-in: URL enumeration / replacement are exact; flattening @imports preserves meaning.

A  enumeration and replacement on generated sheets: url() in every context (style rule at top level / in @media / in nested @media, @page, margin box,
   @font-face, @page in @media), several per value, inside function arguments, two declarations of the same property, 0-2 @import rules; plus every sheet
   of bounded/gen.py that holds a URL.  Oracle: gen.urls (known by construction): list(getUrls(sheet)) == imports + url() values in document order;
   replaceUrls calls the replacer exactly once per URL, the identity replacer changes nothing (cssText and DOM), a tagging replacer changes exactly the URLs.
B  cssutils.Replacer alone: for all import hrefs B and URLs u built from <= 3 path segments (names, '.', '..') and the special URL forms:
   urljoin(C, Replacer(B)(u)) == urljoin(urljoin(C, B), u).
C  resolveImports / csscombine over VIRTUAL file systems served by a counting fetcher.  A file system is a dict {absolute URL: abstract sheet};
   the expected flat sheet is computed here from the file system alone (expand): rules of all reachable sheets in cascade order, an imported group wrapped
   in the media of its @import, the @import kept when the target is missing (or cyclic) or the group holds rules that cannot stand inside @media
   (@namespace, a kept @import); for groups holding @media / @page / @font-face / unknown rules both answers are accepted (valid nested CSS 3 conditional
   rules, but cssutils documents that it keeps the @import).  Every URL is compared AFTER resolving it: urljoin(combined href, new) == urljoin(origin href, old).
   Each available target must be fetched exactly once, an unavailable one at most once.

D  the same flattening on trees EDITED THROUGH THE DOM between parsing (targets loaded) and resolveImports: the media of an edge assigned in every way the DOM offers
   (rule.media = text / MediaList, rule.media.mediaText, appendMedium / deleteMedium, rule.cssText), an edge retargeted, inserted, deleted, rules of an imported sheet
   added / deleted.  'media on any edge' of the statement's quantifier: an edge whose media was set through the DOM is an edge with media.  Oracle: expand() of the file
   system with the same edit applied to the abstract sheet.
(url() values sit up to three function levels deep in A and in the imported sheets of C, two levels deep in every sheet of a chain.)

Failures are attributed to a recorded finding only through the finding's own symptom on exactly that URL / that structure (see URL_CLASSES, _attribute_structure).
"""
import itertools
import logging
import multiprocessing
import random
import re
import time
from urllib.parse import quote, unquote, urljoin, urlsplit, urlunsplit

from bounded import gen
from urllib.parse import urldefrag

G = gen
ROOT = 'http://h/r/s/main.css'
DEEP = 'http://h/a/b/c/d/main.css'

CL_GETURLS = 'bounded: list(getUrls(sheet)) == @import targets, then every url() value in document order, each exactly once'
CL_IDENTITY = 'bounded: replaceUrls with the identity replacer changes nothing (cssText and DOM)'
CL_ONCE = 'bounded: replaceUrls applies the replacer exactly once to every URL'
CL_ONLY = 'bounded: replaceUrls changes the URLs and nothing else'
CL_IGNOREIMPORTS = 'bounded: replaceUrls(ignoreImportRules=True) leaves @import rules alone and replaces all url() values'
CL_STYLE = 'bounded: replaceUrls on a CSSStyleDeclaration replaces exactly the URLs of that declaration block'
CL_REPLACER = 'bounded: urljoin(combined, Replacer(import href)(url)) == urljoin(urljoin(combined, import href), url)'
CL_RAISES = 'bounded: flattening returns a sheet (no exception)'
CL_STRUCT = 'bounded: the flattened sheet holds the rules of all reachable sheets in cascade order, each imported group wrapped in the media of its @import (or the @import kept)'
CL_URL = 'bounded: every URL of the flattened sheet resolves from the combined location to what it resolved to from its original sheet'
CL_FETCH = 'bounded: flattening fetches each available target exactly once (an unavailable one at most once)'
CL_ENC = 'bounded: csscombine output decodes with the target encoding and holds the same text'


def _quiet():
    import cssutils
    cssutils.log.setLevel(logging.FATAL)
    cssutils.ser.prefs.useDefaults()
    return cssutils


class Fetcher:
    """counting fetcher over a dict {url: bytes} (also (encoding, bytes))"""

    def __init__(self, files):
        self.files = files
        self.log = []

    def __call__(self, url):
        self.log.append(url)
        f = self.files.get(url)
        if f is None:
            return None
        if isinstance(f, tuple):
            return f
        return (None, f)


# ================================================================================================================ A: getUrls / replaceUrls

def _u(t):
    return ('url', t)


def _value_shapes():
    """[(label, function(fresh) -> value)] fresh() gives a new distinct URL text"""
    i = ('ident', 'a')
    return [
        ('single', lambda f: G.V(_u(f()))),
        ('two', lambda f: G.V(i, _u(f()), ',', _u(f()))),
        ('function', lambda f: G.V(('function', 'f', G.V(_u(f()))), _u(f()))),
        ('mixed', lambda f: G.V(_u(f()), ('function', 'format', G.V(('string', 'woff'))), ',', ('function', 'g', G.V(i, ',', _u(f()))))),
        # url() two and three function levels deep, as first / middle / last argument, next to URLs of the shallower levels (document order across levels)
        ('nested2', lambda f: G.V(('function', 'f', G.V(('function', 'g', G.V(_u(f()), ('number', '1'))), ',', _u(f()), ',', ('percentage', '50'))), _u(f()))),
        ('nested3', lambda f: G.V(_u(f()), ('function', 'f', G.V(i, ',', ('function', 'g', G.V(_u(f()), ',', ('function', 'h', G.V(i, _u(f()))), ',', _u(f()))), ',', _u(f()))))),
    ]


# Function NAMES the value parser treats in a way of its own: the IE filter functions (cssutils.css.value.MSValue - its arguments are parsed by a looser production than those of an
# ordinary function).  A url() among the arguments of such a function is a URL of the sheet like any other.  (progid:DXImageTransform.Microsoft.X(...) values belong to the same
# class of the parser, but the unchanged tree does not read them at all - the declaration is dropped - so they hold no URL to enumerate: outside the domain.)
SPECIAL_FUNCTIONS = ('expression', 'alpha', 'blur', 'chroma', 'dropshadow', 'fliph', 'flipv', 'glow', 'gray', 'invert', 'mask', 'shadow', 'wave', 'xray')


def _named_function_shapes():
    """[(label, function(fresh) -> value)] for every special function name N: url() as the only argument, two url() arguments, N inside an ordinary function, an ordinary
    function inside N, N inside another special function - each next to a URL outside (document order across the levels)"""
    out = []
    one = ('number', '1')
    for k, name in enumerate(SPECIAL_FUNCTIONS):
        other = SPECIAL_FUNCTIONS[(k + 5) % len(SPECIAL_FUNCTIONS)]
        out += [
            ('named/%s/single' % name, lambda f, N=name: G.V(('function', N, G.V(_u(f()))), _u(f()))),
            ('named/%s/two' % name, lambda f, N=name: G.V(_u(f()), ('function', N, G.V(_u(f()), ',', one, ',', _u(f()))))),
            ('named/%s/in-function' % name, lambda f, N=name: G.V(('function', 'f', G.V(_u(f()), ',', ('function', N, G.V(_u(f()))))), _u(f()))),
            ('named/%s/function-inside' % name, lambda f, N=name: G.V(('function', N, G.V(('function', 'g', G.V(_u(f()))), ',', _u(f()))), _u(f()))),
            ('named/%s/in-named' % name, lambda f, N=name, M=other: G.V(('function', M, G.V(('function', N, G.V(_u(f()), ',', _u(f()))), ',', _u(f()))))),
        ]
    return out


URL_FORMS = ['x.png', 'a b.png', 'http://h/p?q=1&r=2#f', '', "o'k", 'p(1)', 'data:image/png;base64,AA==', '../up/x.png', '#f', '/abs/x.png', '//h2/x.png', 'a%20b.png', 'é.png', 'x.png?v=1#f']

# path segments that LOOK like the dot segments '.' and '..' but are ordinary names: a name beginning with one dot (dot file / dot directory), beginning with two dots,
# made of three dots, ending in a dot.  (RFC 3986 5.2.4 gives a meaning to the complete segments '.' and '..' only.)
DOT_NAMES = ('.h', '..u', '...', 'k.')
DOT_PREFIXES = ('', 'i/', '../', '.d/')
DOT_LASTS = ('.h.png', '..u.png', '...', 'k.', '.', '..')
DOT_SUFFIXES = ('', '/', '?v=1#f')


def dot_forms(prefix=None):
    """relative URLs whose LAST segment is a dot-like name (or a real dot segment), behind every prefix (none, a directory, the parent, a dot directory), as written / with a
    trailing slash / with query and fragment"""
    return [p + n + s for p in (DOT_PREFIXES if prefix is None else (prefix,)) for n in DOT_LASTS for s in DOT_SUFFIXES]


def _contexts():
    """[(label, function(items1, items2) -> rule)]: items2 is used by the contexts with two declaration blocks"""
    a = G.Sel(G.C('a'))
    scr = ((None, 'screen', ()),)
    prt = ((None, 'print', ()),)
    ff = G.Decl('font-family', G.V(('ident', 'x')))
    return [
        ('style', lambda i1, i2: G.Style([a], i1)),
        ('media/style', lambda i1, i2: G.Media(scr, [G.Style([a], i1)])),
        ('media/media/style', lambda i1, i2: G.Media(scr, [G.Media(prt, [G.Style([a], i1)])])),
        ('page', lambda i1, i2: G.Page((None, None), i1)),
        ('page/margin', lambda i1, i2: G.Page((None, None), [], [G.Margin('@top-left', i1)])),
        ('page+margin', lambda i1, i2: G.Page((None, 'first'), i1, [G.Margin('@top-left', i2), G.Margin('@bottom-center', i1[:1])])),
        ('fontface', lambda i1, i2: G.FontFace([ff] + [G.Decl('src', d[2]) for d in i1 if d[1] == 'background'][:1])),
        ('media/page', lambda i1, i2: G.Media(scr, [G.Page((None, None), i1)])),
    ]


def url_sheets(tier, seed):
    """[(label, abstract sheet)] for part A"""
    out = []
    shapes = _value_shapes()
    ctxs = _contexts()
    imports = [(), (G.Import('i1.css'),), (G.Import('i1.css', ((None, 'screen', ()),)), G.Import('http://h/i2.css'))]
    n = [0]

    def fresh():
        n[0] += 1
        return 'u%d.png' % n[0]

    def items(shape):
        # two declarations of the same property around one without URL
        return [G.Decl('background', shape(fresh)), G.Decl('color', G.V(('ident', 'red'))), G.Decl('background', shape(fresh), True)]

    k = 0
    combos = [((cl, c), None) for cl, c in ctxs] + [((cl1, c1), (cl2, c2)) for (cl1, c1), (cl2, c2) in itertools.product(ctxs, repeat=2)]
    for first, second in combos:
        for si, (sl, shape) in enumerate(shapes):
            if tier != 'thorough' and second is not None and (k + si) % 2:
                continue
            for ii, imp in enumerate(imports):
                if tier != 'thorough' and second is not None and (k + si + ii) % 3:
                    continue
                n[0] = 0
                rules = [first[1](items(shape), items(shapes[(si + 1) % len(shapes)][1]))]
                label = 'urls/%s' % first[0]
                if second is not None:
                    rules.append(second[1](items(shapes[(si + 2) % len(shapes)][1]), items(shape)))
                    label += ',' + second[0]
                out.append(('%s/%s/imports%d' % (label, sl, len(imp)), tuple(imp) + tuple(rules)))
        k += 1
    # the special function names: every shape in every single context (one @import in front)
    for cl, c in ctxs:
        for sl, shape in _named_function_shapes():
            n[0] = 0
            out.append(('urls/%s/%s/imports1' % (cl, sl), tuple(imports[1]) + (c(items(shape), items(shapes[0][1])),)))
    for form in URL_FORMS + dot_forms():
        out.append(('urlform/%r' % form, (G.Import('i.css'), G.Style([G.Sel(G.C('a'))], [G.Decl('background', G.V(_u(form), _u('k.png')))]))))
        if form == '':
            continue   # '@import "";' is not an import of anything
        out.append(('importform/%r' % form, (G.Import(form), G.Style([G.Sel(G.C('a'))], [G.Decl('background', G.V(_u('k.png')))]))))
    for label, sh in gen.enumerate_sheets(tier, seed):
        if gen.urls(sh) and not label.startswith('import-media'):
            out.append(('gen/' + label, sh))
    return out


def _expected_urls(sheet, functions=True, margin_first=False):
    """the URL list by construction: imports, then url() values in document order.
    functions=False / margin_first=True model two recorded findings (for attribution only)"""
    imports = []
    out = []

    def comp(c, infn):
        if c[0] == 'url':
            if functions or not infn:
                out.append(c[1])
        elif c[0] == 'function':
            for _, a in c[2]:
                comp(a, True)

    def items(its):
        for it in its:
            if it[0] == 'decl':
                for _, c in it[2]:
                    comp(c, False)

    def rule(r):
        k = r[0]
        if k == 'style':
            items(r[2])
        elif k == 'media':
            for x in r[2]:
                rule(x)
        elif k == 'page':
            if margin_first:
                for m in r[3]:
                    items(m[2])
                items(r[2])
            else:
                items(r[2])
                for m in r[3]:
                    items(m[2])
        elif k == 'fontface':
            items(r[1])

    for r in sheet:
        if r[0] == 'import':
            imports.append(r[1])
        else:
            rule(r)
    return imports + out


def _has_function_url(sheet):
    return _expected_urls(sheet) != _expected_urls(sheet, functions=False)


def _has_margin_after_page_url(sheet):
    return _expected_urls(sheet) != _expected_urls(sheet, margin_first=True)


def _map_urls(p, fn, functions=True, imports=True):
    """projection form with every URL mapped (value components and @import hrefs)"""
    def walk(x, infn):
        if isinstance(x, tuple):
            if len(x) == 2 and x[0] == 'url' and isinstance(x[1], str):
                return ('url', fn(x[1])) if (functions or not infn) else x
            if len(x) == 4 and x[0] == 'import' and isinstance(x[1], str):
                return ('import', fn(x[1]) if imports else x[1], x[2], x[3])
            if len(x) == 3 and x[0] == 'function':
                return ('function', x[1], walk(x[2], True))
            return tuple(walk(y, infn) for y in x)
        return x
    return walk(p, False)


def _tag(u):
    return 'R/' + u


def _text_urls(text):
    """the URLs a style sheet TEXT holds, read token by token: targets of the @import rules first, then every URI token in document order"""
    from cssutils.tokenize2 import Tokenizer
    from cssutils import helper
    imports, urls = [], []
    after_import = False
    for t in Tokenizer().tokenize(text):
        ty, v = t[0], t[1]
        if ty in ('S', 'COMMENT'):
            continue
        if after_import and ty in ('STRING', 'URI'):
            imports.append(helper.stringvalue(v) if ty == 'STRING' else helper.urivalue(v))
        elif ty == 'URI':
            urls.append(helper.urivalue(v))
        after_import = ty == 'IMPORT_SYM'
    return imports + urls


def _parse_a(text):
    cssutils = _quiet()
    f = Fetcher({})
    try:
        return cssutils.CSSParser(fetcher=f).parseString(text, href=ROOT)
    finally:
        cssutils.log.raiseExceptions = True


def check_urls_sheet(label, sheet):
    """-> (evaluations, [(clause, detail, known id or None)])"""
    cssutils = _quiet()
    text = gen.render(sheet)
    fails = []
    n = 0
    exp = _expected_urls(sheet)
    alt = []   # (known id, alternative expected list)
    if _has_function_url(sheet):
        alt.append(('C19-url-in-function-ignored', {'functions': False}))
    if _has_margin_after_page_url(sheet):
        alt.append(('C19-geturls-margin-box-before-page', {'margin_first': True}))

    def attribute(got, transform=lambda us: us, sort=False):
        """known ids whose model explains got, or None"""
        for r in range(1, len(alt) + 1):
            for combo in itertools.combinations(alt, r):
                kw = {}
                for _, d in combo:
                    kw.update(d)
                e = transform(_expected_urls(sheet, **kw))
                if (sorted(e) if sort else e) == (sorted(got) if sort else got):
                    return [fid for fid, _ in combo]
        return None

    def fail(clause, detail, ids=None):
        for fid in (ids or [None]):
            fails.append((clause, '%s | %r | %s' % (label, text[:300], detail), fid))

    try:
        dom = _parse_a(text)
        before_p = gen.project(dom, lenient=True)
        modelled = before_p == gen.canon(sheet)
        if not modelled:
            # the text does not parse to the tree it was rendered from: a C02 matter (recorded there) - unless the sheet demonstrably HOLDS the URLs: its serialisation, read
            # token by token, has exactly the expected URI tokens / @import targets in the expected order.  Then enumeration and the replacer calls are still judged (the clauses
            # that compare DOM projections are not: the projection has no model of such a value)
            if _text_urls(dom.cssText.decode('utf-8')) != exp:
                return 0, [('skipped', label, None)]
        # (a) enumeration
        n += 1
        got = list(cssutils.getUrls(dom))
        if got != exp:
            fail(CL_GETURLS, 'got %r, expected %r' % (got, exp), attribute(got))
        # (b) identity
        n += 1
        before = dom.cssText
        cssutils.replaceUrls(dom, lambda u: u)
        if dom.cssText != before:
            fail(CL_IDENTITY, 'cssText %r -> %r' % (before[:200], dom.cssText[:200]))
        elif gen.project(dom, lenient=True) != before_p:
            fail(CL_IDENTITY, gen.diff(gen.project(dom, lenient=True), before_p))
        if not modelled:
            n += 1
            dom = _parse_a(text)
            calls = []
            cssutils.replaceUrls(dom, lambda u: (calls.append(u), _tag(u))[1])
            if sorted(calls) != sorted(exp):
                fail(CL_ONCE, 'replacer called with %r, expected (any order) %r' % (calls, exp), attribute(calls, sort=True))
            elif _text_urls(dom.cssText.decode('utf-8')) != [_tag(u) for u in exp]:
                fail(CL_ONLY, 'URLs of the serialised sheet %r, expected %r' % (_text_urls(dom.cssText.decode('utf-8')), [_tag(u) for u in exp]))
            return n, fails
        # (c) recording + tagging replacer
        n += 1
        dom = _parse_a(text)
        calls = []

        def rec(u):
            calls.append(u)
            return _tag(u)
        cssutils.replaceUrls(dom, rec)
        if sorted(calls) != sorted(exp):
            fail(CL_ONCE, 'replacer called with %r, expected (any order) %r' % (calls, exp), attribute(calls, sort=True))
        after_p = gen.project(dom, lenient=True)
        want_p = _map_urls(before_p, _tag)
        if after_p != want_p:
            ids = None
            if _has_function_url(sheet) and after_p == _map_urls(before_p, _tag, functions=False):
                ids = ['C19-url-in-function-ignored']
            fail(CL_ONLY, gen.diff(after_p, want_p), ids)
        # (d) ignoreImportRules
        n += 1
        dom = _parse_a(text)
        calls = []
        cssutils.replaceUrls(dom, rec, ignoreImportRules=True)
        nimp = len([r for r in sheet if r[0] == 'import'])
        if sorted(calls) != sorted(exp[nimp:]):
            fail(CL_IGNOREIMPORTS, 'replacer called with %r, expected (any order) %r' % (calls, exp[nimp:]), attribute(calls, lambda us: us[nimp:], sort=True))
        want_p = _map_urls(before_p, _tag, imports=False)
        after_p = gen.project(dom, lenient=True)
        if after_p != want_p:
            ids = None
            if _has_function_url(sheet) and after_p == _map_urls(before_p, _tag, functions=False, imports=False):
                ids = ['C19-url-in-function-ignored']
            fail(CL_IGNOREIMPORTS, gen.diff(after_p, want_p), ids)
        # (e) the CSSStyleDeclaration overload, on the first style rule
        first = next((i for i, r in enumerate(sheet) if r[0] == 'style'), None)
        if first is not None:
            n += 1
            dom = _parse_a(text)
            rule = dom.cssRules[first]
            calls = []
            cssutils.replaceUrls(rule.style, rec)
            one = (sheet[first],)
            e1 = _expected_urls(one)
            want_p = before_p[:first] + _map_urls((before_p[first],), _tag) + before_p[first + 1:]
            after_p = gen.project(dom, lenient=True)
            if sorted(calls) != sorted(e1) or after_p != want_p:
                ids = None
                if _has_function_url(one) and sorted(calls) == sorted(_expected_urls(one, functions=False)) and after_p == before_p[:first] + _map_urls((before_p[first],), _tag, functions=False) + before_p[first + 1:]:
                    ids = ['C19-url-in-function-ignored']
                fail(CL_STYLE, 'calls %r expected %r; %s' % (calls, e1, gen.diff(after_p, want_p) if after_p != want_p else 'DOM as expected'), ids)
    except Exception as e:  # noqa: BLE001
        fail('bounded: URL enumeration / replacement returns (no exception)', '%s: %s' % (type(e).__name__, str(e)[:200]))
    return n, fails


def _w_urls(args):
    tier, seed, lo, hi = args
    sheets = url_sheets(tier, seed)
    res = {'n': 0, 'kinds': set(), 'fails': []}
    for label, sheet in sheets[lo:hi]:
        n, fails = check_urls_sheet(label, sheet)
        if fails and fails[0][0] == 'skipped':
            res['skipped'] = res.get('skipped', 0) + 1
            continue
        res['n'] += n
        res['kinds'].add(label.rsplit('/imports', 1)[0] if label.startswith('urls/') else label.split(':')[0])
        for cl, detail, fid in fails:
            res['fails'].append({'clause': cl, 'detail': detail, 'known': fid, 'inputs': {'text': gen.render(sheet), 'label': label}})
    return res


# ======================================================================================================================= URL comparison

def canon_abs(u):
    """absolute URL with a canonical percent-encoding of the path ('a b' == 'a%20b', but '%2520' != '%20')"""
    sp = urlsplit(u)
    if sp.scheme in ('data', 'mailto'):
        return u
    return urlunsplit((sp.scheme, sp.netloc, quote(unquote(sp.path), safe='/'), sp.query, sp.fragment))


def _strip_qf(u):
    sp = urlsplit(u)
    return urlunsplit((sp.scheme, sp.netloc, sp.path, '', ''))


# the recorded URL-level findings: (id, applies(text of the original URL, kind), transform(expected absolute URL, combined location) -> predicted wrong URL)
# A mismatch is attributed only if the observed URL is EXACTLY what the transforms of the applicable findings predict.
def _rel(text):
    sp = urlsplit(text)
    return not sp.scheme and not sp.netloc


def _t_host(e_abs, combined):
    c = urlsplit(combined)
    sp = urlsplit(e_abs)
    return urlunsplit((c.scheme, c.netloc, sp.path, sp.query, sp.fragment))


def _t_percent(e_abs, combined):
    sp = urlsplit(e_abs)
    return urlunsplit((sp.scheme, sp.netloc, sp.path.replace('%', '%25'), sp.query, sp.fragment))


def _t_slash(e_abs, combined):
    sp = urlsplit(e_abs)
    return urlunsplit((sp.scheme, sp.netloc, sp.path.rstrip('/') or '/', sp.query, sp.fragment))


URL_CLASSES = [
    ('C19-replacer-drops-query-fragment', lambda t, k: _rel(t) and not t.startswith('/') and urlsplit(t).path != '' and bool(urlsplit(t).query or urlsplit(t).fragment), lambda e, c: _strip_qf(e)),
    ('C19-replacer-double-encodes-percent', lambda t, k: _rel(t) and not t.startswith('/') and '%' in urlsplit(t).path, _t_percent),
    ('C19-replacer-drops-trailing-slash', lambda t, k: _rel(t) and not t.startswith('/') and (urlsplit(t).path.endswith('/') or urlsplit(t).path.split('/')[-1] in ('.', '..')), _t_slash),
    ('C19-foreign-host-import-urls-lose-host', lambda t, k: _rel(t), _t_host),
]


def attribute_url(text, kind, origin, combined, got, g_abs, e_abs):
    """-> list of recorded-finding ids that explain the wrong URL, or None"""
    if kind == 'function-url' and got == text:
        return ['C19-url-in-function-ignored']
    if kind == 'import' and got == text:
        return ['C19-kept-nested-import-not-rebased']
    if _rel(text) and urlsplit(text).path == '':
        # '', '#f', '?q': the URL of the sheet itself (plus fragment / query) - the Replacer returns the directory of the import instead
        want_dir = canon_abs(urljoin(origin, '.')).rstrip('/')
        if g_abs.rstrip('/') in (want_dir, canon_abs(_t_host(want_dir, combined)).rstrip('/')) or canon_abs(urljoin(combined, '.')).rstrip('/') == g_abs.rstrip('/'):
            return ['C19-replacer-empty-path']
        return None
    cands = [(fid, tr) for fid, ap, tr in URL_CLASSES if ap(text, kind)]
    if urlsplit(origin).netloc == urlsplit(combined).netloc:
        cands = [c for c in cands if c[0] != 'C19-foreign-host-import-urls-lose-host']
    for r in range(1, len(cands) + 1):
        for combo in itertools.combinations(cands, r):
            p = e_abs
            for _, tr in combo:
                p = tr(p, combined)
            if canon_abs(p) == g_abs:
                return [fid for fid, _ in combo]
    return None


# ================================================================================================================================= B: Replacer

def _segments(names, n):
    out = ['']
    for k in range(1, n + 1):
        for combo in itertools.product(names, repeat=k):
            out.append('/'.join(combo) + '/')
    return out


def _paths(names, n):
    """every path of 1..n segments over names"""
    return ['/'.join(combo) for k in range(1, n + 1) for combo in itertools.product(names, repeat=k)]


def _uniq(xs):
    return list(dict.fromkeys(xs))


def replacer_cases(tier):
    bases = [d + 'b.css' for d in _segments(('x', 'y', '..', '.'), 3)] + ['/p/q/b.css', 'http://o/p/b.css', '//o/p/b.css', 'x/b.css?v=1', 'b.css#f']
    urls = [d + 'k.png' for d in _segments(('i', 'j', '..', '.'), 3)] + URL_FORMS + ['i/', '../', './', '.', '..', '?q=1', 'i/k.png#f', 'mailto:x@y', 'i//k.png', 'i/k.png?a=/b/../c']
    # the dot-like names at EVERY position (also last: the paths above all end in k.png or in a special form): import hrefs with dot-like directories and dot-like file names,
    # URLs = every path of <= 3 segments over {a name, '.', '..', the dot-like names} as written and with a trailing slash, the <= 2 segment ones also with query + fragment
    seg = ('i', '..', '.') + DOT_NAMES
    # (quick: the dot-like FILE names of the import below directories of <= 1 segment only)
    bases += [d + f for f in ('b.css', '.b.css', '..b.css', 'b.') for d in _segments(('x', '..', '.') + DOT_NAMES, 2 if (f == 'b.css' or tier == 'thorough') else 1)]
    urls += [p + s for p in _paths(seg, 3) for s in ('', '/')] + [p + '?v=1#f' for p in _paths(seg, 2)]
    return _uniq(bases), _uniq(urls)


def _w_replacer(args):
    tier, lo, hi = args
    cssutils = _quiet()
    bases, urls = replacer_cases(tier)
    res = {'n': 0, 'kinds': set(), 'fails': []}
    for B in bases[lo:hi]:
        origin = urljoin(DEEP, B)
        try:
            rp = cssutils.Replacer(B)
        except Exception as e:  # noqa: BLE001
            res['fails'].append({'clause': CL_REPLACER, 'detail': 'Replacer(%r) raises %s: %s' % (B, type(e).__name__, e), 'known': None, 'inputs': {'base': B}})
            continue
        for u in urls:
            res['n'] += 1
            res['kinds'].add((_shape(B), _shape(u)))
            try:
                got = rp(u)
            except Exception as e:  # noqa: BLE001
                res['fails'].append({'clause': CL_REPLACER, 'detail': 'Replacer(%r)(%r) raises %s: %s' % (B, u, type(e).__name__, e), 'known': None, 'inputs': {'base': B, 'url': u}})
                continue
            g_abs = canon_abs(urljoin(DEEP, got))
            # (RFC 3986 5.2.2: an empty reference resolves to the base WITHOUT its fragment; urllib's urljoin returns the base unchanged there -
            #  corrected false alarm: the oracle demanded the import href's fragment on url('') )
            e_abs = canon_abs(urljoin(origin, u) if u else urldefrag(origin)[0])
            if g_abs != e_abs:
                ids = attribute_url(u, 'url', origin, DEEP, got, g_abs, e_abs)
                for fid in (ids or [None]):
                    res['fails'].append({'clause': CL_REPLACER, 'detail': 'Replacer(%r)(%r) == %r: resolves to %r, expected %r' % (B, u, got, g_abs, e_abs), 'known': fid,
                                         'cls': (_shape(B), _shape(u)), 'inputs': {'base': B, 'url': u, 'combined': DEEP}})
    return res


def _shape(u):
    """shape of a URL: segments with names replaced"""
    sp = urlsplit(u)
    # (d: a name that begins with a dot, e: a name that ends in a dot - names, not dot segments)
    segs = ['..' if s == '..' else '.' if s == '.' else '' if s == '' else 'd' if s.startswith('.') else 'e' if s.endswith('.') else 'n' for s in sp.path.split('/')]
    return ('S' if sp.scheme else '') + ('//' if sp.netloc else '') + '/'.join(segs) + ('?' if sp.query else '') + ('#' if sp.fragment else '')


# ================================================================================================================= C: virtual file systems

LOCS = {
    'same': '%s', 'dot': './%s', 'child': 'sub/%s', 'child2': 'sub/deep/%s', 'parent': '../%s', 'sibling': '../sib/%s', 'grand': '../../%s',
    'rootrel': '/q/%s', 'schemerel': '//h/q2/%s', 'abs': 'http://h/q3/%s', 'otherhost': 'http://other/o/%s', 'schemerel-other': '//other2/o/%s',
    # dot-like names in the import href: a dot directory, a dot file, a directory named '...' below the parent
    'dotdir': '.hid/%s', 'dotfile': '.%s', 'dots-sibling': '../.../%s',
}
MEDIA = {
    'none': (), 'all': ((None, 'all', ()),), 'screen': ((None, 'screen', ()),), 'print': ((None, 'print', ()),), 'list': ((None, 'print', ()), (None, 'tv', ())),
    'query': ((None, 'screen', (('min-width', ('dimension', '100', 'px')),)),),
}
BENIGN_URLS = ('img/%s.png', '../up/%s.png', '/abs/%s.png', 'http://cdn/%s.png', 'data:image/png;base64,AA==')


def fn_value(depth, n='k', name=None):
    """a value with url() at every function level 1..depth and one outside: f1(url(img/n-in1.png), f2(url(img/n-in2.png), ...)) url(n-out.png);
    with name (one of SPECIAL_FUNCTIONS) the functions of the odd levels carry special names: name(url(..), f2(url(..), other(url(..)))) url(..)"""
    inner = None
    if name is not None:
        n = '%s-%s' % (n, name)
    for lvl in range(depth, 0, -1):
        parts = [_u('img/%s-in%d.png' % (n, lvl))]
        if inner is not None:
            parts += [',', inner]
        fname = 'f%d' % lvl
        if name is not None and lvl % 2:
            fname = SPECIAL_FUNCTIONS[(SPECIAL_FUNCTIONS.index(name) + 5 * (lvl // 2)) % len(SPECIAL_FUNCTIONS)]
        inner = ('function', fname, G.V(*parts))
    return G.V(inner, _u('%s-out.png' % n))


FN_DEPTHS = (1, 2, 3)


def body(kind, n, urls=BENIGN_URLS):
    """the own rules of a virtual sheet named n; an entry ('FN', depth) / ('FN', depth, special function name) of urls stands for fn_value(depth, n[, name])"""
    decls = [G.Decl('x%d' % i, fn_value(t[1], n, *t[2:]) if isinstance(t, tuple) else G.V(_u(t % n if '%s' in t else t))) for i, t in enumerate(urls)]
    st = G.Style([G.Sel(G.C(None, ('class', n)))], decls)
    st2 = G.Style([G.Sel(G.C(n))], [G.Decl('top', G.V(('number', '0')))])
    if kind == 'style':
        return (st,)
    if kind == 'style2':
        return (st, G.Comment(' ' + n + ' '), st2)
    if kind == 'fontface':
        return (G.FontFace([G.Decl('font-family', G.V(('ident', n))), G.Decl('src', G.V(_u(n + '.woff')))]), st2)
    if kind == 'page':
        return (G.Page((None, 'first'), [G.Decl('background', G.V(_u(n + '-bg.png')))], [G.Margin('@top-left', [G.Decl('content', G.V(_u(n + '-tl.png')))])]), st2)
    if kind == 'namespace':
        return (G.Namespace('p' + n, 'http://ns/' + n), G.Style([G.Sel(G.C(('p' + n, n)))], decls[:1]))
    if kind == 'charset':
        return (G.Charset('utf-8'), st)
    if kind == 'media':
        return (G.Media(((None, 'tv', ()),), [st]), st2)
    if kind == 'unknown':
        return (G.Unknown('@foo', [('ident', n), ('char', ';')]), st)
    if kind == 'comment':
        return (G.Comment(n), st)
    raise ValueError(kind)


BODIES = ('style', 'style2', 'fontface', 'page', 'namespace', 'charset', 'media', 'unknown', 'comment')


def node(name, kind='style', edges=(), urls=BENIGN_URLS, tail=True):
    """tree spec of a virtual sheet: edges = [(loc, media name, child node | None (missing) | 'self' | 'root')]"""
    return {'name': name, 'kind': kind, 'edges': list(edges), 'urls': urls}


def build_vfs(root, root_url=ROOT):
    """tree spec -> {url: abstract sheet}"""
    vfs = {}

    def place(nd, url):
        imports = []
        for loc, media, child in nd['edges']:
            if child == 'self':
                href = url.rsplit('/', 1)[1]
            elif child == 'root':
                href = root_url
            else:
                cname = child['name'] if child else 'gone-' + nd['name']
                href = LOCS[loc] % (cname + '.css')
            imports.append(G.Import(href, MEDIA[media]))
            if child and child not in ('self', 'root'):
                place(child, urljoin(url, href))
        own = body(nd['kind'], nd['name'], nd['urls'])
        if own and own[0][0] == 'charset':
            vfs[url] = (own[0],) + tuple(imports) + own[1:]
        elif own and own[0][0] == 'namespace':
            vfs[url] = tuple(imports) + own
        else:
            vfs[url] = tuple(imports) + own
    place(root, root_url)
    return vfs


def render_vfs(vfs, encodings=None):
    files = {}
    for url, sheet in vfs.items():
        enc = (encodings or {}).get(url, 'utf-8')
        files[url] = gen.render(sheet).encode(enc)
    return files


# ------------------------------------------------------------------------------------------------------------------------------ the oracle

ALLMEDIA = ((None, 'all', ()),)
REF = '@ref'


def _refify(p, origin):
    """projection form of a rule with every URL leaf replaced by (REF, origin sheet, text as written, kind)"""
    def walk(x, infn):
        if isinstance(x, tuple):
            if len(x) == 2 and x[0] == 'url' and isinstance(x[1], str):
                return ('url', (REF, origin, x[1], 'function-url' if infn else 'url'))
            if len(x) == 3 and x[0] == 'function':
                return ('function', x[1], walk(x[2], True))
            return tuple(walk(y, infn) for y in x)
        return x
    return walk(p, False)


def expand(vfs, url, stack=()):
    """the flat sheet the file system denotes, as a list of ALTERNATIVES [(items, notes)]: items = projection-form rules (URL leaves as REF tuples) in cascade
    order; several alternatives only where wrapping a group holding @media/@page/@font-face/unknown rules is a matter of taste (see module docstring)"""
    sheet = vfs[url]
    canon = gen.canon(sheet)
    alts = [((), frozenset())]
    for r, c in zip(sheet, canon):
        if r[0] == 'charset':
            continue
        if r[0] == 'import':
            target = urljoin(url, r[1])
            media = c[2]
            kept = ('import', (REF, url, r[1], 'import'), media, r[3])
            if target not in vfs:
                new = [((kept,), frozenset(['kept']))]
            elif target == url or target in stack:
                new = [((kept,), frozenset(['kept', 'kept-cyclic']))]
            else:
                new = []
                for items, notes in expand(vfs, target, stack + (url,)):
                    if 'raises-here' in notes:
                        # model of one recorded finding: cssutils raises while flattening the target (see below); one level up the exception is caught
                        # and the @import of the whole target is kept
                        notes = notes - {'raises-here'}
                        new.append(((kept,), notes | {'kept', 'kept-after-nested-raise'}))
                    if media == ALLMEDIA:
                        new.append((items, notes))
                        continue
                    kinds = {i[0] for i in items}
                    if kinds & {'namespace', 'import'}:
                        # (a kept @import in the group: cssutils tries to wrap it and raises HierarchyRequestErr - 'raises-here')
                        new.append(((kept,), notes | {'kept'} | ({'kept-import-in-media-group', 'raises-here'} if 'import' in kinds else set())))
                    elif kinds <= {'style', 'comment'}:
                        new.append(((('media', media, items),), notes))
                    else:
                        new.append(((('media', media, items),), notes | {'wrapped-nested'}))
                        new.append(((kept,), notes | {'kept', 'kept-though-wrappable'}))
            alts = [(a + ni, an | nn) for a, an in alts for ni, nn in new]
        else:
            item = _refify(c, url)
            alts = [(a + (item,), an) for a, an in alts]
        if len(alts) > 64:
            alts = alts[:64]
    merged = {}
    for items, notes in alts:
        if items in merged and ('kept-after-nested-raise' in notes) != ('kept-after-nested-raise' in merged[items]):
            # the same result with and without the help of the recorded finding: it is a clean expectation
            merged[items] = (merged[items] | notes) - {'kept-after-nested-raise'}
        else:
            merged[items] = merged.get(items, frozenset()) | notes
    return sorted(merged.items(), key=lambda kv: 'kept-after-nested-raise' in kv[1])


def reachable(vfs, url, stack=()):
    """-> (available targets that get loaded, unavailable targets asked for) as lists with multiplicity (one entry per @import edge that is followed)"""
    av, un = [], []
    for r in vfs[url]:
        if r[0] != 'import':
            continue
        target = urljoin(url, r[1])
        if target == url or target in stack:
            continue   # cycle: detected before any fetch
        if target in vfs:
            av.append(target)
            a2, u2 = reachable(vfs, target, stack + (url,))
            av += a2
            un += u2
        else:
            un.append(target)
    return av, un


_MARKER = re.compile(r'^ START @import ".*" $', re.S)


def normalise(p, minified=False):
    """projection of a flattened sheet for comparison: no @charset, no marker comments of resolveImports, @namespace rules first;
    minified output (keepComments / keepUnknownAtRules off): no comments, no unknown rules"""
    def rules(rs, top):
        out = []
        for r in rs:
            k = r[0]
            if k == 'charset':
                continue
            if k == 'comment' and (minified or _MARKER.match(r[1])):
                continue
            if k == 'unknown' and minified:
                continue
            if k == 'media':
                r = ('media', r[1], rules(r[2], False))
            elif minified and k == 'style':
                r = ('style', r[1], tuple(i for i in r[2] if i[0] != 'comment'))
            out.append(r)
        if top:
            out = [r for r in out if r[0] == 'namespace'] + [r for r in out if r[0] != 'namespace']
        return tuple(out)
    return rules(p, True)


def hoist(items):
    """model of one recorded finding: kept @import rules are moved ahead of all other rules"""
    return tuple(r for r in items if r[0] == 'import') + tuple(r for r in items if r[0] != 'import')


def leaves(p):
    """URL leaves of a projection form in order: strings (observed) or REF tuples (expected)"""
    out = []

    def walk(x):
        if isinstance(x, tuple):
            if len(x) == 2 and x[0] == 'url' and (isinstance(x[1], str) or (isinstance(x[1], tuple) and x[1][:1] == (REF,))):
                out.append(x[1])
                return
            if len(x) == 4 and x[0] == 'import':
                out.append(x[1])
                walk(x[2])
                return
            for y in x:
                walk(y)
    walk(p)
    return out


def skeleton(p):
    def walk(x):
        if isinstance(x, tuple):
            if len(x) == 2 and x[0] == 'url' and (isinstance(x[1], str) or (isinstance(x[1], tuple) and x[1][:1] == (REF,))):
                return ('url', '?')
            if len(x) == 4 and x[0] == 'import':
                return ('import', '?', walk(x[2]), x[3])
            return tuple(walk(y) for y in x)
        return x
    return walk(p)


def compare_flat(got_p, alts, combined, minified=False):
    """-> [(clause, detail, known id | None)]"""
    g = normalise(got_p, minified)
    gs = skeleton(g)
    chosen = None
    ids = []
    for quirk in (False, True):
        for items, notes in alts:
            if ('kept-after-nested-raise' in notes) != quirk:
                continue
            e = normalise(items, minified)
            if skeleton(e) == gs:
                chosen = e
            elif 'kept' in notes and skeleton(normalise(hoist(items), minified)) == gs:
                chosen = normalise(hoist(items), minified)
                ids = ['C19-kept-import-hoisted']
            if chosen is not None:
                if quirk:
                    ids = ids + ['C19-kept-import-inside-media-import-raises']
                break
        if chosen is not None:
            break
    if chosen is None:
        e = normalise(alts[0][0], minified)
        return [(CL_STRUCT, gen.diff(skeleton(g), skeleton(e)), None)]
    fails = [(CL_STRUCT, ('kept @import rules moved ahead of the rules of earlier imports: %s' if fid == 'C19-kept-import-hoisted' else
                          'an @import is kept because flattening its target raised internally: %s') % gen.diff(gs, skeleton(normalise(alts[0][0], minified))), fid) for fid in ids]
    for got, ref in zip(leaves(g), leaves(chosen)):
        _, origin, text, kind = ref
        e_abs = canon_abs(urljoin(origin, text))
        g_abs = canon_abs(urljoin(combined, got))
        if g_abs == e_abs:
            continue
        known = attribute_url(text, kind, origin, combined, got, g_abs, e_abs)
        detail = '%s %r of %s became %r: resolves to %r, expected %r' % (kind, text, origin, got, g_abs, e_abs)
        for fid in (known or [None]):
            fails.append((CL_URL, detail, fid))
    return fails


def check_vfs(label, vfs, apis=('resolve', 'combine-min', 'combine')):
    """-> (evaluations, [(clause, detail, known)])"""
    import xml.dom
    cssutils = _quiet()
    import cssutils.script
    import cssutils.util
    files = render_vfs(vfs)
    alts = expand(vfs, ROOT)
    notes = set().union(*[n for _, n in alts])
    av, un = reachable(vfs, ROOT)
    # where a kept nested @import points when its href is (wrongly) read relative to the combined sheet - symptom of one recorded finding
    misplaced = {urljoin(ROOT, ref[2]) for items, _ in alts for ref in leaves(items) if ref[3] == 'import' and ref[1] != ROOT}
    fails = []
    n = 0

    def fail(api, clause, detail, fid=None):
        fails.append((clause, '%s | %s | %s' % (label, api, detail), fid))

    def fetches(api, f, extra_root=0):
        log = [u for u in f.log]
        for u in set(log) | set(av) | set(un):
            c = log.count(u) - (extra_root if u == ROOT else 0)
            if u == ROOT and extra_root:
                if c != 0:
                    fail(api, CL_FETCH, 'the root sheet was fetched %d times' % (c + extra_root), 'C19-unavailable-target-fetched-again' if 'kept-cyclic' in notes else None)
                continue
            if u in av:
                if c != av.count(u):
                    fail(api, CL_FETCH, '%s fetched %d time(s), imported %d time(s)' % (u, c, av.count(u)), 'C19-unavailable-target-fetched-again' if (c > av.count(u) and 'kept-cyclic' in notes) else None)
            elif u in un:
                if c > un.count(u):
                    fail(api, CL_FETCH, 'unavailable %s fetched %d time(s), imported %d time(s)' % (u, c, un.count(u)), 'C19-unavailable-target-fetched-again')
            elif c:
                fail(api, CL_FETCH, '%s fetched %d time(s) but is not an @import target of a loaded sheet' % (u, c), 'C19-unavailable-target-fetched-again' if 'kept-cyclic' in notes else ('C19-kept-nested-import-not-rebased' if u in misplaced else None))

    def crashed(api, e):
        if isinstance(e, xml.dom.HierarchyRequestErr) and 'raises-here' in notes:
            fail(api, CL_RAISES, '%s: %s' % (type(e).__name__, str(e)[:160]), 'C19-kept-import-inside-media-import-raises')
        else:
            fail(api, CL_RAISES, '%s: %s' % (type(e).__name__, str(e)[:200]))

    if 'resolve' in apis:
        n += 1
        f = Fetcher(files)
        try:
            sheet = cssutils.CSSParser(fetcher=f).parseString(files[ROOT], href=ROOT)
            flat = cssutils.resolveImports(sheet)
            for cl, d, fid in compare_flat(gen.project(flat, lenient=True), alts, ROOT):
                fail('resolveImports', cl, d, fid)
            fetches('resolveImports', f)
        except Exception as e:  # noqa: BLE001
            crashed('resolveImports', e)
        finally:
            cssutils.log.raiseExceptions = True
    for api in apis:
        if not api.startswith('combine'):
            continue
        n += 1
        minify = api == 'combine-min'
        f = Fetcher(files)
        old = cssutils.util._defaultFetcher
        oldser = cssutils.ser
        cssutils.util._defaultFetcher = f
        try:
            if minify:
                out = cssutils.script.csscombine(url=ROOT, minify=True)
            else:
                out = cssutils.script.csscombine(cssText=files[ROOT], href=ROOT, minify=False)
            dom = cssutils.CSSParser(fetcher=Fetcher({})).parseString(out)
            for cl, d, fid in compare_flat(gen.project(dom, lenient=True), alts, ROOT, minified=minify):
                fail(api, cl, d + ' | output %r' % out[:160], fid)
            fetches(api, f, extra_root=1 if minify else 0)
        except Exception as e:  # noqa: BLE001
            crashed(api, e)
        finally:
            cssutils.util._defaultFetcher = old
            cssutils.setSerializer(oldser)
            cssutils.ser.prefs.useDefaults()
            cssutils.log.raiseExceptions = True
    return n, fails


# --------------------------------------------------------------------------------------------------------------------------- the domains

def vfs_single(tier):
    """C1: one @import edge: every location x media x target body / missing"""
    out = []
    for loc in LOCS:
        for media in MEDIA:
            for kind in BODIES + (None,):
                child = node('a', kind) if kind else None
                out.append(('single/%s/%s/%s' % (loc, media, kind or 'missing'), node('m', 'style2', [(loc, media, child)])))
    return out


DOT_LOCS = ('dotdir', 'dotfile', 'dots-sibling')
CHAIN_LOCS = ('same', 'child', 'parent', 'sibling', 'rootrel', 'otherhost')
CHAIN_MEDIA = ('none', 'screen')
CHAIN_URLS = BENIGN_URLS + (('FN', 2), '.%s.png', '.d/..%s', ('FN', 1, 'mask'))   # (dot-like last segments, re-based once per edge; the last: url() inside a special function)


def vfs_chains(tier, seed):
    """C2: chains root -> t1 -> ... -> td, every edge with its own location and media"""
    out = []
    rnd = random.Random(seed)
    depths = (2, 3) if tier == 'quick' else (2, 3, 4)
    for d in depths:
        if d == 2 and tier != 'quick':
            # depth 2 in the thorough tier: every location x every media on both edges
            # (pairs holding one of the dot-name locations: media on / off only)
            combos = [(ll, mm) for ll in itertools.product(LOCS, repeat=2) for mm in itertools.product(MEDIA, repeat=2)
                      if not (set(ll) & set(DOT_LOCS)) or set(mm) <= set(CHAIN_MEDIA)]
        else:
            combos = list(itertools.product(itertools.product(CHAIN_LOCS, repeat=d), itertools.product(CHAIN_MEDIA, repeat=d)))
        limit = {2: None, 3: 260 if tier == 'quick' else None, 4: None}[d]
        if limit and len(combos) > limit:
            # pairwise over the 2d fields first, then a seeded sample
            rows = gen.pairwise_rows([list(CHAIN_LOCS)] * d + [list(CHAIN_MEDIA)] * d, seed)
            pw = [(tuple(r[:d]), tuple(r[d:])) for r in rows]
            rest = [c for c in combos if c not in set(pw)]
            combos = pw + rnd.sample(rest, limit - len(pw))
        for locs, medias in combos:
            # edge i leads from t(i) (t0 = the root m) to t(i+1)
            # (every sheet of a chain also holds url() values one and two function levels deep: re-based once per edge)
            nd = None
            for i in range(d, 0, -1):
                nd = node('t%d' % i, 'style', [(locs[i], medias[i], nd)] if (nd and i < d) else [], urls=CHAIN_URLS)
            root = node('m', 'style', [(locs[0], medias[0], nd)], urls=CHAIN_URLS)
            out.append(('chain%d/%s/%s' % (d, '-'.join(locs), '-'.join(medias)), root))
    return out


def vfs_branching(tier):
    """C3: root -> [A -> [C], B] with bodies that cannot be wrapped and missing targets at every place"""
    out = []
    locs = ('same', 'child', 'parent', 'otherhost')
    k = 0
    for m1, m2, m3 in itertools.product(('none', 'screen'), ('none', 'list'), ('none', 'query')):
        for ka in ('style', 'fontface', 'namespace', 'media'):
            for kc in ('style', None, 'fontface', 'namespace'):
                for kb in ('style2', None):
                    k += 1
                    c = node('c', kc) if kc else None
                    a = node('a', ka, [(locs[k % 4], m3, c)])
                    b = node('b', kb) if kb else None
                    root = node('m', 'style', [(locs[(k // 4) % 4], m1, a), (locs[(k // 16) % 4], m2, b)])
                    out.append(('branch/%s-%s-%s/%s-%s-%s' % (m1, m2, m3, ka, kc or 'missing', kb or 'missing'), root))
    return out


def vfs_urlforms(tier):
    """C4: every URL form inside an imported sheet, for every way of importing it"""
    out = []
    for loc in LOCS:
        for form in URL_FORMS + ['i/', 'i/k.png?a=/b/../c', './d/../e.png', '../../../../../up.png']:
            a = node('a', 'style', urls=(form, 'k.png'))
            out.append(('urlform/%s/%r' % (loc, form), node('m', 'style', [(loc, 'none', a)])))
        for p in DOT_PREFIXES:
            # the dot-like last segments: one imported sheet per prefix holding all of them (every URL is compared on its own)
            out.append(('urlform/%s/dot-like-last-segment-after-%r' % (loc, p), node('m', 'style', [(loc, 'none', node('a', 'style', urls=tuple(dot_forms(p)) + ('k.png',)))])))
        for d in FN_DEPTHS:
            out.append(('urlform/%s/function-depth%d' % (loc, d), node('m', 'style', [(loc, 'none', node('a', 'style', urls=(('FN', d),)))])))
        # url() among the arguments of every special function name: one imported sheet holding one value per name (function-inside form: name(url, f2(url)) url), and one
        # three levels deep (special name inside an ordinary function inside a special name)
        out.append(('urlform/%s/special-function-names' % loc, node('m', 'style', [(loc, 'none', node('a', 'style', urls=tuple(('FN', 2, nm) for nm in SPECIAL_FUNCTIONS) + (('FN', 3, 'mask'), 'k.png')))])))
    return out


def vfs_cycles(tier):
    out = []
    out.append(('cycle/self', node('m', 'style', [('same', 'none', 'self')])))
    out.append(('cycle/self-media', node('m', 'style', [('same', 'screen', 'self')])))
    out.append(('cycle/two', node('m', 'style', [('child', 'none', node('a', 'style', [('same', 'none', 'root')]))])))
    out.append(('cycle/two-media', node('m', 'style', [('child', 'screen', node('a', 'style', [('same', 'print', 'root')]))])))
    out.append(('cycle/three', node('m', 'style', [('child', 'none', node('a', 'style', [('parent', 'none', node('b', 'style', [('same', 'none', 'root')]))]))])))
    # the same target imported twice (a diamond is no cycle)
    shared = node('d', 'style')
    out.append(('diamond', node('m', 'style', [('same', 'none', node('a', 'style', [('same', 'none', shared)])), ('same', 'screen', node('b', 'style', [('same', 'none', shared)]))])))
    return out


def all_vfs(tier, seed):
    out = vfs_single(tier) + vfs_chains(tier, seed) + vfs_branching(tier) + vfs_urlforms(tier) + vfs_cycles(tier)
    return out


def _build(spec):
    return build_vfs(spec)


def _w_vfs(args):
    tier, seed, lo, hi = args
    specs = all_vfs(tier, seed)
    res = {'n': 0, 'kinds': set(), 'fails': []}
    for label, spec in specs[lo:hi]:
        vfs = _build(spec)
        n, fails = check_vfs(label, vfs)
        res['n'] += n
        res['kinds'].add(label if not label.startswith('chain') else label)
        for cl, detail, fid in fails:
            res['fails'].append({'clause': cl, 'detail': detail, 'known': fid, 'inputs': {'label': label, 'files': {u: gen.render(s) for u, s in vfs.items()}, 'root': ROOT}})
    return res


# ------------------------------------------------------------------------------------------------ D: parse / edit through the DOM / flatten

CL_EDIT = 'bounded: the DOM edit of the import tree is accepted (no exception, the rule found where the file system puts it)'
EDIT_MEDIA_WAYS = ('string', 'object', 'inplace', 'csstext')
SPARE = 'sub2/spare.css'


def _media_text(media):
    return re.sub(r'\s+', ' ', gen.render_media(media)).strip() or 'all'


def dom_sheet(root, url):
    """the DOM sheet loaded from url, found by walking the @import rules"""
    if root.href == url:
        return root
    for r in root.cssRules:
        if r.type == r.IMPORT_RULE and r.hrefFound and r.styleSheet is not None:
            got = dom_sheet(r.styleSheet, url)
            if got is not None:
                return got
    return None


def _last_import(sheet):
    """index after the last charset / import rule of an abstract sheet"""
    i = 0
    for k, r in enumerate(sheet):
        if r[0] in ('charset', 'import'):
            i = k + 1
    return i


def edit_abstract(vfs, e):
    """the file system after the edit (the file system the edited DOM denotes)"""
    sheet = list(vfs[e['sheet']])
    op, i = e['op'], e.get('index')
    if op == 'media':
        r = sheet[i]
        sheet[i] = G.Import(r[1], e['media'], r[3])
    elif op == 'href':
        r = sheet[i]
        sheet[i] = G.Import(e['href'], r[2], r[3])
    elif op == 'insert-import':
        if e['way'] == 'add':
            i = _last_import(sheet)
        sheet.insert(i, G.Import(e['href'], e['media']))
    elif op == 'delete':
        del sheet[i]
    elif op == 'insert-rule':
        sheet.insert(len(sheet) if i is None else i, e['rule'])
    else:
        raise ValueError(op)
    out = dict(vfs)
    out[e['sheet']] = tuple(sheet)
    return out


def edit_dom(cssutils, root, vfs, e):
    """apply the edit to the parsed tree; -> description (python-like) of what was done"""
    import cssutils.css
    import cssutils.stylesheets
    ds = dom_sheet(root, e['sheet'])
    if ds is None:
        raise LookupError('no loaded sheet for %s' % e['sheet'])
    op, i, way = e['op'], e.get('index'), e.get('way')
    where = 'sheet(%r)' % e['sheet']
    if op in ('media', 'href', 'delete'):
        r = ds.cssRules[i]
        a = vfs[e['sheet']][i]
        if a[0] == 'import' and (r.type != r.IMPORT_RULE or r.href != a[1]):
            raise LookupError('rule %d of %s is %r, expected the @import of %r' % (i, e['sheet'], r.cssText, a[1]))
        where += '.cssRules[%d]' % i
    if op == 'media':
        text = _media_text(e['media'])
        if way == 'string':
            r.media = text
            return '%s.media = %r' % (where, text)
        if way == 'object':
            r.media = cssutils.stylesheets.MediaList(mediaText=text)
            return '%s.media = MediaList(mediaText=%r)' % (where, text)
        if way == 'inplace':
            r.media.mediaText = text
            return '%s.media.mediaText = %r' % (where, text)
        if way == 'csstext':
            t = gen.render_rule(G.Import(a[1], e['media'], a[3]))
            r.cssText = t
            return '%s.cssText = %r' % (where, t)
        if way == 'append':
            r.media.appendMedium(e['medium'])
            return '%s.media.appendMedium(%r)' % (where, e['medium'])
        if way == 'delete-medium':
            r.media.deleteMedium(e['medium'])
            return '%s.media.deleteMedium(%r)' % (where, e['medium'])
    elif op == 'href':
        if way == 'attr':
            r.href = e['href']
            return '%s.href = %r' % (where, e['href'])
        if way == 'csstext':
            t = gen.render_rule(G.Import(e['href'], a[2], a[3]))
            r.cssText = t
            return '%s.cssText = %r' % (where, t)
    elif op == 'insert-import':
        t = gen.render_rule(G.Import(e['href'], e['media']))
        if way == 'insertRule':
            ds.insertRule(t, i)
            return '%s.insertRule(%r, %d)' % (where, t, i)
        if way == 'insertRule-object':
            ds.insertRule(cssutils.css.CSSImportRule(href=e['href'], mediaText=_media_text(e['media'])), i)
            return '%s.insertRule(CSSImportRule(href=%r, mediaText=%r), %d)' % (where, e['href'], _media_text(e['media']), i)
        if way == 'add':
            ds.add(cssutils.css.CSSImportRule(href=e['href'], mediaText=_media_text(e['media'])))
            return '%s.add(CSSImportRule(href=%r, mediaText=%r))' % (where, e['href'], _media_text(e['media']))
    elif op == 'delete':
        ds.deleteRule(i)
        return '%s.deleteRule(%d)' % (e['sheet'], i)
    elif op == 'insert-rule':
        t = gen.render_rule(e['rule'])
        if way == 'insertRule':
            ds.insertRule(t, ds.cssRules.length if i is None else i)
            return '%s.insertRule(%r, %s)' % (where, t, 'end' if i is None else i)
        if way == 'add':
            ds.add(cssutils.css.CSSStyleRule(selectorText=gen.render_selector(e['rule'][1][0]), style=gen.render_items(e['rule'][2])))
            return '%s.add(CSSStyleRule(...%r))' % (where, t)
    raise ValueError((op, way))


def check_history(label, vfs0, edits):
    """parse the root of vfs0 (targets get loaded), apply the edits through the DOM, flatten with resolveImports; the oracle is expand() of the EDITED file system
    -> (evaluations, [(clause, detail, known)], [descriptions of the edits])"""
    cssutils = _quiet()
    files = render_vfs(vfs0)
    vfs1 = vfs0
    for e in edits:
        vfs1 = edit_abstract(vfs1, e)
    alts = expand(vfs1, ROOT)
    fails = []
    done = []

    def fail(clause, detail, fid=None):
        fails.append((clause, '%s | parse; %s; resolveImports | %s' % (label, '; '.join(done), detail), fid))

    f = Fetcher(files)
    try:
        sheet = cssutils.CSSParser(fetcher=f).parseString(files[ROOT], href=ROOT)
        v = vfs0
        try:
            for e in edits:
                done.append(edit_dom(cssutils, sheet, v, e))
                v = edit_abstract(v, e)
        except Exception as ex:  # noqa: BLE001
            done.append('<%s>' % e['op'])
            fail(CL_EDIT, '%s: %s' % (type(ex).__name__, str(ex)[:200]))
            return 1, fails, done
        # (the sheet as text describes the edited tree: a precondition of the comparison, reported under its own clause)
        flat = cssutils.resolveImports(sheet)
        for cl, d, fid in compare_flat(gen.project(flat, lenient=True), alts, ROOT):
            fail(cl, d, fid)
        if all(e['op'] == 'media' and e['way'] != 'csstext' for e in edits):
            # a pure media edit loads nothing: still one fetch per available target
            av, un = reachable(vfs0, ROOT)
            for u in sorted(set(f.log) | set(av)):
                c = f.log.count(u)
                if u in av and c != av.count(u):
                    fail(CL_FETCH, '%s fetched %d time(s), imported %d time(s)' % (u, c, av.count(u)))
                elif u in un and c > un.count(u):
                    fail(CL_FETCH, 'unavailable %s fetched %d time(s), imported %d time(s)' % (u, c, un.count(u)), 'C19-unavailable-target-fetched-again')
                elif u not in av and u not in un:
                    fail(CL_FETCH, '%s fetched %d time(s) but is not an @import target of a loaded sheet' % (u, c))
    except Exception as ex:  # noqa: BLE001
        fail(CL_RAISES, '%s: %s' % (type(ex).__name__, str(ex)[:200]))
    finally:
        cssutils.log.raiseExceptions = True
    return 1, fails, done


HIST_KINDS = ('style', 'fontface', 'namespace', None)


def _hist_tree(ka, m_a, m_c, m_b, kc='style'):
    """root m -> [a (in sub/) -> [c (in ../sib/)], b]; a spare sheet that nobody imports lies in sub2/ (relative to every sheet that may be retargeted)"""
    c = node('c', kc) if kc else None
    a = node('a', ka, [('sibling', m_c, c)]) if ka else None
    root = node('m', 'style', [('child', m_a, a), ('same', m_b, node('b', 'style2'))])
    vfs = build_vfs(root)
    spare = body('style', 'spare', BENIGN_URLS + (('FN', 2),))
    for u in list(vfs):
        vfs.setdefault(urljoin(u, SPARE), spare)
    return vfs


_MEMO = {}


def _memo(fn):
    """the enumerations are pure functions of (tier, seed): built once in the parent, inherited by the forked workers"""
    def wrapper(*args):
        key = (fn.__name__,) + args
        if key not in _MEMO:
            _MEMO[key] = fn(*args)
        return _MEMO[key]
    wrapper.__name__ = fn.__name__
    wrapper.__doc__ = fn.__doc__
    return wrapper


@_memo
def histories(tier):
    """[(label, vfs0, [edit])] - see the rule text in edited_trees()"""
    out = []
    A = urljoin(ROOT, 'sub/a.css')
    handheld = ((None, 'handheld', ()),)
    # (1) the media of one edge assigned: every media before x every media after x every way of assigning x target kinds x three edges
    for m0, m1 in itertools.product(MEDIA, repeat=2):
        for way in EDIT_MEDIA_WAYS:
            for ka in HIST_KINDS:
                out.append(('edit-media/root-edge-1/%s->%s/%s/%s' % (m0, m1, way, ka or 'missing'), _hist_tree(ka, m0, 'none', 'print'),
                            [{'sheet': ROOT, 'op': 'media', 'index': 0, 'media': MEDIA[m1], 'way': way}]))
            out.append(('edit-media/root-edge-2/%s->%s/%s' % (m0, m1, way), _hist_tree('style', 'screen', 'none', m0),
                        [{'sheet': ROOT, 'op': 'media', 'index': 1, 'media': MEDIA[m1], 'way': way}]))
            for kc in HIST_KINDS:
                nth = list(MEDIA).index(m0) + list(MEDIA).index(m1) + EDIT_MEDIA_WAYS.index(way) + (kc is None)
                for m_a in ('none', 'print'):
                    if tier == 'quick' and (kc in ('fontface', 'namespace') or (m_a == 'print') != (nth % 2 == 1)):
                        continue   # quick: style / missing target, the media of the outer edge alternating
                    out.append(('edit-media/nested-edge/%s->%s/%s/%s/outer-%s' % (m0, m1, way, kc or 'missing', m_a), _hist_tree('style', m_a, m0, 'none', kc),
                                [{'sheet': A, 'op': 'media', 'index': 0, 'media': MEDIA[m1], 'way': way}]))
    # (2) media lists edited medium by medium
    for m0 in ('screen', 'print', 'list', 'query'):
        for where, idx, tree in (('root-edge-1', 0, lambda m: _hist_tree('style', m, 'none', 'none')), ('nested-edge', 0, lambda m: _hist_tree('style', 'none', m, 'none'))):
            sh = ROOT if where.startswith('root') else A
            out.append(('edit-medium/%s/%s+handheld' % (where, m0), tree(m0), [{'sheet': sh, 'op': 'media', 'index': idx, 'media': MEDIA[m0] + handheld, 'way': 'append', 'medium': 'handheld'}]))
        out.append(('edit-medium/root-edge-1/%s+all' % m0, _hist_tree('style', m0, 'none', 'none'), [{'sheet': ROOT, 'op': 'media', 'index': 0, 'media': MEDIA['all'], 'way': 'append', 'medium': 'all'}]))
    for sh, tree in ((ROOT, _hist_tree('style', 'list', 'none', 'none')), (A, _hist_tree('style', 'none', 'list', 'none'))):
        out.append(('edit-medium/%s/list-tv' % ('root-edge-1' if sh == ROOT else 'nested-edge'), tree, [{'sheet': sh, 'op': 'media', 'index': 0, 'media': MEDIA['print'], 'way': 'delete-medium', 'medium': 'tv'}]))
    # (3) every edge edited in one history, each in another way (rotating)
    for k, (m0, m1) in enumerate(itertools.product(MEDIA, repeat=2)):
        names = list(MEDIA)
        m2 = names[(names.index(m1) + 1 + k // 6) % len(names)]
        for rot in range(len(EDIT_MEDIA_WAYS)):
            w = [EDIT_MEDIA_WAYS[(rot + j) % len(EDIT_MEDIA_WAYS)] for j in range(3)]
            out.append(('edit-media/all-edges/%s->%s,%s/%s' % (m0, m1, m2, '-'.join(w)), _hist_tree('style', m0, m0, m1),
                        [{'sheet': ROOT, 'op': 'media', 'index': 0, 'media': MEDIA[m1], 'way': w[0]},
                         {'sheet': A, 'op': 'media', 'index': 0, 'media': MEDIA[m2], 'way': w[1]},
                         {'sheet': ROOT, 'op': 'media', 'index': 1, 'media': MEDIA[m0], 'way': w[2]}]))
    # (4) an edge retargeted, inserted, deleted; the rules of an imported sheet edited
    for media in ('none', 'screen'):
        for way in ('attr', 'csstext'):
            for ka in ('style', None):
                for href in (SPARE, 'sub2/nothing.css', 'b.css'):
                    out.append(('edit-href/root-edge-1/%s/%s/%s->%s' % (media, way, ka or 'missing', href), _hist_tree(ka, media, 'none', 'none'),
                                [{'sheet': ROOT, 'op': 'href', 'index': 0, 'href': href, 'way': way}]))
            for href in (SPARE, 'sub2/nothing.css'):
                out.append(('edit-href/nested-edge/%s/%s->%s' % (media, way, href), _hist_tree('style', 'print', media, 'none'), [{'sheet': A, 'op': 'href', 'index': 0, 'href': href, 'way': way}]))
        for m_new in ('none', 'print', 'query'):
            for way in ('insertRule', 'insertRule-object', 'add'):
                for sh, n_imp in ((ROOT, 2), (A, 1)):
                    for i in ([0, n_imp] if way != 'add' else [None]):
                        for href in (SPARE, 'sub2/nothing.css'):
                            out.append(('insert-import/%s/%s/%s@%s/%s/%s' % ('root' if sh == ROOT else 'nested', media, way, i, m_new, href), _hist_tree('style', media, media, 'none'),
                                        [{'sheet': sh, 'op': 'insert-import', 'index': i, 'href': href, 'media': MEDIA[m_new], 'way': way}]))
        for sh, i in ((ROOT, 0), (ROOT, 1), (A, 0)):
            out.append(('delete-import/%s/%s[%d]' % (media, 'root' if sh == ROOT else 'nested', i), _hist_tree('style', media, media, media), [{'sheet': sh, 'op': 'delete', 'index': i}]))
        extra = G.Style([G.Sel(G.C(None, ('class', 'new')))], [G.Decl('background', fn_value(2, 'new'))])
        for way in ('insertRule', 'add'):
            out.append(('edit-imported-sheet/%s/%s' % (media, way), _hist_tree('style', media, 'none', 'none'), [{'sheet': A, 'op': 'insert-rule', 'index': None, 'rule': extra, 'way': way}]))
        out.append(('edit-imported-sheet/%s/deleteRule' % media, _hist_tree('style', media, 'none', 'none'), [{'sheet': A, 'op': 'delete', 'index': 1}]))
    return out


def _w_hist(args):
    tier, lo, hi = args
    res = {'n': 0, 'kinds': set(), 'fails': []}
    for label, vfs0, edits in histories(tier)[lo:hi]:
        n, fails, done = check_history(label, vfs0, edits)
        res['n'] += n
        res['kinds'].add(label)
        for cl, detail, fid in fails:
            res['fails'].append({'clause': cl, 'detail': detail, 'known': fid,
                                 'inputs': {'label': label, 'files': {u: gen.render(s) for u, s in vfs0.items()}, 'root': ROOT, 'edits': done}})
    return res


# ----------------------------------------------------------------------------------------------------------------------------- encodings

def _w_encodings(args):
    """C6: targets in several encodings; csscombine with several target encodings"""
    cssutils = _quiet()
    import cssutils.script
    import cssutils.util
    res = {'n': 0, 'kinds': set(), 'fails': []}
    text = 'é€'
    for src in ('utf-8', 'iso-8859-15', 'utf-16', 'utf-8-sig'):
        for declared in ('charset-rule', 'http', 'bom' if src in ('utf-16', 'utf-8-sig') else 'charset-rule'):
            for target in (None, 'utf-8', 'ascii', 'iso-8859-15', 'utf-16'):
                for minify in (True, False):
                    res['n'] += 1
                    res['kinds'].add((src, declared, target, minify))
                    a_rules = (G.Style([G.Sel(G.C(None, ('class', 'a')))], [G.Decl('content', G.V(('string', text))), G.Decl('background', G.V(_u('é.png')))]),)
                    pyenc = src
                    a_text = gen.render(a_rules)
                    if declared == 'charset-rule' and src not in ('utf-16', 'utf-8-sig'):
                        a_text = '@charset "%s";' % src + a_text
                    a_bytes = a_text.encode(pyenc)
                    files = {ROOT: gen.render((G.Import('sub/a.css'), G.Style([G.Sel(G.C('m'))], [G.Decl('content', G.V(('string', text)))]))).encode('utf-8'),
                             urljoin(ROOT, 'sub/a.css'): (src if declared == 'http' and src not in ('utf-8-sig',) else None, a_bytes)}
                    f = Fetcher(files)
                    old = cssutils.util._defaultFetcher
                    oldser = cssutils.ser
                    cssutils.util._defaultFetcher = f
                    label = 'encoding/%s/%s -> %s/%s' % (src, declared, target, 'min' if minify else 'normal')
                    try:
                        out = cssutils.script.csscombine(cssText=files[ROOT], href=ROOT, targetencoding=target, minify=minify)
                        dec = out.decode(target or 'utf-8')
                        dom = cssutils.CSSParser(fetcher=Fetcher({})).parseString(dec)
                        p = normalise(gen.project(dom, lenient=True), minify)
                        want = (('style', ((((None, (None, (('class', 'a'),)))),),), (('decl', 'content', ((None, ('string', text)),), False), ('decl', 'background', ((None, ('url', 'sub/é.png')),), False))),
                                ('style', ((((None, ((None, 'm'), ()))),),), (('decl', 'content', ((None, ('string', text)),), False),)))
                        # compare URL by resolution (percent-encoding of the non-ASCII name is an equivalent spelling)
                        got_urls = [canon_abs(urljoin(ROOT, u)) for u in leaves(p)]
                        if skeleton(p) != skeleton(want) or got_urls != [canon_abs(urljoin(ROOT, 'sub/é.png'))]:
                            res['fails'].append({'clause': CL_ENC, 'detail': '%s | output %r | %s' % (label, out[:200], gen.diff(p, want)), 'known': None, 'inputs': {'label': label}})
                    except Exception as e:  # noqa: BLE001
                        res['fails'].append({'clause': CL_ENC, 'detail': '%s | %s: %s' % (label, type(e).__name__, str(e)[:200]), 'known': None, 'inputs': {'label': label}})
                    finally:
                        cssutils.util._defaultFetcher = old
                        cssutils.setSerializer(oldser)
                        cssutils.ser.prefs.useDefaults()
                        cssutils.log.raiseExceptions = True
    return res


# ------------------------------------------------------------------------------------------------------------------------------- drivers

def _pool_run(ctx, worker, tasks):
    jobs = max(1, ctx.jobs)
    if jobs > 1 and len(tasks) > 1:
        with multiprocessing.get_context('fork').Pool(jobs) as pool:
            return pool.map(worker, tasks, chunksize=1)
    return [worker(t) for t in tasks]


def _chunks(n, ctx, per=4):
    step = max(1, -(-n // (max(1, ctx.jobs) * per)))
    return [(lo, min(n, lo + step)) for lo in range(0, n, step)]


def _report(ctx, results, name, rule, bound, samples, t0, exhaustive=False):
    evals = sum(r['n'] for r in results)
    kinds = set()
    hits = {}
    shown = {}
    for r in results:
        kinds.update(r['kinds'])
        for f in r['fails']:
            if f['known']:
                h = hits.setdefault(f['known'], {'count': 0, 'rec': f})
                h['count'] += 1
                if len(f['detail']) < len(h['rec']['detail']):
                    h['rec'] = f
                continue
            key = (f['clause'], f.get('cls') or re.sub(r'\d+', '#', f['detail'].split('|')[-1])[:80])
            s = shown.setdefault(key, {'count': 0, 'rec': f})
            s['count'] += 1
            if len(f['detail']) < len(s['rec']['detail']):
                s['rec'] = f
    items = sorted(shown.items(), key=lambda kv: (len(kv[1]['rec']['detail']), str(kv[0])))
    for (clause, _), s in items[:60]:
        ctx.violation(clause, '%s (%d input(s) fail like this)' % (s['rec']['detail'][:900], s['count']), True, s['rec']['inputs'])
    if len(items) > 60:
        ctx.violation('bounded: further failing shapes', '%d more shapes fail (%d inputs); first: %s' % (len(items) - 60, sum(s['count'] for _, s in items[60:]), items[60][1]['rec']['detail'][:600]), True,
                      items[60][1]['rec']['inputs'])
    for fid, h in sorted(hits.items()):
        ctx.violation('bounded: recorded finding %s' % fid, '%s (%d failures of the class in this run)' % (h['rec']['detail'][:900], h['count']), True, h['rec']['inputs'], known_id=fid)
    ctx.bounded.append({'name': name, 'evaluations': evals, 'distinct_nontrivial': len(kinds), 'rule': rule, 'samples': samples, 'bound': bound, 'exhaustive': exhaustive,
                        'wall_s': round(time.time() - t0, 1), 'known_class_failures': {k: v['count'] for k, v in sorted(hits.items())}})


def urls_and_replacement(ctx):
    """part A"""
    t0 = time.time()
    sheets = url_sheets(ctx.tier, ctx.seed)
    tasks = [(ctx.tier, ctx.seed, lo, hi) for lo, hi in _chunks(len(sheets), ctx)]
    results = _pool_run(ctx, _w_urls, tasks)
    _report(ctx, results, 'getUrls / replaceUrls on generated sheets',
            'sheets with url() values in 8 contexts (style rule at top level / in @media / in nested @media, @page, margin box, @page + margin boxes, @font-face, @page in @media) alone and in every ordered '
            'pair, 6 value shapes, two declarations of the same property per block, 0 / 1 / 2 @import rules; %d URL forms as url() and as @import '
            'target (among them %d with a dot-like last segment - a name beginning with one / two dots, three dots, a name ending in a dot, the dot segments - behind no prefix / a directory / ../ / a dot '
            'directory, as written / with trailing slash / with query and fragment); every sheet of bounded/gen.py holding a URL; per sheet: getUrls, identity replacer, recording+tagging replacer, ignoreImportRules=True, the CSSStyleDeclaration overload; '
            'oracle = the URL list of the abstract sheet (gen.urls order: imports, then document order); distinct = sheet shape; the 6 value shapes: one URL, two URLs, URLs inside function arguments, mixed, '
            'url() two function levels deep (first argument of the inner function) next to URLs of levels 1 and 0, url() at levels 0, 1, 2, 3 in one value; plus the function NAME as an axis: for each of the %d names '
            'the value parser reads by a production of its own (the IE filter functions %s) 5 shapes - url() as its only argument, two url() arguments, the function inside an ordinary one, an ordinary one inside it, '
            'inside another special one, each next to a URL outside - in each of the 8 contexts (progid: values are not read at all by the unchanged tree and hold no URL)' % (len(URL_FORMS) + len(dot_forms()), len(dot_forms()), len(SPECIAL_FUNCTIONS), ', '.join(SPECIAL_FUNCTIONS)),
            '%d sheets (%s)' % (len(sheets), 'pairs of contexts thinned to every 2nd shape / 3rd import variant' if ctx.tier == 'quick' else 'all pairs of contexts x shapes x import variants'),
            [{'label': sheets[5][0], 'text': gen.render(sheets[5][1])}], t0)


def replacer(ctx):
    """part B"""
    t0 = time.time()
    bases, urls = replacer_cases(ctx.tier)
    tasks = [(ctx.tier, lo, hi) for lo, hi in _chunks(len(bases), ctx, per=2)]
    results = _pool_run(ctx, _w_replacer, tasks)
    _report(ctx, results, 'cssutils.Replacer over all pairs of paths',
            'import hrefs: every directory path of <= 3 segments over {x, y, .., .} + b.css, root-relative, absolute, scheme-relative, with query, with fragment (%d); URLs: every path of <= 3 segments over '
            '{i, j, .., .} + k.png and the special forms (%d): query, fragment, fragment only, empty, absolute, scheme-relative, root-relative, data:, mailto:, space, %%20, non-ASCII, trailing slash, '
            'dot segments; plus the DOT-LIKE NAMES %s (ordinary names that begin with one / two dots, consist of three dots, end in a dot) at every position: import hrefs with directories of <= 2 segments over '
            '{x, .., .} + these names and the file names b.css / .b.css / ..b.css / b. (%s), URLs = every path of <= 3 segments over {i, .., .} + these names as written and with a trailing slash, those of <= 2 segments '
            'also with query + fragment; combined sheet at %s; oracle = urllib.parse.urljoin; distinct = (shape of the href, shape of the URL), a shape tells name / dot-leading name / dot-trailing name / . / .. per segment'
            % (len(bases), len(urls), ', '.join(DOT_NAMES), 'all combinations' if ctx.tier == 'thorough' else 'the dot-like file names below <= 1 directory', DEEP),
            '%d x %d pairs' % (len(bases), len(urls)), [{'base': bases[7], 'url': urls[9]}], t0, exhaustive=True)


def flattening(ctx):
    """part C"""
    t0 = time.time()
    specs = all_vfs(ctx.tier, ctx.seed)
    tasks = [(ctx.tier, ctx.seed, lo, hi) for lo, hi in _chunks(len(specs), ctx)]
    results = _pool_run(ctx, _w_vfs, tasks)
    counts = {}
    for label, _ in specs:
        counts[label.split('/')[0]] = counts.get(label.split('/')[0], 0) + 1
    _report(ctx, results, 'resolveImports / csscombine over virtual file systems',
            'virtual file systems {URL: abstract sheet} served by a counting fetcher, root at %s: (single) one @import x %d target locations (same / ./ / child / grandchild / parent / sibling / '
            'grandparent directory, root-relative, scheme-relative, absolute, other host, scheme-relative other host, a dot directory, a dot file, a directory named ... below the parent) x %d media (none, all, one type, a list, a media query) x %d target bodies + missing target; '
            '(chain) import chains of depth 2-%d with every edge in one of %d locations x media on/off (%s); (branch) root -> [A -> [C], B] with unwrappable bodies '
            '(@font-face, @namespace, @media) and missing targets at every place x media on every edge; (urlform) every URL form in an imported sheet, the %d URLs with a dot-like last segment (.h.png, ..u.png, ..., k., ., .. behind no prefix / i/ / ../ / .d/, as written / with trailing slash / with query and fragment; one imported sheet per prefix), '
            'url() at function depth 1, 2, 3 (one URL per level), and url() among the arguments of each of the %d special function names (IE filter functions: name(url, f(url)) url per name, one value three levels deep), x every import location; every sheet of a chain holds url() values 1 and 2 function levels deep, one inside mask() and two URLs with a dot-like last segment; (cycle) self import, 2- and 3-cycles, '
            'a diamond; each run through resolveImports, csscombine(url=, minify=True) and csscombine(cssText=, href=, minify=False); oracle = expand() of this module (urljoin for every URL); '
            'distinct = file system' % (ROOT, len(LOCS), len(MEDIA), len(BODIES), 3 if ctx.tier == 'quick' else 4, len(CHAIN_LOCS), 'depth 2 complete, depth 3: pairwise + seeded sample' if ctx.tier == 'quick' else 'depth 2 over all %d locations x %d media (pairs with a dot-name location: media on / off), depths 3 and 4 complete' % (len(LOCS), len(MEDIA)), len(dot_forms()), len(SPECIAL_FUNCTIONS)),
            '%d file systems: %s' % (len(specs), ', '.join('%s %d' % kv for kv in sorted(counts.items()))),
            [{'label': specs[100][0], 'files': {u: gen.render(s) for u, s in _build(specs[100][1]).items()}}], t0)


def edited_trees(ctx):
    """part D"""
    t0 = time.time()
    hs = histories(ctx.tier)
    tasks = [(ctx.tier, lo, hi) for lo, hi in _chunks(len(hs), ctx)]
    results = _pool_run(ctx, _w_hist, tasks)
    counts = {}
    for label, _, _ in hs:
        counts[label.split('/')[0]] = counts.get(label.split('/')[0], 0) + 1
    _report(ctx, results, 'resolveImports on import trees edited through the DOM between parsing and flattening',
            'histories parse (targets get loaded) / edit / resolveImports over the tree root -> [a in sub/ -> [c in ../sib/], b] with a spare sheet in sub2/: (edit-media) the media of ONE edge - first or second '
            'edge of the root, the edge inside the imported sheet - set from each of the %d media to each of them in %d ways (rule.media = text, rule.media = MediaList, rule.media.mediaText = text, rule.cssText = text) '
            'x target body (style rules, @font-face, @namespace, missing); (edit-medium) appendMedium / deleteMedium on the list of an edge; (all-edges) all three edges edited in one history, the ways rotating; '
            '(edit-href) an edge retargeted to a spare sheet of another directory / a missing one / an already imported one by rule.href and by rule.cssText; (insert-import) an @import inserted by '
            'insertRule(text), insertRule(CSSImportRule) and add(CSSImportRule) first / last, with and without media, into the root and into an imported sheet; (delete-import) deleteRule of each edge; '
            '(edit-imported-sheet) a rule with url() values added to / deleted from an imported sheet; oracle = expand() of the file system with the same edit applied to the abstract sheet (the tree the edited '
            'DOM denotes), URLs compared by urljoin; for pure media edits also the fetch log (an edit of the media loads nothing); distinct = history' % (len(MEDIA), len(EDIT_MEDIA_WAYS)),
            '%d histories of 1-3 edits (%s): %s' % (len(hs), 'inner edge: style / missing target only, the media of the outer edge alternating' if ctx.tier == 'quick' else 'inner edge: all 4 target bodies x outer edge with / without media',
                                                 ', '.join('%s %d' % kv for kv in sorted(counts.items()))),
            [{'label': hs[1][0], 'edits': [{k: v for k, v in e.items() if k in ('sheet', 'op', 'index', 'way')} for e in hs[1][2]]}], t0)


def encodings(ctx):
    t0 = time.time()
    results = [_w_encodings(None)]
    _report(ctx, results, 'csscombine with targets in several encodings',
            'an imported sheet holding non-ASCII text and a non-ASCII URL, encoded as utf-8 / iso-8859-15 / utf-16 / utf-8 with BOM and announced by @charset, by the fetcher (HTTP) or by its BOM; '
            'csscombine with targetencoding None / utf-8 / ascii / iso-8859-15 / utf-16, minified and normal; the output decoded with the target encoding parses to the same text', 'all combinations',
            [], t0, exhaustive=True)


# ---------------------------------------------------------------------------------------------------- witnesses of the recorded findings

def _flat_fails(files_text, apis=('resolve',)):
    """run check_vfs on a hand-written file system given as {url: abstract sheet}"""
    n, fails = check_vfs('witness', files_text, apis)
    return fails


def _st(cls, *urls):
    return G.Style([G.Sel(G.C(None, ('class', cls)))], [G.Decl('x%d' % i, G.V(_u(u))) for i, u in enumerate(urls)] or [G.Decl('top', G.V(('number', '0')))])


def _wit_vfs(a_rules, href='sub/a.css', media=(), root_extra=()):
    return {ROOT: tuple(root_extra) + (G.Import(href, media), _st('m')), urljoin(ROOT, href): tuple(a_rules)}


WITNESSES = {
    'C19-replacer-drops-query-fragment': lambda: _wit_vfs([_st('a', 'i.png?v=1#f')]),
    'C19-replacer-double-encodes-percent': lambda: _wit_vfs([_st('a', 'a%20b.png')]),
    'C19-replacer-drops-trailing-slash': lambda: _wit_vfs([_st('a', 'i/')]),
    'C19-replacer-empty-path': lambda: _wit_vfs([_st('a', '#f')]),
    'C19-foreign-host-import-urls-lose-host': lambda: _wit_vfs([_st('a', 'i.png')], 'http://other/o/a.css'),
    'C19-url-in-function-ignored': lambda: _wit_vfs([G.Style([G.Sel(G.C('a'))], [G.Decl('x', G.V(('function', 'f', G.V(_u('in.png')))))])]),
    'C19-kept-nested-import-not-rebased': lambda: _wit_vfs([G.Import('gone.css'), _st('a')]),
    'C19-kept-import-hoisted': lambda: {ROOT: (G.Import('a.css'), G.Import('gone.css'), _st('m')), urljoin(ROOT, 'a.css'): (_st('a'),)},
    'C19-kept-import-inside-media-import-raises': lambda: _wit_vfs([G.Import('gone.css'), _st('a')], 'a.css', MEDIA['screen']),
    'C19-unavailable-target-fetched-again': lambda: {ROOT: (G.Import('gone.css'), _st('m'))},
}


def witnesses(ctx):
    n = 0
    for fid, make in WITNESSES.items():
        fails = _flat_fails(make())
        n += 1
        ctx.known_finding(fid, any(k == fid for _, _, k in fails))
        for cl, d, k in fails:
            if k is None:
                ctx.violation('bounded: the witness of a recorded finding fails only through recorded findings', '%s: %s' % (fid, d[:600]), True, {'witness': fid})
    # part A witness
    sh = (G.Page((None, None), [G.Decl('background', G.V(_u('p.png')))], [G.Margin('@top-left', [G.Decl('background', G.V(_u('m.png')))])]),)
    _, fails = check_urls_sheet('witness', sh)
    n += 1
    ctx.known_finding('C19-geturls-margin-box-before-page', any(k == 'C19-geturls-margin-box-before-page' for _, _, k in fails))
    ctx.bounded.append({'name': 'witnesses of recorded findings', 'evaluations': n, 'distinct_nontrivial': n, 'rule': 'one minimal witness per recorded finding of known/C19.json', 'samples': [],
                        'bound': '%d witnesses' % n, 'exhaustive': True})
