"""C16 bounded stand-in: selector specificity, structure and list semantics on the real Selector / SelectorList.

Selectors are generated from an abstract form, so the expected specificity and the expected sequence of simple
selectors and combinators are known by construction (the oracle is the property statement + the CSS3 selector
grammar, never the state machine in cssutils/css/selector.py).  Every abstract selector is rendered in several
spellings (white space, comments, letter case of ':not', of pseudo names and of the an+b argument, quote style, and CSS
escapes: a backslash before a letter that is no hex digit ("simple" escape, ':n\\ot(') or the code point in hex (':\\6e ot(',
':no\\000074(') inside ':not' and pseudo-class / pseudo-element / function names - an escaped letter is that letter; type, class,
id and attribute NAMES are written with hex escapes only; arguments (an+b, odd / even, strings) are never escaped).

abstract selector  = (compound, comb, compound, comb, compound ...)        comb in ' ', '>', '+', '~'
compound           = (head, (simple, ...))      head = None | ('t', prefix, name) | ('u', prefix)
simple             = ('id', n) | ('cls', n) | ('attr', prefix, n, op, value, quoted) | ('pc', n)
                     | ('pcf', n, arg) | ('pe', n, colons) | ('pef', n, ident-arg) | ('not', head-or-simple)
                     ('pef' = functional pseudo-element, two colons: ::part(label); with one colon a function is a pseudo-class)
arg                = ('anb', a_text, sign, b_digits) | ('int', text) | ('kw', 'odd'|'even') | ('ident', text) | ('str', text)
prefix             = None (none) | '' ('|x') | '*' | 'p' (declared as namespace 'u')
"""
import itertools
import logging
import multiprocessing
import re
import xml.dom

NS = {'p': 'u'}
ANY = -1  # cssutils._ANYNS, asserted in _quiet()
COMBS = (' ', '>', '+', '~')
ATTR_OPS = (None, '=', '~=', '|=', '^=', '$=', '*=')

# The statement: (0, ID selectors, class and attribute selectors, type selectors and pseudo-elements).  Pseudo-classes are
# not counted (test_selector pins 'a:hover' -> (0, 0, 0, 1)); the argument of :not() is counted like any other simple selector.


def _quiet():
    import cssutils
    cssutils.log.setLevel(logging.FATAL)
    cssutils.log.raiseExceptions = True
    cssutils.ser.prefs.useDefaults()
    assert cssutils._ANYNS == ANY
    return cssutils


# ----------------------------------------------------------------------------- expectation by construction

def _uri(prefix, for_attr=False):
    if prefix is None:
        return None
    if prefix == '':
        return None if for_attr else ''
    if prefix == '*':
        return ANY
    return NS[prefix]


def anb_value(arg):
    kind = arg[0]
    if kind == 'kw':
        return (2, 1) if arg[1] == 'odd' else (2, 0)
    if kind == 'int':
        return (0, int(arg[1]))
    if kind == 'anb':
        _, a_text, sign, b_digits = arg
        if a_text in ('', '+'):
            a = 1
        elif a_text == '-':
            a = -1
        else:
            a = int(a_text)
        b = 0 if sign is None else int(sign + b_digits)
        return (a, b)
    return ('ident', arg[1])


def expect_simple(s):
    """(projection, (b, c, d), pseudo-classes)"""
    k = s[0]
    if k == 't':
        return ('type', _uri(s[1]), s[2]), (0, 0, 1), 0
    if k == 'u':
        return ('universal', _uri(s[1])), (0, 0, 0), 0
    if k == 'id':
        return ('id', s[1]), (1, 0, 0), 0
    if k == 'cls':
        return ('class', s[1]), (0, 1, 0), 0
    if k == 'attr':
        _, prefix, name, op, val, _quoted = s
        return ('attr', _uri(prefix, True), name, op, val if op else None), (0, 1, 0), 0
    if k == 'pc':
        return ('pc', s[1]), (0, 0, 0), 1
    if k == 'pcf':
        return ('pcf', s[1], anb_value(s[2])), (0, 0, 0), 1
    if k == 'pe':
        return ('pe', s[1], s[2]), (0, 0, 1), 0
    if k == 'pef':
        return ('pef', s[1], ('ident', s[2])), (0, 0, 1), 0
    if k == 'not':
        p, sp, _n = expect_simple(s[1])
        return ('not', p), sp, 0
    raise ValueError(s)


def expect(sel):
    """(projection list, specificity by the statement)"""
    proj = []
    b = c = d = 0
    for i, part in enumerate(sel):
        if i % 2:
            proj.append(('comb', part))
            continue
        head, simples = part
        for s in ((head,) if head else ()) + tuple(simples):
            p, (b1, c1, d1), _n = expect_simple(s)
            proj.append(p)
            b += b1
            c += c1
            d += d1
    return proj, (0, b, c, d)


# ----------------------------------------------------------------------------- rendering

class Sigma:
    """a spelling: fillers for the three kinds of gap, letter case of the case-insensitive parts, quote style"""

    def __init__(self, name, ws, cm, desc, case='lower', notcase='lower', quote='"', esc=None):
        self.name, self.ws, self.cm, self.desc, self.case, self.notcase, self.quote, self.esc = name, ws, cm, desc, case, notcase, quote, esc

    def with_notcase(self, nc):
        return Sigma(self.name + '/not-' + nc, self.ws, self.cm, self.desc, self.case, nc, self.quote, self.esc)


def _cased(text, how):
    if how == 'upper':
        return text.upper()
    if how == 'mixed':
        return ''.join(ch.upper() if i % 2 == 0 else ch.lower() for i, ch in enumerate(text))
    return text


HEXDIGITS = '0123456789abcdefABCDEF'


def _esc_kw(word, how, func=False):
    """a case-insensitive word (not, pseudo-class / pseudo-element / function names) with ONE letter written as a CSS escape:
    simple-first / simple-last: backslash before the first / last letter that is no hex digit (CSS 2.1 4.1.3: the character itself);
    hex-first: the first letter as its code point in hex, closed by one space; hex6-last: the last letter as six hex digits, closed by one
    space (the space belongs to the escape) unless '(' follows directly (func)"""
    if not how:
        return word
    if how.startswith('simple'):
        idx = [i for i, ch in enumerate(word) if ch.isalpha() and ch not in HEXDIGITS]
        if not idx:
            return word
        i = idx[0] if how == 'simple-first' else idx[-1]
        return word[:i] + '\\' + word[i:]
    idx = [i for i, ch in enumerate(word) if ch.isalpha()]
    if how == 'hex-first':
        i = idx[0]
        return word[:i] + '\\%x ' % ord(word[i]) + word[i + 1:]
    if how == 'hex6-last':
        i = idx[-1]
        return word[:i] + '\\%06x' % ord(word[i]) + ('' if func and i == len(word) - 1 else ' ') + word[i + 1:]
    raise ValueError(how)


def _esc_name(name, how):
    """a case-SENSITIVE name (type, class, id, attribute) in an escaping spelling: its first (hex-first, short form) / last (hex6-last, six
    digits) letter as a hex escape closed by one space - the tokenizer resolves these, so the name held is the plain one; simple escapes
    in names are outside the bound"""
    if how not in ('hex-first', 'hex6-last'):
        return name
    idx = [i for i, ch in enumerate(name) if ch.isalpha()]
    if not idx:
        return name
    i = idx[0] if how == 'hex-first' else idx[-1]
    return name[:i] + ('\\%x ' if how == 'hex-first' else '\\%06x ') % ord(name[i]) + name[i + 1:]


SIGMAS = [
    Sigma('minimal', [''], [''], [' ']),
    Sigma('spaced', [' '], [''], ['  '], quote="'"),
    Sigma('exotic-ws', ['\t', '\n', '\r\n', '\f', ' \t'], [''], ['\n', '\t', '\r\n']),
    Sigma('comments', ['/*c*/'], ['/*c*/'], [' /*c*/ ', '/*c*/ ', ' /*c*/']),
    Sigma('ws-then-comment', [' /*c*/'], ['/**/'], [' ', ' /*c*//*d*/ ']),
    Sigma('upper', [''], [''], [' '], case='upper', notcase='upper'),
    Sigma('mixed-spaced', [' '], [''], [' '], case='mixed', notcase='mixed', quote="'"),
    Sigma('upper-comments', ['/*c*/'], ['/*c*/'], [' /*c*/ '], case='upper', notcase='lower'),
    # white space after a comment inside parentheses / brackets
    Sigma('comment-then-ws', ['/*c*/ '], [''], [' ']),
    # CSS escapes inside the case-insensitive words (and, in hex form, inside names)
    Sigma('esc-simple-first', [''], [''], [' '], esc='simple-first'),
    Sigma('esc-simple-last-upper', [' '], [''], [' '], case='upper', notcase='upper', esc='simple-last'),
    Sigma('esc-hex-first', [''], [''], [' '], esc='hex-first'),
    Sigma('esc-hex6-last-mixed', [''], ['/*c*/'], ['  '], case='mixed', notcase='mixed', esc='hex6-last', quote="'"),
]
SIGMA_BY_NAME = {s.name: s for s in SIGMAS}
ESC_BOUND = ('CSS escapes: 4 of the spellings write ONE letter of every case-insensitive word (not, pseudo-class, pseudo-element and function names) as an escape - backslash before its first / last '
             'letter that is no hex digit, short hex escape + space for its first letter, six-digit hex escape for its last letter (combined with upper / mixed case) - and, in the two hex spellings, one letter of '
             'every type, class, id and attribute name; simple escapes in names, escapes in arguments (an+b, odd / even, strings, attribute values) and in namespace prefixes are outside the bound')
ATTACH_PLAIN = ('minimal', 'comments', 'upper', 'exotic-ws')  # spellings that are also attached to a sheet (single compounds)
ATTACH_SIGMAS = ATTACH_PLAIN + ('esc-simple-first',)              # ... for selectors of two compounds


def render(sel, sg):
    """text of the abstract selector in spelling sg"""
    out = []
    counters = {'ws': 0, 'cm': 0, 'desc': 0}

    def gap(kind):
        lst = getattr(sg, kind)
        v = lst[counters[kind] % len(lst)]
        counters[kind] += 1
        out.append(v)

    def kw(word, how, func=False):
        return _esc_kw(_cased(word, how), sg.esc, func)

    def head_text(h):
        pre = '' if h[1] is None else h[1] + '|'
        return pre + (_esc_name(h[2], sg.esc) if h[0] == 't' else '*')

    def simple(s):
        k = s[0]
        if k in ('t', 'u'):
            out.append(head_text(s))
        elif k == 'id':
            out.append('#' + _esc_name(s[1], sg.esc))
        elif k == 'cls':
            out.append('.' + _esc_name(s[1], sg.esc))
        elif k == 'attr':
            _, prefix, name, op, val, quoted = s
            out.append('[')
            gap('ws')
            out.append(('' if prefix is None else prefix + '|') + _esc_name(name, sg.esc))
            gap('ws')
            if op:
                out.append(op)
                gap('ws')
                out.append(sg.quote + val + sg.quote if quoted else val)
                gap('ws')
            out.append(']')
        elif k == 'pc':
            out.append(':' + kw(s[1], sg.case))
        elif k == 'pe':
            out.append(':' * s[2] + kw(s[1], sg.case))
        elif k == 'pef':
            out.append('::' + kw(s[1], sg.case, True) + '(')
            gap('ws')
            out.append(s[2])
            gap('ws')
            out.append(')')
        elif k == 'pcf':
            out.append(':' + kw(s[1], sg.case, True) + '(')
            gap('ws')
            arg = s[2]
            if arg[0] == 'anb':
                _, a_text, sign, b_digits = arg
                out.append(a_text + _cased('n', sg.case))
                if sign is not None:
                    gap('ws')
                    out.append(sign)
                    gap('ws')
                    out.append(b_digits)
            elif arg[0] == 'kw':
                out.append(_cased(arg[1], sg.case))
            elif arg[0] == 'str':
                out.append(sg.quote + arg[1] + sg.quote)
            else:
                out.append(arg[1])
            gap('ws')
            out.append(')')
        elif k == 'not':
            out.append(':' + kw('not', sg.notcase, True) + '(')
            gap('ws')
            simple(s[1])
            gap('ws')
            out.append(')')
        else:
            raise ValueError(s)

    gap('ws')
    for i, part in enumerate(sel):
        if i % 2:
            if part == ' ':
                gap('desc')
            else:
                gap('ws')
                out.append(part)
                gap('ws')
            continue
        head, simples = part
        first = True
        for s in ((head,) if head else ()) + tuple(simples):
            if not first:
                gap('cm')
            first = False
            simple(s)
    gap('ws')
    return ''.join(out)


def has_kind(sel, pred):
    for i, part in enumerate(sel):
        if i % 2:
            continue
        head, simples = part
        for s in ((head,) if head else ()) + tuple(simples):
            if pred(s) or (s[0] == 'not' and pred(s[1])):
                return True
    return False


# ----------------------------------------------------------------------------- projection of the parsed selector

COMB_TYPES = {'descendant': ' ', 'child': '>', 'adjacent-sibling': '+', 'following-sibling': '~'}
ATT_COMB = {'equals': '=', 'includes': '~=', 'dashmatch': '|=', 'prefixmatch': '^=', 'suffixmatch': '$=', 'substringmatch': '*='}
NTH_STRICT = re.compile(r'^[ \t\r\n\f]*(?:([+-]?)([0-9]*)n(?:[ \t\r\n\f]*([+-])[ \t\r\n\f]*([0-9]+))?|([+-]?[0-9]+)|(odd)|(even))[ \t\r\n\f]*$', re.I)


def nth_parse(text):
    """(a, b) of a CSS3 Selectors 6.6.5.2 'nth' argument; callers pass it with white space removed"""
    m = NTH_STRICT.match(text)
    if not m:
        return None
    if m.group(6):
        return (2, 1)
    if m.group(7):
        return (2, 0)
    if m.group(5) is not None:
        return (0, int(m.group(5)))
    a = int((m.group(1) or '') + (m.group(2) or '1'))
    b = int(m.group(3) + m.group(4)) if m.group(3) else 0
    return (a, b)


def project(selector):
    """sequence of simple selectors and combinators held by a parsed cssutils Selector (comments dropped; a run of
    combinator items separated only by comments is ONE combinator: the explicit one if there is exactly one, else descendant)"""
    items = [(it.type, it.value) for it in selector.seq]
    out = []
    i = 0
    n = len(items)

    def skip_comments(j):
        while j < n and items[j][0] == 'COMMENT':
            j += 1
        return j

    def name_of(val):
        if isinstance(val, tuple):
            return val
        return (None, val)

    def simple(j):
        typ, val = items[j]
        if typ in ('type-selector', 'negation-type-selector'):
            ns, nm = name_of(val)
            return ('type', ns, nm), j + 1
        if typ == 'universal':
            ns, nm = name_of(val)
            return ('universal', ns), j + 1
        if typ == 'id':
            return ('id', val[1:]), j + 1
        if typ == 'class':
            return ('class', val[1:]), j + 1
        if typ == 'attribute-start':
            j = skip_comments(j + 1)
            if j >= n or items[j][0] != 'attribute-selector':
                return ('?attr',), j
            ns, nm = name_of(items[j][1])
            j = skip_comments(j + 1)
            op = value = None
            if j < n and items[j][0] in ATT_COMB:
                op = ATT_COMB[items[j][0]]
                j = skip_comments(j + 1)
                if j < n and items[j][0] in ('STRING', 'attribute-value'):
                    value = items[j][1]
                    j = skip_comments(j + 1)
                else:
                    return ('?attr-value',), j
            if j < n and items[j][0] == 'attribute-end':
                return ('attr', ns, nm, op, value), j + 1
            return ('?attr-end',), j
        if typ == 'pseudo-element':
            colons = len(val) - len(val.lstrip(':'))
            if val.endswith('('):
                if colons != 2:
                    return ('?pe-function', val), j + 1
                name = val[2:-1]
                j += 1
                arg = []
                while j < n and items[j][0] != 'function-end':
                    if items[j][0] != 'COMMENT':
                        arg.append(items[j][1] if isinstance(items[j][1], str) else '?')
                    j += 1
                if j >= n:
                    return ('?pef-open', name), j
                return ('pef', name, ('ident', ''.join(arg).strip())), j + 1
            return ('pe', val.lstrip(':'), colons), j + 1
        if typ == 'pseudo-class':
            if not val.endswith('('):
                return ('pc', val[1:]), j + 1
            name = val[1:-1]
            j += 1
            arg = []
            while j < n and items[j][0] != 'function-end':
                if items[j][0] != 'COMMENT':
                    arg.append(items[j][1] if isinstance(items[j][1], str) else '?')
                j += 1
            if j >= n:
                return ('?pcf-open', name), j
            text = ''.join(arg)
            if name.startswith('nth-'):
                v = nth_parse(re.sub(r'[ \t\r\n\f]+', '', text))
                return ('pcf', name, v if v is not None else ('?nth', text)), j + 1
            return ('pcf', name, ('ident', text.strip())), j + 1
        if typ == 'negation-start':
            j = skip_comments(j + 1)
            if j >= n:
                return ('?not-open',), j
            inner, j = simple(j)
            j = skip_comments(j)
            if j < n and items[j][0] == 'negation-end':
                return ('not', inner), j + 1
            return ('?not-end', inner), j
        return ('?', typ, val if isinstance(val, (str, tuple)) else repr(val)), j + 1

    while i < n:
        typ, val = items[i]
        if typ == 'COMMENT':
            i += 1
            continue
        if typ in COMB_TYPES:
            run = []
            while i < n and (items[i][0] in COMB_TYPES or items[i][0] == 'COMMENT'):
                if items[i][0] in COMB_TYPES:
                    run.append(COMB_TYPES[items[i][0]])
                i += 1
            explicit = [c for c in run if c != ' ']
            if len(explicit) > 1:
                out.append(('?comb', tuple(run)))
            else:
                out.append(('comb', explicit[0] if explicit else ' '))
            continue
        p, i = simple(i)
        out.append(p)
    # white space before a trailing comment is held as a 'descendant' item; it joins nothing, so it is not a combinator
    if out and out[-1] == ('comb', ' '):
        out.pop()
    return out


def nth_args_of_text(text):
    """[(name, argument text)] of the nth-* functional pseudo-classes in a serialised selector (comments removed)"""
    text = re.sub(r'/\*.*?\*/', '', text, flags=re.S)
    return [(m.group(1).lower(), m.group(2)) for m in re.finditer(r':(nth-[A-Za-z-]+)\(([^)]*)\)', text)]


def anb_chars(arg):
    """the non-whitespace characters of an an+b argument as generated, lower case"""
    if arg[0] == 'anb':
        return (arg[1] + 'n' + ((arg[2] + arg[3]) if arg[2] is not None else '')).lower()
    return arg[1].lower()


def expected_nth(sel):
    out = []
    for i, part in enumerate(sel):
        if i % 2:
            continue
        head, simples = part
        for s in simples:
            if s[0] == 'not':
                s = s[1]
            if s[0] == 'pcf' and s[1].startswith('nth-'):
                out.append((s[1], anb_chars(s[2])))
    return out


# ----------------------------------------------------------------------------- examination of one spelled selector

def parse_selector(text):
    """('ok', Selector) | ('rejected', message) | ('crash', message)"""
    from cssutils.css import Selector
    try:
        s = Selector((text, dict(NS)))
    except xml.dom.DOMException as e:
        return 'rejected', f'{type(e).__name__}: {e}'
    except Exception as e:  # noqa: BLE001 - a non-DOM exception is a crash of the code under test
        return 'crash', f'{type(e).__name__}: {e}'
    if not s.wellformed:
        return 'rejected', 'not wellformed'
    return 'ok', s


def examine(sel, sg, attach=False):
    """list of (clause, detail, observed-dict) failures of the contracts for one abstract selector in one spelling"""
    fails = []
    eproj, espec = expect(sel)
    text = render(sel, sg)
    st, s = parse_selector(text)
    if st != 'ok':
        clause = 'bounded: a selector generated from the CSS3 grammar is accepted' if st == 'rejected' else 'bounded: parsing a generated selector raises no non-DOM exception'
        return text, [(clause, f'{text!r}: {s}', {'status': st, 'message': s})]
    spec = tuple(s.specificity)
    if spec != espec:
        fails.append(('bounded: specificity equals the counts known by construction', f'{text!r}: {spec} expected {espec}', {'spec': spec, 'expected': espec}))
    proj = project(s)
    if proj != eproj:
        fails.append(('bounded: parsed sequence of simple selectors and combinators equals the generated one', f'{text!r}: {proj!r} expected {eproj!r}', {'proj': proj}))
    # serialisation round trip
    try:
        out = s.selectorText
    except Exception as e:  # noqa: BLE001
        fails.append(('bounded: serialising a parsed selector raises nothing', f'{text!r}: {type(e).__name__}: {e}', {}))
        return text, fails
    st2, s2 = parse_selector(out)
    if st2 != 'ok':
        fails.append(('bounded: the serialised selector reparses', f'{text!r} -> {out!r}: {s2}', {'status': st2, 'message': s2, 'serialised': out}))
    else:
        if tuple(s2.specificity) != spec:
            fails.append(('bounded: specificity unchanged by a serialisation round trip', f'{text!r} -> {out!r}: {spec} -> {tuple(s2.specificity)}', {}))
        p2 = project(s2)
        if p2 != proj:
            fails.append(('bounded: the serialised selector reparses to the same sequence of simple selectors and combinators', f'{text!r} -> {out!r}: {proj!r} -> {p2!r}', {}))
    # the an+b arguments of the serialised text: white space may move, every other character stays
    want_nth = expected_nth(sel)
    if want_nth:
        got = [(nm, re.sub(r'[ \t\r\n\f]+', '', arg).lower()) for nm, arg in nth_args_of_text(out)]
        if got != want_nth:
            fails.append(('bounded: the non-whitespace characters of an an+b argument survive serialisation', f'{text!r} -> {out!r}: {got!r} expected {want_nth!r}',
                          {'serialised': out}))
    if attach:
        fails.extend(_attach(sel, text, s, spec, proj))
    return text, fails


def _attach(sel, text, s, spec, proj):
    """attaching to a sheet: (a) parsed as part of a sheet, (b) a stand-alone Selector object appended to a rule of a sheet,
    (c) a rule built stand-alone and added to a sheet"""
    import cssutils
    fails = []
    what = 'bounded: specificity and structure unchanged by attaching the selector to a sheet'
    try:
        sheet = cssutils.parseString('@namespace p "u";\n' + text + ' {left: 0}\nzz {top: 0}')
        rules = [r for r in sheet.cssRules if r.type == r.STYLE_RULE]
        if len(rules) != 2 or rules[0].selectorList.length != 1:
            fails.append((what, f'{text!r} as a rule of a parsed sheet: {len(rules)} style rules', {'way': 'parsed'}))
        else:
            a = rules[0].selectorList[0]
            if tuple(a.specificity) != spec or project(a) != proj:
                fails.append((what, f'{text!r} parsed inside a sheet: {tuple(a.specificity)} {project(a)!r} vs stand-alone {spec} {proj!r}', {'way': 'parsed'}))
        before_text = s.selectorText
        rule = rules[-1]
        got = rule.selectorList.appendSelector(s)
        if got is None or rule.selectorList[rule.selectorList.length - 1] is not s:
            fails.append((what, f'{text!r}: appendSelector(Selector) did not put the object at the end', {'way': 'appended'}))
        elif tuple(s.specificity) != spec or project(s) != proj:
            fails.append((what, f'{text!r} appended to a rule of a sheet: {tuple(s.specificity)} vs {spec}', {'way': 'appended'}))
        else:
            st3, s3 = parse_selector(s.selectorText)
            if st3 != 'ok' or tuple(s3.specificity) != spec or project(s3) != proj:
                fails.append((what, f'{text!r}: text while attached {s.selectorText!r} (before {before_text!r}) does not reparse to the same selector: {s3 if st3 != "ok" else ""}',
                              {'way': 'appended-text', 'message': s3 if st3 != 'ok' else '', 'serialised': s.selectorText}))
        sheet2 = cssutils.parseString('@namespace p "u";')
        r2 = cssutils.css.CSSStyleRule(selectorText=(text, dict(NS)))
        r2.style.cssText = 'left: 0'
        sheet2.add(r2)
        if r2.parentStyleSheet is not sheet2 or r2.selectorList.length != 1:
            fails.append((what, f'{text!r}: rule not added', {'way': 'rule-added'}))
        else:
            a = r2.selectorList[0]
            if tuple(a.specificity) != spec or project(a) != proj:
                fails.append((what, f'{text!r} rule added to a sheet: {tuple(a.specificity)} vs {spec}', {'way': 'rule-added'}))
            rt = cssutils.parseString(sheet2.cssText)
            rr = [r for r in rt.cssRules if r.type == r.STYLE_RULE]
            if len(rr) != 1 or rr[0].selectorList.length != 1 or tuple(rr[0].selectorList[0].specificity) != spec or project(rr[0].selectorList[0]) != proj:
                fails.append((what, f'{text!r}: sheet text {sheet2.cssText!r} does not reparse to the same selector', {'way': 'sheet-roundtrip'}))
    except Exception as e:  # noqa: BLE001
        fails.append(('bounded: attaching a selector to a sheet raises nothing', f'{text!r}: {type(e).__name__}: {e}', {'message': f'{type(e).__name__}: {e}', 'serialised': s.selectorText}))
    return fails


# ----------------------------------------------------------------------------- known-finding classes

def run_case(case):
    """worker: (abstract selector, [sigma names], attach) -> (evaluations, [(clause, detail, inputs, known_id)])
    No finding of C16 is open (known/C16.json lists repaired ones only), so nothing is routed: every failure is a violation."""
    sel, sigma_names, attach = case
    res = []
    n = 0
    for nm in sigma_names:
        sg = SIGMA_BY_NAME[nm]
        n += 1
        text, fails = examine(sel, sg, nm in (ATTACH_SIGMAS if attach is True else (attach or ())))      # attach: True (ATTACH_SIGMAS) | tuple of spelling names | False
        for clause, detail, _obs in fails:
            res.append((clause, detail, {'abstract': repr(sel), 'sigma': nm, 'text': text}, None))
    return n, res


def _init_worker():
    _quiet()


def _run_cases(ctx, cases, chunksize=64):
    """run cases on ctx.jobs processes, deterministic order; returns evaluations"""
    n = 0
    if ctx.jobs > 1 and len(cases) > 200:
        with multiprocessing.get_context('fork').Pool(ctx.jobs, initializer=_init_worker) as pool:
            results = pool.imap(run_case, cases, chunksize=chunksize)
            for k, res in results:
                n += k
                for clause, detail, inputs, kid in res:
                    ctx.violation(clause, detail, True, inputs, known_id=kid)
    else:
        for case in cases:
            k, res = run_case(case)
            n += k
            for clause, detail, inputs, kid in res:
                ctx.violation(clause, detail, True, inputs, known_id=kid)
    return n


# ----------------------------------------------------------------------------- pools

HEADS = [None, ('t', None, 'a'), ('u', None), ('t', 'p', 'a'), ('t', '*', 'a'), ('t', '', 'a'), ('u', '*'), ('u', 'p'), ('u', ''), ('t', None, 'H1')]
ANB_ARGS = [('anb', '2', '+', '1'), ('anb', '', None, None), ('anb', '-', '+', '3'), ('anb', '+', None, None), ('anb', '+3', '-', '2'), ('anb', '-2', '-', '1'),
            ('anb', '0', '+', '5'), ('anb', '10', '+', '0'), ('anb', '+', '+', '2'), ('int', '5'), ('int', '-5'), ('int', '+5'), ('kw', 'odd'), ('kw', 'even')]
PCF_NAMES = ['nth-child', 'nth-last-child', 'nth-of-type', 'nth-last-of-type']


def simple_pool(tier):
    attrs = []
    for op in ATTR_OPS:
        if op is None:
            attrs.append(('attr', None, 'x', None, None, False))
        else:
            attrs.append(('attr', None, 'x', op, 'v', False))
            attrs.append(('attr', None, 'x', op, 'v', True))
    attrs += [('attr', 'p', 'x', '=', 'v', True), ('attr', '*', 'x', None, None, False), ('attr', '', 'x', '~=', 'v', False), ('attr', None, 'X-y', '=', 'a b', True),
              ('attr', None, 'x', '=', '[', True), ('attr', None, 'x', '*=', '#i.c', True)]  # values that look like counted tokens
    pcs = [('pc', 'hover'), ('pc', 'first-child'), ('pc', 'link'), ('pc', 'root')]
    pcfs = [('pcf', PCF_NAMES[i % len(PCF_NAMES)], a) for i, a in enumerate(ANB_ARGS)] + [('pcf', 'lang', ('ident', 'fr')), ('pcf', 'lang', ('str', '['))]
    base = [('id', 'i'), ('cls', 'c')] + attrs + pcs + pcfs
    not_args = [('t', None, 'b'), ('t', 'p', 'b'), ('t', '*', 'b'), ('u', None), ('u', '*'), ('id', 'j'), ('cls', 'd'), ('attr', None, 'y', None, None, False),
                ('attr', None, 'y', '|=', 'w', True), ('attr', 'p', 'y', '^=', 'w', False), ('pc', 'hover'), ('pc', 'first-child'),
                ('pcf', 'nth-child', ('anb', '2', '+', '1')), ('pcf', 'lang', ('ident', 'fr'))]
    nots = [('not', a) for a in not_args]
    return base + nots


PES = [('pe', 'before', 2), ('pe', 'before', 1), ('pe', 'after', 1), ('pe', 'first-line', 2), ('pe', 'first-line', 1), ('pe', 'first-letter', 1), ('pe', 'selection', 2),
       ('pef', 'part', 'label'), ('pef', 'cue', 'v'), ('pef', 'slotted', 'a')]


def compounds(ctx):
    """D1: every compound of one head and up to two simple selectors, with and without a trailing pseudo-element"""
    _quiet()
    pool = simple_pool(ctx.tier)
    all_sigmas = [s.name for s in SIGMAS]
    cases = []
    kinds = set()
    idx = 0

    def kind_of(head, simples):
        return (head[0] + str(head[1]) if head else None, tuple((s[0] + (':' + s[1][0] if s[0] == 'not' else '')) for s in simples))

    # length <= 1: every head x every simple x every pseudo-element ending, all spellings, attached
    for head in HEADS:
        for s in [None] + pool:
            for pe in [None] + PES:
                simples = tuple(x for x in (s, pe) if x is not None)
                if head is None and not simples:
                    continue
                cases.append((((head, simples),), all_sigmas, ATTACH_PLAIN))
                kinds.add(kind_of(head, simples))
    # length 2: all ordered pairs
    heads2 = HEADS if ctx.tier == 'thorough' else [None, ('t', None, 'a'), ('u', None), ('t', 'p', 'a')]
    pes2 = [None] + ([PES[i] for i in (0, 1, 4, 6, 7, 8)] if ctx.tier == 'thorough' else [PES[0], PES[7]])
    for head in heads2:
        for s1 in pool:
            for s2 in pool:
                for pe in pes2:
                    simples = tuple(x for x in (s1, s2, pe) if x is not None)
                    if ctx.tier == 'thorough':
                        sig = all_sigmas
                    else:
                        sig = [all_sigmas[(idx + idx // len(all_sigmas)) % len(all_sigmas)]]
                    idx += 1
                    cases.append((((head, simples),), sig, False))
                    kinds.add(kind_of(head, simples))
    n = _run_cases(ctx, cases)
    ctx.bounded.append({'name': 'C16 compounds', 'evaluations': n, 'distinct_nontrivial': len(kinds), 'exhaustive': True,
                        'rule': f'every compound selector = head ({len(HEADS)} forms: none, type, universal, each namespace prefix form) + ordered sequence of <= 2 simple selectors from a pool of '
                                f'{len(pool)} (id, class, attribute with every operator quoted/unquoted/namespaced and with values that look like counted tokens, 4 pseudo-classes, nth-*() with {len(ANB_ARGS)} an+b arguments, :lang(), '
                                f':not() over 14 argument kinds) + optional pseudo-element ({len(PES)} forms: one-/two-colon names and the functional ::part(label), ::cue(v), ::slotted(a)); rendered in {len(SIGMAS)} spellings '
                                f'(length <= 1: all spellings, {len(ATTACH_PLAIN)} of them also attached to a sheet three ways; length 2: one spelling per case rotating in the quick tier, all in the thorough tier); '
                                + ESC_BOUND + '; '
                                'each evaluation = parse, specificity, projected structure, round trip, an+b characters kept in the output; distinct = (head form, kinds of the simple selectors)',
                        'samples': [{'abstract': repr(cases[7][0]), 'text': render(cases[7][0], SIGMAS[3])}, {'text': render(cases[-1][0], SIGMA_BY_NAME['esc-simple-first'])}],
                        'bound': 'compounds of <= 2 simple selectors (+ pseudo-element); ' + ESC_BOUND})


def complex_pool():
    """one compound per counting context, incl. 'class inside :not() inside a later compound'"""
    return [
        (('t', None, 'a'), ()),
        (('u', None), ()),
        (None, (('id', 'i'),)),
        (None, (('cls', 'c'),)),
        (('t', None, 'a'), (('attr', None, 'x', '~=', 'v', True),)),
        (None, (('pc', 'hover'),)),
        (('t', None, 'li'), (('pcf', 'nth-child', ('anb', '2', '+', '1')),)),
        (('t', None, 'a'), (('not', ('cls', 'd')),)),
        (None, (('not', ('t', None, 'b')), ('cls', 'c'))),
        (('u', None), (('not', ('attr', None, 'y', '=', 'w', False)), ('id', 'i'))),
        (('t', 'p', 'a'), (('not', ('id', 'j')),)),
        (None, (('attr', None, 'x', None, None, False), ('not', ('pc', 'hover')))),
        (('t', None, 'a'), (('cls', 'c'), ('pcf', 'nth-of-type', ('kw', 'odd')), ('not', ('u', None)))),
        (None, (('pcf', 'lang', ('ident', 'fr')), ('cls', 'c'))),
    ]


def complexes(ctx):
    """D2: selectors of 2 and 3 (thorough: 4) compounds joined by every combinator"""
    _quiet()
    pool = complex_pool()
    all_sigmas = [s.name for s in SIGMAS]
    cases = []
    kinds = set()
    idx = 0
    last_pes = [None, ('pe', 'before', 2), ('pe', 'first-line', 1), ('pef', 'cue', 'v'), ('pef', 'part', 'label')]
    for c1, c2 in itertools.product(range(len(pool)), repeat=2):
        for comb in COMBS:
            for pe in last_pes:
                last = (pool[c2][0], pool[c2][1] + ((pe,) if pe else ()))
                cases.append(((pool[c1], comb, last), all_sigmas, pe is None))
                kinds.add((c1, comb, c2, bool(pe)))
    for c1, c2, c3 in itertools.product(range(len(pool)), repeat=3):
        for cb1, cb2 in itertools.product(COMBS, repeat=2):
            if ctx.tier == 'thorough':
                sig = all_sigmas
            else:
                sig = [all_sigmas[(idx + idx // len(all_sigmas)) % len(all_sigmas)]]
            idx += 1
            cases.append(((pool[c1], cb1, pool[c2], cb2, pool[c3]), sig, False))
            kinds.add((c1, cb1, c2, cb2, c3))
    if ctx.tier == 'thorough':
        small = [pool[i] for i in (0, 3, 7, 8, 11, 12)]
        for cs in itertools.product(range(len(small)), repeat=4):
            for cbs in itertools.product(COMBS, repeat=3):
                sig = [all_sigmas[idx % len(all_sigmas)]]
                idx += 1
                sel = (small[cs[0]], cbs[0], small[cs[1]], cbs[1], small[cs[2]], cbs[2], small[cs[3]])
                cases.append((sel, sig, False))
                kinds.add((cs, cbs))
    n = _run_cases(ctx, cases)
    ctx.bounded.append({'name': 'C16 complex selectors', 'evaluations': n, 'distinct_nontrivial': len(kinds), 'exhaustive': True,
                        'rule': f'all selectors of 2 and 3 compounds from a pool of {len(pool)} compounds (one per counting context: type, universal, id, class, attribute, pseudo-class, '
                                'functional pseudo-class, :not() of class/type/attribute/id/pseudo-class/universal before and after other simple selectors, namespaced type) x every '
                                f'combinator; 2 compounds: all {len(SIGMAS)} spellings, with/without a final pseudo-element, {len(ATTACH_SIGMAS)} spellings (one with escapes) attached to a sheet; 3 compounds: one rotating spelling per case (quick) / all (thorough); '
                                'thorough adds 4 compounds over 6; distinct = (compound indices, combinators)',
                        'samples': [{'text': render(cases[-1][0], SIGMAS[4])}], 'bound': '<= 3 compounds (quick), <= 4 (thorough); ' + ESC_BOUND})


# ----------------------------------------------------------------------------- selector lists

VALID_MEMBERS = ['a', 'b.c', '#i', 'a > b', 'p|a', '*', 'a:not(.d)', '[x="1,2"]', 'li:nth-child(2n+1)', 'a::before']
# text, reason
INVALID_MEMBERS = ['', 'a >', '> a', '1a', 'a[', 'a[b=]', 'a:not(', '.', '#', 'a)', '$', 'a::', '@x', 'q|a', 'a..b', 'a[b=c', ':not()', 'a{', 'a b]', '!a']
SEPS = [', ', ',', ' , ', ',\n', '/*c*/,/*c*/ ']


def _balanced(text):
    stack = []
    for ch in text:
        if ch in '([':
            stack.append(ch)
        elif ch in ')]':
            if not stack or stack.pop() != {')': '(', ']': '['}[ch]:
                return False
    return not stack


def _canon(text):
    st, s = parse_selector(text)
    assert st == 'ok', text
    return s.selectorText


def _list_texts(sl):
    """members as serialised text; comments (kept by the DOM next to the member they were written at) removed"""
    return [re.sub(r'/\*.*?\*/', '', s.selectorText, flags=re.S).strip() for s in sl]


WHAT_R = 'bounded: a selector list with an invalid member is rejected as a whole (raising mode: DOM exception, list unchanged)'
WHAT_L = 'bounded: a selector list with an invalid member is rejected as a whole (log mode: no exception, list unchanged)'
WHAT_P = 'bounded: the parser drops a rule whose selector list has an invalid member and keeps its neighbours'


def _reject_list_case(text):
    """one list text with an invalid member through SelectorList.selectorText and CSSStyleRule.selectorText in raising mode, SelectorList.selectorText and the constructor in
    log mode, and through the parser -> (evaluations, [(clause, detail, inputs)]); leaves cssutils.log.raiseExceptions = False"""
    import cssutils
    from cssutils.css import SelectorList, CSSStyleRule
    what_r, what_l, what_p = WHAT_R, WHAT_L, WHAT_P
    n = 0
    viol = []
    before = ['x', 'y']
    # raising mode, SelectorList
    n += 1
    cssutils.log.raiseExceptions = True
    sl = SelectorList('x, y')
    try:
        sl.selectorText = (text, dict(NS))
        viol.append((what_r, f'{text!r}: accepted, list now {_list_texts(sl)!r}', {'text': text, 'mode': 'raise'}))
    except xml.dom.DOMException:
        if _list_texts(sl) != before:
            viol.append((what_r, f'{text!r}: raised but list now {_list_texts(sl)!r}', {'text': text, 'mode': 'raise'}))
    except Exception as e:  # noqa: BLE001
        viol.append(('bounded: rejecting a selector list raises DOM exceptions only', f'{text!r}: {type(e).__name__}: {e}', {'text': text, 'mode': 'raise'}))
    # raising mode, CSSStyleRule.selectorText
    n += 1
    rule = CSSStyleRule(selectorText='x, y')
    try:
        rule.selectorText = (text, dict(NS))
        viol.append((what_r, f'rule.selectorText = {text!r}: accepted, now {rule.selectorText!r}', {'text': text, 'mode': 'raise', 'via': 'rule'}))
    except xml.dom.DOMException:
        if _list_texts(rule.selectorList) != before:
            viol.append((what_r, f'rule.selectorText = {text!r}: raised but list now {rule.selectorText!r}', {'text': text, 'mode': 'raise', 'via': 'rule'}))
    except Exception as e:  # noqa: BLE001
        viol.append(('bounded: rejecting a selector list raises DOM exceptions only', f'rule.selectorText = {text!r}: {type(e).__name__}: {e}', {'text': text, 'via': 'rule'}))
    # log mode
    n += 1
    cssutils.log.raiseExceptions = False
    sl = SelectorList('x, y')
    try:
        sl.selectorText = (text, dict(NS))
        if _list_texts(sl) != before:
            viol.append((what_l, f'{text!r}: list now {_list_texts(sl)!r}', {'text': text, 'mode': 'log'}))
    except Exception as e:  # noqa: BLE001
        viol.append((what_l, f'{text!r}: {type(e).__name__}: {e}', {'text': text, 'mode': 'log'}))
    # constructor in log mode: an invalid list gives an empty (not wellformed) list, never a partial one
    n += 1
    try:
        sl = SelectorList((text, dict(NS)))
        if _list_texts(sl):
            viol.append((what_l, f'SelectorList({text!r}) holds {_list_texts(sl)!r}', {'text': text, 'mode': 'log', 'via': 'constructor'}))
    except Exception as e:  # noqa: BLE001
        viol.append((what_l, f'SelectorList({text!r}): {type(e).__name__}: {e}', {'text': text, 'mode': 'log', 'via': 'constructor'}))
    # through the parser (log mode is what the parser uses); members that would end the prelude are not usable here
    # (an unbalanced bracket legitimately swallows the following rules: CSS 2.1 4.1.7 / 4.2 matching pairs)
    # (and <!-- / --> in front of a statement belong to the style sheet level - CSS 2.1 G.1 stylesheet: [ CDO | CDC | S ]* between statements -, not to the prelude)
    if not any(ch in text for ch in '{};@') and '/*' not in text and _balanced(text) and not re.match(r'[ \t\r\n\f]*(<!--|-->)', text):
        n += 1
        try:
            sheet = cssutils.parseString('@namespace p "u";\nk1 {left: 0}\n' + text + ' {top: 0}\nk2 {left: 0}')
            sels = [r.selectorText for r in sheet.cssRules if r.type == r.STYLE_RULE]
            if sels != ['k1', 'k2']:
                viol.append((what_p, f'{text!r}: style rules {sels!r}', {'text': text, 'via': 'parser'}))
        except Exception as e:  # noqa: BLE001
            viol.append((what_p, f'{text!r}: {type(e).__name__}: {e}', {'text': text, 'via': 'parser'}))
    return n, viol


def lists(ctx):
    """order preserved; all-or-nothing in raising mode, in log mode, through rule.selectorText and through the parser"""
    cssutils = _quiet()
    from cssutils.css import SelectorList, CSSStyleRule
    n = 0
    kinds = set()
    canon = {t: _canon(t) for t in VALID_MEMBERS}
    # sanity of the invalid pool: each is rejected alone (else the oracle 'invalid member' is wrong)
    really_invalid = []
    for t in INVALID_MEMBERS:
        st, _ = parse_selector(t) if t else ('rejected', '')
        if st == 'ok':
            ctx.violation('bounded: generator self-check: an invalid member is invalid alone', f'{t!r} accepted as a selector', True, {'text': t})
        else:
            really_invalid.append(t)
    kmax = 3 if ctx.tier == 'quick' else 4
    # ---- order
    for k in range(1, kmax + 1):
        for idx, members in enumerate(itertools.permutations(VALID_MEMBERS, k)):
            if ctx.tier == 'quick' and k == 3 and idx % 2:
                continue
            sep = SEPS[(idx + k) % len(SEPS)]
            text = sep.join(members)
            n += 1
            try:
                sl = SelectorList((text, dict(NS)))
                got = _list_texts(sl)
                ln = sl.length
            except Exception as e:  # noqa: BLE001
                ctx.violation('bounded: a list of valid selectors is accepted', f'{text!r}: {type(e).__name__}: {e}', True, {'text': text})
                continue
            want = [canon[m] for m in members]
            if got != want or ln != k or len(sl) != k:
                ctx.violation('bounded: a selector list preserves the order of its members', f'{text!r}: {got!r} (length {ln}) expected {want!r}', True, {'text': text})
            else:
                out = sl.selectorText
                sl2 = SelectorList((out, dict(NS)))
                if _list_texts(sl2) != want:
                    ctx.violation('bounded: a serialised selector list reparses to the same members in the same order', f'{text!r} -> {out!r} -> {_list_texts(sl2)!r}', True, {'text': text})
            kinds.add(('order', k, sep))
    # ---- all or nothing
    what_r, what_l = WHAT_R, WHAT_L
    valid3 = ['a', 'b.c', 'a > b']
    try:
        for k in range(1, 4):
            for pat in itertools.product((True, False), repeat=k):
                if all(pat):
                    continue
                for bad_i, bad in enumerate(really_invalid):
                    members = []
                    vi = 0
                    for ok in pat:
                        if ok:
                            members.append(valid3[vi])
                            vi += 1
                        else:
                            members.append(bad)
                    if members == ['']:
                        continue  # the empty text is "no value", not a list
                    sep = SEPS[(bad_i + k) % 3]
                    text = sep.join(members)
                    k_n, viol = _reject_list_case(text)
                    n += k_n
                    for what, detail, inputs in viol:
                        ctx.violation(what, detail, True, inputs)
                    kinds.add(('reject', pat, bad))
        # trailing / leading / doubled commas
        for text in ['a,', ',a', 'a,,b', 'a, ,b', ',', 'a,b,', ' , a']:
            for mode in (True, False):
                n += 1
                cssutils.log.raiseExceptions = mode
                sl = SelectorList('x, y')
                try:
                    sl.selectorText = text
                    if mode or _list_texts(sl) != ['x', 'y']:
                        ctx.violation(what_r if mode else what_l, f'{text!r}: list now {_list_texts(sl)!r}', True, {'text': text, 'mode': mode})
                except xml.dom.DOMException as e:
                    if not mode or _list_texts(sl) != ['x', 'y']:
                        ctx.violation(what_r if mode else what_l, f'{text!r}: {type(e).__name__}, list now {_list_texts(sl)!r}', True, {'text': text, 'mode': mode})
                kinds.add(('comma', text))
    finally:
        cssutils.log.raiseExceptions = True
    ctx.bounded.append({'name': 'C16 selector lists: order and all-or-nothing', 'evaluations': n, 'distinct_nontrivial': len(kinds), 'exhaustive': True,
                        'rule': f'order: all permutations of <= {kmax} of {len(VALID_MEMBERS)} distinct valid selectors (every second 3-permutation in the quick tier) with {len(SEPS)} separator spellings; '
                                f'rejection: every valid/invalid pattern of <= 3 members with at least one invalid x {len(really_invalid)} invalid members, each as SelectorList.selectorText and '
                                'CSSStyleRule.selectorText in raising mode (DOM exception, previous list kept), SelectorList.selectorText and constructor in log mode, and as a rule between two '
                                'neighbours through parseString; stray commas',
                        'samples': [{'text': 'a, a >, b.c'}], 'bound': 'lists of <= 3 members'})


HIST_TEXTS = {'A': 'a', 'B': 'b.c', 'C': 'a > b', 'C2': 'a>b', 'C3': 'a\n>\tb', 'D': '#i'}
WHAT_A = 'bounded: appendSelector puts the selector at the end and removes an earlier entry with the same serialised text'
WHAT_S = 'bounded: replacing a list entry changes exactly that entry'
WHAT_T = 'bounded: setting selectorText replaces the whole list or (invalid) nothing'
WHAT_E = 'bounded: a rejected list operation raises a DOM exception (raising mode) / nothing (log mode) and leaves the list unchanged'


def _hist_ops():
    ops = []
    for k in ('A', 'B', 'C', 'C2', 'C3', 'D'):
        ops.append(('append', k))
    ops.append(('append-obj', 'A'))
    ops.append(('append-obj', 'C2'))
    # argument forms of appendSelector / append: the pair (text, namespaces), the alias append(), and a Selector OBJECT that is a member of
    # this very list already (sl[i], the last one included): "appending a selector that is already present moves it to the end"
    ops.append(('append-pair', 'A'))
    ops.append(('append-pair', 'C3'))
    ops.append(('append-alias', 'D'))
    for i in (0, 1, 2):
        ops.append(('append-member', i))
    ops.append(('append-alias-member', 0))
    ops.append(('append-bad', 'a >'))
    ops.append(('append-bad', 'a, b'))
    ops.append(('append-bad', 'q|a'))
    for i in (0, 1, 2):
        for k in ('A', 'C2', 'D'):
            ops.append(('set', i, k))
        ops.append(('set-bad', i, 'a['))
    ops.append(('text', ('B', 'A')))
    ops.append(('text', ('C3', 'D', 'A')))
    ops.append(('text-bad', 'a, b >'))
    ops.append(('del', 0))
    return ops


def _hist_worker(job):
    """all histories of length <= kmax that start with operation `first`, in one mode -> (evaluations, kinds, violations)"""
    mode, first, kmax = job
    cssutils = _quiet()
    from cssutils.css import SelectorList, Selector
    texts = HIST_TEXTS
    canon = {k: _canon(v) for k, v in texts.items()}
    ops = _hist_ops()
    n = 0
    kinds = set()
    viol = []
    try:
        cssutils.log.raiseExceptions = mode
        for k in range(1, kmax + 1):
            for rest in itertools.product(range(len(ops)), repeat=k - 1):
                seq = (first,) + rest
                sl = SelectorList('a, #i')
                model = [canon['A'], canon['D']]
                ok = True
                for step, oi in enumerate(seq):
                    op = ops[oi]
                    kind = op[0]
                    if kind in ('set', 'set-bad', 'append-member', 'append-alias-member') and op[1] >= len(model):
                        ok = False
                        break
                    if kind == 'del' and not model:
                        ok = False
                        break
                    n += 1
                    want = list(model)
                    expect_reject = kind.endswith('-bad')
                    raised = None
                    ret = 'unset'
                    hist = {'ops': [[str(y) for y in ops[x]] for x in seq[:step + 1]], 'raise': mode, 'start': 'a, #i'}
                    try:
                        if kind == 'append':
                            ret = sl.appendSelector(texts[op[1]])
                            want = [m for m in model if m != canon[op[1]]] + [canon[op[1]]]
                        elif kind == 'append-obj':
                            obj = Selector(texts[op[1]])
                            ret = sl.appendSelector(obj)
                            want = [m for m in model if m != canon[op[1]]] + [canon[op[1]]]
                        elif kind == 'append-pair':
                            ret = sl.appendSelector((texts[op[1]], dict(NS)))
                            want = [m for m in model if m != canon[op[1]]] + [canon[op[1]]]
                        elif kind == 'append-alias':
                            sl.append(texts[op[1]])
                            want = [m for m in model if m != canon[op[1]]] + [canon[op[1]]]
                            ret = sl[sl.length - 1] if sl.length else None      # append() returns nothing
                        elif kind in ('append-member', 'append-alias-member'):
                            obj = sl[op[1]]
                            want = [m for m in model if m != model[op[1]]] + [model[op[1]]]      # (item assignment may have left the text twice)
                            if kind == 'append-member':
                                ret = sl.appendSelector(obj)
                            else:
                                sl.append(obj)
                                ret = sl[sl.length - 1] if sl.length else None
                            if ret is not obj:
                                viol.append((WHAT_A, f'history {hist["ops"]!r}: appending the member object sl[{op[1]}] did not put that object at the end', hist))
                        elif kind == 'append-bad':
                            ret = sl.appendSelector(op[1])
                        elif kind == 'set':
                            sl[op[1]] = texts[op[2]]
                            want[op[1]] = canon[op[2]]
                        elif kind == 'set-bad':
                            sl[op[1]] = op[2]
                        elif kind == 'text':
                            sl.selectorText = ', '.join(texts[x] for x in op[1])
                            want = [canon[x] for x in op[1]]
                        elif kind == 'text-bad':
                            sl.selectorText = op[1]
                        elif kind == 'del':
                            del sl[op[1]]
                            del want[op[1]]
                    except xml.dom.DOMException as e:
                        raised = e
                    except Exception as e:  # noqa: BLE001
                        viol.append(('bounded: list operations raise DOM exceptions only', f'history {hist["ops"]!r}: {type(e).__name__}: {e}', hist))
                        ok = False
                        break
                    got = _list_texts(sl)
                    if expect_reject:
                        if got != model or (mode and raised is None) or (not mode and raised is not None):
                            viol.append((WHAT_E, f'history {hist["ops"]!r} raise={mode}: raised={raised!r} list {got!r} expected {model!r}', hist))
                            ok = False
                            break
                        if kind == 'append-bad' and raised is None and ret is not None:
                            viol.append((WHAT_E, f'history {hist["ops"]!r}: appendSelector returned {ret!r} for an invalid selector', hist))
                    else:
                        if raised is not None:
                            viol.append(('bounded: a valid list operation is accepted', f'history {hist["ops"]!r}: {raised!r}', hist))
                            ok = False
                            break
                        if got != want or sl.length != len(want):
                            viol.append((WHAT_A if kind.startswith('append') else WHAT_S if kind == 'set' else WHAT_T, f'history {hist["ops"]!r}: {got!r} expected {want!r}', hist))
                            ok = False
                            break
                        if kind.startswith('append') and (ret is None or ret.selectorText != want[-1] or sl[len(want) - 1] is not ret):
                            viol.append((WHAT_A, f'history {hist["ops"]!r}: returned {ret!r} is not the last entry', hist))
                        model = want
                if ok:
                    kinds.add(tuple(ops[x][0] for x in seq))
    finally:
        cssutils.log.raiseExceptions = True
    return n, kinds, viol


def list_histories(ctx):
    """all append / replace sequences up to length 3 (thorough: 4) against a list model"""
    _quiet()
    canon = {k: _canon(v) for k, v in HIST_TEXTS.items()}
    assert canon['C'] == canon['C2'] == canon['C3']
    ops = _hist_ops()
    kmax = 3 if ctx.tier == 'quick' else 4
    jobs = [(mode, first, kmax) for mode in (True, False) for first in range(len(ops))]
    n = 0
    kinds = set()
    if ctx.jobs > 1:
        with multiprocessing.get_context('fork').Pool(ctx.jobs, initializer=_init_worker) as pool:
            results = list(pool.imap(_hist_worker, jobs))
    else:
        results = [_hist_worker(j) for j in jobs]
    for k, kk, viol in results:
        n += k
        kinds |= kk
        for what, detail, inputs in viol:
            ctx.violation(what, detail, True, inputs)
    ctx.bounded.append({'name': 'C16 list histories', 'evaluations': n, 'distinct_nontrivial': len(kinds), 'exhaustive': True,
                        'rule': f'all sequences of <= {kmax} operations from a pool of {len(ops)} (appendSelector of 4 selectors, one of them in three spellings, as text, as pair (text, namespaces), '
                                'as a new Selector object and as a Selector object that is already a member of the list (sl[0], sl[1], sl[2]); the alias append() with a text and with a member; '
                                'invalid / comma-containing / undeclared-prefix appends; sl[i] = valid/invalid for i < 3; selectorText = valid/invalid list; del sl[0]) on the list "a, #i", in raising '
                                'and in log mode, against a Python list of serialised texts; distinct = sequence of operation kinds',
                        'samples': [{'ops': ['append a>b', 'append a > b'], 'expected': ['a', '#i', 'a > b']}], 'bound': f'histories of <= {kmax} operations'})


# ----------------------------------------------------------------------------- tokens that have no production in a selector
# (kind, text). None of these token kinds occurs in the CSS3 selector grammar outside an attribute selector's brackets or a functional pseudo's argument, so a text that
# holds one at the start, between or at the end of compound selectors is no selector, whatever the rest looks like.
STRAY_TOKENS = [('CDO', '<!--'), ('CDC', '-->'), ('semicolon', ';'), ('open-brace', '{'), ('close-brace', '}'), ('close-paren', ')'), ('close-bracket', ']'),
                ('at-keyword', '@x'), ('at-keyword-known', '@media'), ('delim-!', '!'), ('important', '!important'), ('delim-$', '$'), ('delim-&', '&'), ('delim-?', '?'),
                ('delim-/', '/'), ('delim-<', '<'), ('delim-^', '^'), ('delim-%', '%'), ('delim-=', '='), ('delim-`', '`'),
                ('includes', '~='), ('dashmatch', '|='), ('prefixmatch', '^='), ('suffixmatch', '$='), ('substringmatch', '*='),
                ('string-dq', '"s"'), ('string-sq', "'s'"), ('url-bare', 'url(u)'), ('url-quoted', 'url("u")'), ('percentage', '50%'), ('dimension', '1px'), ('number', '1'),
                ('number-frac', '1.5'), ('unicode-range', 'U+0-f'), ('function', 'f(x)')]
# {J} = the stray token; start / between (descendant and child combinator, before and behind the combinator) / end of compound selectors, separated by a blank or glued
STRAY_SPACED = ['{J} b', 'b {J}', 'b {J} c', 'b > {J} c', 'b {J} > c', '{J} p.q', 'b.c {J} #i']
STRAY_GLUED_RIGHT = ['{J}b', 'b {J}c']          # the token directly before a compound
STRAY_GLUED_LEFT = ['b{J}', 'b{J} c', 'b.c{J}#i']  # the token directly behind a compound (only tokens that cannot continue an identifier)
WHAT_SEL_R = 'bounded: a text with a token that has no production in a selector is rejected by Selector (raising mode: DOM exception, an existing selector unchanged)'
WHAT_SEL_L = 'bounded: a text with a token that has no production in a selector is rejected by Selector (log mode: nothing committed, specificity (0, 0, 0, 0), an existing selector unchanged)'
WHAT_APP = 'bounded: appendSelector of an invalid selector is refused (raising mode: DOM exception; log mode: returns None) and leaves the list unchanged'


def stray_texts(tier):
    out = []
    for kind, j in STRAY_TOKENS:
        templates = list(STRAY_SPACED) + list(STRAY_GLUED_RIGHT)
        if not re.match(r'[-A-Za-z0-9_\\]', j):
            templates += STRAY_GLUED_LEFT
        for t in templates:
            out.append((kind, t, t.replace('{J}', j)))
    return out


def _stray_case(case):
    """-> (evaluations, [(clause, detail, inputs)])"""
    kind, template, text = case
    cssutils = _quiet()
    from cssutils.css import Selector, SelectorList
    n = 0
    viol = []
    inp = {'text': text, 'token': kind, 'template': template}
    try:
        for mode in (True, False):
            cssutils.log.raiseExceptions = mode
            what = WHAT_SEL_R if mode else WHAT_SEL_L
            # constructor
            n += 1
            try:
                s = Selector((text, dict(NS)))
                if mode:
                    viol.append((what, f'Selector({text!r}) accepted as {s.selectorText!r} {s.specificity!r}', dict(inp, mode=mode)))
                elif s.selectorText != '' or tuple(s.specificity) != (0, 0, 0, 0) or s.wellformed:
                    viol.append((what, f'Selector({text!r}) committed {s.selectorText!r} {s.specificity!r} wellformed={s.wellformed}', dict(inp, mode=mode)))
            except xml.dom.DOMException as e:
                if not mode:
                    viol.append((what, f'Selector({text!r}): {type(e).__name__}: {e}', dict(inp, mode=mode)))
            except Exception as e:  # noqa: BLE001
                viol.append(('bounded: rejecting a selector raises DOM exceptions only', f'Selector({text!r}): {type(e).__name__}: {e}', dict(inp, mode=mode)))
            # setter on an existing selector: commit only when well-formed
            n += 1
            s = Selector('k.l')
            raised = None
            try:
                s.selectorText = (text, dict(NS))
            except xml.dom.DOMException as e:
                raised = e
            except Exception as e:  # noqa: BLE001
                viol.append(('bounded: rejecting a selector raises DOM exceptions only', f'selectorText = {text!r}: {type(e).__name__}: {e}', dict(inp, mode=mode)))
                raised = e
            if (mode and raised is None) or (not mode and raised is not None) or s.selectorText != 'k.l' or tuple(s.specificity) != (0, 0, 1, 1):
                viol.append((what, f'Selector("k.l").selectorText = {text!r}: raised={raised!r}, now {s.selectorText!r} {s.specificity!r}', dict(inp, mode=mode, via='setter')))
            # appendSelector: text and pair form
            for form in ('text', 'pair'):
                n += 1
                sl = SelectorList('x, y')
                raised = None
                ret = None
                try:
                    ret = sl.appendSelector(text if form == 'text' else (text, dict(NS)))
                except xml.dom.DOMException as e:
                    raised = e
                except Exception as e:  # noqa: BLE001
                    viol.append(('bounded: list operations raise DOM exceptions only', f'appendSelector({text!r}): {type(e).__name__}: {e}', dict(inp, mode=mode, form=form)))
                    continue
                if (mode and raised is None) or (not mode and raised is not None) or ret is not None or _list_texts(sl) != ['x', 'y']:
                    viol.append((WHAT_APP, f'appendSelector({text!r}) [{form}] raise={mode}: raised={raised!r} returned={ret!r} list {_list_texts(sl)!r}', dict(inp, mode=mode, form=form)))
        # as the only invalid member of a list of <= 3, at every position
        for members in ([text], [text, 'a'], ['a', text], [text, 'a', 'b.c'], ['a', text, 'b.c'], ['a', 'b.c', text]):
            k_n, v = _reject_list_case(', '.join(members))
            n += k_n
            viol.extend((w, d, dict(i, token=kind, template=template)) for w, d, i in v)
    finally:
        cssutils.log.raiseExceptions = True
    return n, viol


def stray_tokens(ctx):
    """every token kind without a production in a selector, at the start / between / at the end of compound selectors: no selector, no list member"""
    _quiet()
    cases = stray_texts(ctx.tier)
    n = 0
    kinds = set()
    if ctx.jobs > 1:
        with multiprocessing.get_context('fork').Pool(ctx.jobs, initializer=_init_worker) as pool:
            results = list(pool.imap(_stray_case, cases, chunksize=8))
    else:
        results = [_stray_case(c) for c in cases]
    for (kind, template, text), (k, viol) in zip(cases, results):
        n += k
        kinds.add((kind, template))
        for what, detail, inputs in viol:
            ctx.violation(what, detail, True, inputs)
    ctx.bounded.append({'name': 'C16 tokens without a production in a selector', 'evaluations': n, 'distinct_nontrivial': len(kinds), 'exhaustive': True,
                        'rule': f'{len(STRAY_TOKENS)} token kinds that the selector grammar has no production for (CDO, CDC, semicolon, braces, closing parenthesis / bracket, at-keywords, '
                                'delimiters, attribute match operators outside brackets, strings, url(), percentage, dimension, numbers, unicode range, a function without a colon) x '
                                f'{len(STRAY_SPACED)} blank-separated and {len(STRAY_GLUED_RIGHT) + len(STRAY_GLUED_LEFT)} glued positions (start, between - before and behind a child '
                                'combinator -, end of compounds; glued behind a compound only for tokens that cannot continue an identifier): Selector constructor and selectorText setter, '
                                'appendSelector as text and as pair, in raising and in log mode; and as the only invalid member at every position of a list of <= 3 members through '
                                'SelectorList.selectorText, CSSStyleRule.selectorText, the constructor and (where the token cannot end the prelude) the parser; distinct = (token kind, position)',
                        'samples': [{'text': 'b <!-- c'}, {'text': 'a, b{J}c, b.c'.replace('{J}', '"s"')}],
                        'bound': 'one stray token per text, fixed token spellings, host selectors of <= 2 compounds'})
