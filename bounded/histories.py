"""Shared driver for the history properties (C09, C15): exhaustive exploration of operation sequences on the REAL objects.

A *model module* (bounded/c09.py, bounded/c15.py) supplies

    MODEL = {name: Model}   with Model providing
        setup() / teardown()        global preferences, restored afterwards
        new_state(seed)             a fresh state built from a JSON-able seed
        ops(state)                  the operation pool of that state: JSON-able tuples (indexes depend on the state)
        apply(state, op)            run the operation on the real objects without evaluating the contract (used to re-create a state)
        step(state, op)             run the operation on the real objects (a DOM exception is a rejection), evaluate the
                                    run-time contract and return (outcome, [failure dicts]); sets state.broken when the
                                    invariant of the statement no longer holds for the state itself
        fingerprint(state)          everything observable through public accessors, as a string
        abstract(state)             a coarse class of the state (for the distinct count)

Exploration (`explore`): level-synchronous breadth-first search. Every operation of the pool is executed in every distinct
state reachable by at most depth-1 operations, i.e. every operation sequence of length <= depth is executed up to merging of
sequences that lead to the same observable state (fingerprint). A state is re-created by replaying its (shortest, first found)
path on fresh objects; an operation that leaves the fingerprint unchanged (typically a rejected edit) does not force a rebuild -
the next operation is run on the same objects, so sequences with interleaved rejected edits are covered beyond the nominal
depth. `unmerged_depth` runs additionally ALL sequences up to that length without any merging.
States whose invariant is broken are reported once (when it breaks) and not expanded further (the contract is
`requires Inv ensures Inv`).

`walks`: seeded random walks over the same pool, restarted from the seed when the invariant has been broken.
"""
import hashlib
import importlib
import random
from collections import Counter


def _model(modname, name):
    return importlib.import_module(modname).MODEL[name]


def _fp(model, st):
    return hashlib.sha1(model.fingerprint(st).encode('utf-8', 'backslashreplace')).hexdigest()


def _replay(model, seed, path):
    st = model.new_state(seed)
    for op in path:
        model.apply(st, op)
    return st


def _fail_key(f):
    return (f['clause'], f.get('key'))


def _expand(task):
    """run every pool operation in the state reached by `path`; returns children, failures and counts"""
    modname, name, seed_i, seed, path, want_children = task
    model = _model(modname, name)
    model.setup()
    try:
        st = _replay(model, seed, path)
        fp0 = _fp(model, st)
        abs0 = model.abstract(st)
        pool = model.ops(st)
        history = list(path)
        children = []
        failures = []
        triples = set()
        outcomes = Counter()
        evals = 0
        for op in pool:
            if st is None:
                st = _replay(model, seed, path)
                history = list(path)
            outcome, fails = model.step(st, op)
            evals += 1
            history.append(op)
            outcomes[outcome] += 1
            triples.add((abs0, _opclass(op), outcome))
            fp1 = _fp(model, st)
            if fails:
                pure = history == list(path) + [op]
                for f in fails:
                    ops_used = list(history)
                    if not pure:
                        # minimise: does the plain sequence path + [op] show the same failure on fresh objects?
                        st2 = _replay(model, seed, path)
                        _, fails2 = model.step(st2, op)
                        if any(_fail_key(g) == _fail_key(f) for g in fails2):
                            ops_used = list(path) + [op]
                    failures.append(dict(f, seed=seed, ops=ops_used))
            if want_children and not st.broken and fp1 != fp0:
                children.append((fp1, list(path) + [op]))
            if fp1 != fp0 or st.broken:
                st = None
        return {'seed_i': seed_i, 'children': children, 'failures': failures, 'evals': evals, 'outcomes': dict(outcomes), 'triples': triples,
                'pool': len(pool)}
    finally:
        model.teardown()


def _opclass(op):
    return tuple(x for x in op if not isinstance(x, int) or isinstance(x, bool))


def _unmerged(task):
    """all sequences that start with `first` and have at most 1 + rest operations, no merging (depth-first, replay per branch)"""
    modname, name, seed, first, rest = task
    model = _model(modname, name)
    model.setup()
    evals = 0
    failures = []
    nseq = 0
    try:
        def rec(path, rest):
            nonlocal evals, nseq
            pool = model.ops(_replay(model, seed, path))
            for op in pool:
                st = _replay(model, seed, path)
                outcome, fails = model.step(st, op)
                evals += 1
                nseq += 1
                for f in fails:
                    failures.append(dict(f, seed=seed, ops=list(path) + [op]))
                if rest > 1 and not st.broken:
                    rec(path + [op], rest - 1)
        st = model.new_state(seed)
        outcome, fails = model.step(st, first)
        evals += 1
        nseq += 1
        for f in fails:
            failures.append(dict(f, seed=seed, ops=[first]))
        if rest >= 1 and not st.broken:
            rec([first], rest)
        return {'evals': evals, 'failures': failures, 'sequences': nseq}
    finally:
        model.teardown()


def _walk(task):
    modname, name, seed, rseed, length = task
    model = _model(modname, name)
    model.setup()
    rnd = random.Random(rseed)
    failures = []
    evals = 0
    restarts = 0
    outcomes = Counter()
    try:
        st = model.new_state(seed)
        history = []
        for _ in range(length):
            pool = model.ops(st)
            op = pool[rnd.randrange(len(pool))]
            outcome, fails = model.step(st, op)
            history.append(op)
            evals += 1
            outcomes[outcome] += 1
            for f in fails:
                failures.append(dict(f, seed=seed, ops=list(history)))
            if st.broken:
                st = model.new_state(seed)
                history = []
                restarts += 1
        return {'evals': evals, 'failures': failures, 'restarts': restarts, 'outcomes': dict(outcomes)}
    finally:
        model.teardown()


def _pool(ctx):
    import multiprocessing
    return multiprocessing.get_context('fork').Pool(max(1, ctx.jobs))


def _report(ctx, failures, known_witness):
    """route failures: known classes to their finding, everything else is a violation (deduplicated per clause + key)"""
    seen = set()
    for f in failures:
        k = (f['clause'], f.get('key'), f.get('known_id'))
        if k in seen:
            continue
        seen.add(k)
        ctx.violation('bounded: ' + f['clause'], f'seed {f["seed"]!r}, operations {f["ops"]!r}: {f["detail"]}', True,
                      {'seed': f['seed'], 'ops': f['ops'], 'model': f.get('model')}, known_id=f.get('known_id'))
        if f.get('known_id'):
            known_witness.setdefault(f['known_id'], {'seed': f['seed'], 'ops': f['ops']})


def explore(ctx, modname, name, seeds, depth, unmerged_depth=0, label=None, samples=None):
    """breadth-first exploration to `depth` operations with state merging (+ complete unmerged enumeration to unmerged_depth)"""
    evals = 0
    failures = []
    triples = set()
    outcomes = Counter()
    states_per_level = []
    maxpool = 0
    nseq_unmerged = 0
    with _pool(ctx) as pool:
        visited = [set() for _ in seeds]
        frontier = [(i, s, []) for i, s in enumerate(seeds)]
        for level in range(depth):
            last = level == depth - 1
            tasks = [(modname, name, i, s, p, not last) for i, s, p in frontier]
            states_per_level.append(len(tasks))
            results = pool.map(_expand, tasks, chunksize=max(1, len(tasks) // (ctx.jobs * 8) or 1))
            nxt = []
            for (i, s, p), r in zip(frontier, results):
                evals += r['evals']
                failures.extend(r['failures'])
                triples |= r['triples']
                outcomes.update(r['outcomes'])
                maxpool = max(maxpool, r['pool'])
                for fp, path in r['children']:
                    if fp not in visited[i]:
                        visited[i].add(fp)
                        nxt.append((i, s, path))
            frontier = nxt
            if not frontier:
                break
        if unmerged_depth:
            model = _model(modname, name)
            model.setup()
            try:
                tasks = []
                for s in seeds:
                    st = model.new_state(s)
                    for op in model.ops(st):
                        tasks.append((modname, name, s, op, unmerged_depth - 1))
            finally:
                model.teardown()
            if unmerged_depth >= 1:
                for r in pool.map(_unmerged, tasks, chunksize=4):
                    evals += r['evals']
                    nseq_unmerged += r['sequences']
                    failures.extend(r['failures'])
    known_witness = {}
    _report(ctx, failures, known_witness)
    rec = {'name': label or f'{name}: operation sequences', 'evaluations': evals, 'distinct_nontrivial': len(triples),
           'rule': f'every pool operation run in every distinct observable state reachable by < {depth} operations from {len(seeds)} seed states '
                   f'(= all sequences of <= {depth} operations, merged when they reach the same fingerprint; states per level {states_per_level}; '
                   f'largest pool {maxpool} operations); '
                   + (f'plus all {nseq_unmerged} sequences of <= {unmerged_depth} operations without merging; ' if unmerged_depth >= 1 else '')
                   + 'contract evaluated after every operation, accepted or rejected; distinct = (state class, operation without indexes, outcome)',
           'samples': samples or [], 'bound': f'sequences of <= {depth} operations over the pool; rule objects of fixed text per kind', 'exhaustive': False,
           'outcomes': dict(outcomes)}
    ctx.bounded.append(rec)
    return known_witness


def walks(ctx, modname, name, seeds, n, length, label=None):
    tasks = []
    for k in range(n):
        tasks.append((modname, name, seeds[k % len(seeds)], ctx.seed * 1000003 + k, length))
    evals = 0
    failures = []
    restarts = 0
    outcomes = Counter()
    with _pool(ctx) as pool:
        for r in pool.map(_walk, tasks, chunksize=1):
            evals += r['evals']
            failures.extend(r['failures'])
            restarts += r['restarts']
            outcomes.update(r['outcomes'])
    known_witness = {}
    _report(ctx, failures, known_witness)
    ctx.bounded.append({'name': label or f'{name}: random walks', 'evaluations': evals, 'distinct_nontrivial': len(outcomes),
                        'rule': f'{n} seeded random walks of {length} operations over the same pool (seed {ctx.seed}), contract after every operation; '
                                f'{restarts} restarts from the seed state after a recorded defect broke the invariant; distinct = outcomes seen',
                        'samples': [], 'bound': f'{n} walks x {length} operations (sampled, not exhaustive)', 'exhaustive': False, 'outcomes': dict(outcomes)})
    return known_witness


def replay_file(path):
    """re-run the history of a replay file (replays/C09-k.json, replays/C15-k.json) step by step on fresh objects and print what the contract says"""
    import json
    with open(path) as f:
        d = json.load(f)
    inp = d['inputs']
    prop, pool = inp['model'].split('.')
    modname = 'bounded.' + prop.lower()
    model = _model(modname, pool)

    def tup(x):
        return tuple(tup(y) for y in x) if isinstance(x, list) else x
    seed = inp['seed']
    seed = tuple(seed) if isinstance(seed, list) else seed
    model.setup()
    try:
        st = model.new_state(seed)
        for op in inp['ops']:
            outcome, fails = model.step(st, tup(op))
            print(tup(op), '->', outcome)
            for fl in fails:
                print('    FAIL', fl['clause'], '|', fl['detail'][:400], '| known:', fl.get('known_id'))
    finally:
        model.teardown()


if __name__ == '__main__':
    import sys
    replay_file(sys.argv[1])
