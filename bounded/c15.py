"""C15 bounded stand-in: namespace declarations and namespaced selectors stay consistent - a run-time contract on the REAL
CSSStyleSheet.namespaces / @namespace rules / Selector objects, evaluated after every operation of every sequence of namespace
operations up to a bound (driver: bounded/histories.py). A state is two sheets A and B and a slot for one detached rule.

Oracle (from the statement, independent of the code under test):
  mapping     set(sheet.namespaces.items()) == effective(@namespace rules read through cssRules): for every URI its LAST rule,
              one prefix per URI; the dict-like accessors (keys, values, in, [], len, prefixForNamespaceURI) agree with items()
  declared    every namespace URI held by a selector of a reachable style rule is a value of the mapping
  removal     an operation that removes or re-targets a declaration leaves no used URI undeclared (it is rejected instead)
  pairs       every selector keeps the (namespace URI, local name) pairs it had when it was written: p|e -> (URI bound to p at that
              moment, e), *|e -> (any, e), |e -> ('', e), e -> (default namespace at that moment or any, e); unprefixed attributes
              carry no namespace. The expected pairs come from the construction of the selector text and from the effective
              @namespace rules at the moment of writing, never from the selector parser
  reresolve   parse(serialise(sheet)) has the same mapping, the same number of style rules and every selector resolves to the same pairs
  wellformed  the text of every @namespace rule parses back to one @namespace rule with the same prefix and URI
  undeclared  a selector using a prefix that is not declared is rejected (nothing is added / changed); a selector whose prefixes are all
              declared is not refused as undeclared (prefixes are case-sensitive)
  detached    a detached rule (the slot: a style rule, or the style rules inside a detached @media rule) keeps its pairs, carries a
              declaration for every namespace URI its selectors use, and its own serialisation re-resolves to the same pairs: read
              structurally (every name in a namespace is written with a prefix - or unprefixed as the default -, '|name' only for no
              namespace, '*|name' only for any; one URI per prefix) and parsed again under the namespaces the rule carries - whatever
              happens to the sheet it came from afterwards

Provenance axis (ROUTES x FORMS): a selector can enter an attached rule with the sheet text or through the DOM (rule.selectorText,
selectorList.selectorText, Selector.selectorText, selectorList.appendSelector / append, item assignment selectorList[i] = text, rule.cssText),
and every setter that documents it takes the text alone or the pair (text, {prefix: URI}) - on an attached object the sheet's own
@namespace rules decide, whatever the caller's dictionary says (PRIVATE binds every prefix of the pool to ANOTHER URI than any seed sheet).
A seed may name a route (+ 'ns' for the pair form) as sixth element: every style rule of sheet A (also inside @media) is then re-written
through that route with its own text before the history starts. The pool 'forms' has every route x form x selector as an operation
of the history itself (next to the mapping edits), so a write through any route happens in every reachable namespace state.

Text axis (ns_text_seeds): the namespace history can also be in the parsed text itself - a prefix or the default namespace declared twice
(the parser then re-targets the earlier rule), @namespace rules with a comment at every position and the URI as string or url().
Such seed sheets are judged like every other state: the expected declarations and pairs come from the construction of the text.
"""
import logging
import re
import xml.dom

URIS = ['urn:a', 'urn:b']
PREFIXES = ['', 'p', 'Q']   # prefixes are case-sensitive: one of them is upper-case
ANY = '*'

# selector pool: text -> components in document order. ('pre', prefix, name) | ('any', name) | ('none', name) | ('plain', name)
SEL = {
    'p|e': [('pre', 'p', 'e')],
    'Q|f': [('pre', 'Q', 'f')],
    '*|e': [('any', 'e')],
    '|e': [('none', 'e')],
    'e': [('plain', 'e')],
    'p|*': [('pre', 'p', '*')],
    '*': [('plain', '*')],
    'e[p|a]': [('plain', 'e'), ('pre', 'p', 'a')],
    'e[a]': [('plain', 'e')],
    'p|e Q|f': [('pre', 'p', 'e'), ('pre', 'Q', 'f')],
    '*|e:not(Q|f)': [('any', 'e'), ('pre', 'Q', 'f')],   # the only use of Q may be a type selector inside :not()
}
FULL_SEL = ['p|e', 'Q|f', '*|e', '|e', 'e', 'p|*', '*', 'e[p|a]', 'e[a]', 'p|e Q|f', '*|e:not(Q|f)']
CORE_SEL = ['p|e', 'Q|f', '*|e', '|e', 'e', '*|e:not(Q|f)']
OWN = {'p': 'urn:a', 'Q': 'urn:b'}   # the private namespace dict of selectors built detached
OBJ_SEL = ['p|e', 'Q|f', 'e[p|a]']
SHEET_TEXTS = [
    ('@namespace Q "urn:a"; @namespace "urn:b"; Q|e, f { left: 0 } |g { left: 0 }', {'Q': 'urn:a', '': 'urn:b'}, [['Q|e', 'f'], ['|g']]),
    # one URI declared twice: the last declaration wins
    ('@namespace p "urn:a"; @namespace Q "urn:a"; Q|e { left: 0 }', {'Q': 'urn:a'}, [['Q|e']]),
]
# a text that is refused in raising mode after an @namespace rule and a namespaced style rule have been read (late @import)
REFUSED_TEXT = '@namespace Q "urn:a"; Q|e { left: 0 } @import "late.css";'
# extra selector texts used only inside SHEET_TEXTS
SEL.update({'Q|e': [('pre', 'Q', 'e')], 'f': [('plain', 'f')], '|g': [('none', 'g')]})

# seeds: (text of sheet A, declarations of A, selector keys per style rule of A (top level, then inside @media), text of B, raising)
SEEDS = [
    ('', {}, [], '', True),
    ('@namespace p "urn:a"; p|e { left: 0 }', {'p': 'urn:a'}, [['p|e']], '@namespace r "urn:a";', True),
    ('@namespace "urn:a"; @namespace Q "urn:b"; e, Q|f { left: 0 } @media print { Q|f { top: 0 } }', {'': 'urn:a', 'Q': 'urn:b'}, [['e', 'Q|f'], ['Q|f']],
     '@namespace Q "urn:a";', True),
    ('/*c*/ @namespace p "urn:a"; @namespace Q "urn:b"; p|e Q|f { left: 0 } *|e, |e { top: 0 }', {'p': 'urn:a', 'Q': 'urn:b'}, [['p|e Q|f'], ['*|e', '|e']], '', True),
    ('@namespace p "urn:a"; p|e { left: 0 }', {'p': 'urn:a'}, [['p|e']], '@namespace r "urn:a";', False),
]

# ---- seed sheets whose TEXT carries the namespace history: @namespace rules with a comment at every position, URI as string or url(),
# and prefixes (or the default namespace) declared again later in the same text.  CSS: the later declaration of a prefix replaces the
# earlier one; the expected declarations and pairs come from this construction.
NS_COMMENT_POSITIONS = (0, 1, 2)    # 0: after the at-keyword, 1: after the prefix (prefixed rules only), 2: after the URI, before ';'
RETIRED_URI = 'urn:c'               # the URI a re-declared prefix loses again within the seed text (never in the operation pool)
# (declarations in text order, selector keys of the one style rule that follows); the FIRST declaration carries the comment / URI-form axes
NS_TEXT_PATTERNS = [
    ('prefix declared twice', [('p', RETIRED_URI), ('p', 'urn:a')], ['p|e', 'e[p|a]']),
    ('default namespace declared twice', [('', RETIRED_URI), ('', 'urn:a')], ['e', '*|e', '|e']),
    ('prefix declared twice around another declaration', [('Q', RETIRED_URI), ('p', 'urn:b'), ('Q', 'urn:a')], ['Q|f', 'p|e']),
    ('prefix declared twice with one URI', [('p', 'urn:a'), ('p', 'urn:a')], ['p|e']),
    ('every prefix declared once', [('p', 'urn:a'), ('', 'urn:b')], ['p|e', 'e']),
]


def ns_rule_text(prefix, uri, mask=(), form='string'):
    """the text of one @namespace rule with a comment at every position in `mask`"""
    parts = ['@namespace']
    if 0 in mask:
        parts.append('/*0*/')
    if prefix:
        parts.append(prefix)
        if 1 in mask:
            parts.append('/*1*/')
    parts.append(f'"{uri}"' if form == 'string' else f'url({uri})')
    if 2 in mask:
        parts.append('/*2*/')
    return ' '.join(parts) + ';'


def _masks(prefix):
    pos = [x for x in NS_COMMENT_POSITIONS if prefix or x != 1]
    return [tuple(x for j, x in enumerate(pos) if bits >> j & 1) for bits in range(2 ** len(pos))]


def ns_text_seeds(full_masks_only=False):
    """every pattern x every subset of comment positions in its first @namespace rule x (later rules bare / commented everywhere) x URI form"""
    out = []
    for _, decls, keys in NS_TEXT_PATTERNS:
        decl = {}
        for px, uri in decls:
            decl[px] = uri
        first, rest = decls[0], decls[1:]
        masks = _masks(first[0])
        for mask in (masks[-1:] if full_masks_only else masks):
            for later in ((), NS_COMMENT_POSITIONS):
                for form in ('string', 'url'):
                    text = ' '.join([ns_rule_text(first[0], first[1], mask, form)] + [ns_rule_text(px, uri, later) for px, uri in rest])
                    out.append((text + ' ' + ', '.join(keys) + ' { left: 0 }', dict(decl), [list(keys)], '', True))
    return out


# how a selector gets into an attached rule through the DOM (the text route is the seed text itself)
ROUTES = ['rule.selectorText', 'selectorList.selectorText', 'Selector.selectorText', 'appendSelector', 'selectorList[i]', 'rule.cssText']
# argument forms: the text alone, or the documented pair (text, {prefix: URI}). Item assignment documents the text (or a Selector) only.
PAIR_ROUTES = [r for r in ROUTES if r != 'selectorList[i]']
# the caller's dictionary of the pair form: every prefix of the pool (and the default) bound to another URI than in any seed sheet, plus
# a prefix no sheet declares - "given namespaces are ignored if this object is attached to a CSSStyleSheet"
PRIVATE = {'': 'urn:c', 'p': 'urn:b', 'Q': 'urn:a', 'r': 'urn:c'}
VIAS = list(ROUTES) + [r + '+ns' for r in PAIR_ROUTES]


def via_seeds(seeds):
    """every seed x every DOM route x every argument form"""
    return [tuple(s[:5]) + (via,) for s in seeds for via in VIAS]


def rewrite(rule, via):
    """write the selectors of an attached style rule once more, with their own text, through the DOM route `via` ('+ns': as the pair
    (text, PRIVATE))"""
    route, _, form = via.partition('+')

    def arg(text):
        return (text, dict(PRIVATE)) if form == 'ns' else text
    if route == 'rule.selectorText':
        rule.selectorText = arg(rule.selectorText)
    elif route == 'selectorList.selectorText':
        rule.selectorList.selectorText = arg(rule.selectorText)
    elif route == 'Selector.selectorText':
        for sel in list(rule.selectorList):
            sel.selectorText = arg(sel.selectorText)
    elif route == 'appendSelector':
        for text in [sel.selectorText for sel in rule.selectorList]:
            rule.selectorList.appendSelector(arg(text))      # an equal selector is replaced by the new object
    elif route == 'selectorList[i]':
        for i, text in enumerate([sel.selectorText for sel in rule.selectorList]):
            rule.selectorList[i] = arg(text)
    elif route == 'rule.cssText':
        rule.cssText = arg(rule.cssText)
    else:
        raise KeyError(via)


# the pool 'forms': every way of writing a selector into the first style rule of sheet A as an operation of the history
WRITE_ROUTES = ['rule.selectorText', 'selectorList.selectorText', 'Selector.selectorText', 'appendSelector', 'append', 'selectorList[i]', 'rule.cssText']
WRITE_FORMS = [(r, 'text') for r in WRITE_ROUTES] + [(r, 'ns') for r in WRITE_ROUTES if r != 'selectorList[i]']
FORM_SEL = ['p|e', 'Q|f', 'e', 'e[p|a]']
WHOLE = ('rule.selectorText', 'selectorList.selectorText', 'rule.cssText')      # routes that replace the whole selector list
FIRST = ('Selector.selectorText', 'selectorList[i]')                            # routes that replace the first selector


def write(rule, route, form, text):
    """write selector `text` into the attached style rule through `route`, as the text alone or as the pair (text, PRIVATE)"""
    body = ' { left: 0 }' if route == 'rule.cssText' else ''
    arg = (text + body, dict(PRIVATE)) if form == 'ns' else text + body
    if route == 'rule.selectorText':
        rule.selectorText = arg
    elif route == 'selectorList.selectorText':
        rule.selectorList.selectorText = arg
    elif route == 'Selector.selectorText':
        rule.selectorList[0].selectorText = arg
    elif route == 'appendSelector':
        rule.selectorList.appendSelector(arg)
    elif route == 'append':
        rule.selectorList.append(arg)
    elif route == 'selectorList[i]':
        rule.selectorList[0] = arg
    elif route == 'rule.cssText':
        rule.cssText = arg
    else:
        raise KeyError(route)


def _nofetch(url):
    return None


class Undeclared(Exception):
    pass


def expect_pairs(key, mapping):
    """pairs a selector text denotes under `mapping` (prefix -> URI), by construction of the text"""
    out = []
    for c in SEL[key]:
        if c[0] == 'pre':
            if c[1] not in mapping:
                raise Undeclared(c[1])
            out.append((mapping[c[1]], c[2]))
        elif c[0] == 'any':
            out.append((ANY, c[1]))
        elif c[0] == 'none':
            out.append(('', c[1]))
        else:
            out.append((mapping.get('') or ANY, c[1]))
    return out


def norm(uri):
    import cssutils
    if uri is None or uri == cssutils._ANYNS:
        return ANY
    return uri


def pairs_of(selector):
    return [(norm(it.value[0]), it.value[1]) for it in selector.seq if isinstance(it.value, tuple)]


def rule_pairs(rule):
    """the selectors of a rule as a sorted list of pair tuples (a selector list drops duplicates, so it is compared as a set)"""
    return sorted({tuple(pairs_of(sel)) for sel in rule.selectorList})


def spelling_limits(rule, default):
    """what the pairs of `rule` become if exactly the two recorded spelling defects act on a sheet with default namespace `default`:
    a pair with URI None ('no default namespace when written' = any namespace) is written '|name' (no namespace) instead of '*|name';
    an attribute in the namespace that is the sheet's default is written without prefix (= no namespace). Returns (pairs, reasons)"""
    reasons = set()
    out = set()
    for sel in rule.selectorList:
        ps = []
        for it in sel.seq:
            if not isinstance(it.value, tuple):
                continue
            uri, nm = it.value
            if default and it.type == 'attribute-selector' and uri == default:
                reasons.add('attribute-in-default-namespace')
                continue
            if default and uri is None:
                reasons.add('any-written-as-none')
                ps.append(('', nm))
            else:
                ps.append((norm(uri), nm))
        out.add(tuple(ps))
    return sorted(out), reasons


def pairset(list_of_pairlists):
    return sorted({tuple(x) for x in list_of_pairlists})


def style_rules(sheet):
    out = []
    for r in sheet.cssRules:
        if r.type == r.STYLE_RULE:
            out.append(r)
        elif r.type == r.MEDIA_RULE:
            out.extend(x for x in r.cssRules if x.type == x.STYLE_RULE)
    return out


def ns_rules(sheet):
    return [r for r in sheet.cssRules if r.type == r.NAMESPACE_RULE]


def effective(sheet):
    """set of (prefix, URI): for every URI the last @namespace rule declaring it"""
    last = {}
    for r in ns_rules(sheet):
        last[r.namespaceURI] = r.prefix
    return {(p, u) for u, p in last.items()}


def as_dict(pairs):
    """prefix -> URI if no prefix is used twice, else None"""
    d = {}
    for p, u in pairs:
        if p in d:
            return None
        d[p] = u
    return d


def mapping(sheet):
    try:
        return set(sheet.namespaces.items())
    except Exception as e:
        return {('<error>', type(e).__name__)}


def slot_rules(slot):
    """the style rules a detached rule consists of"""
    if slot is None:
        return []
    if slot.typeString == 'STYLE_RULE':
        return [slot]
    if slot.typeString == 'MEDIA_RULE':
        return [x for x in slot.cssRules if x.type == x.STYLE_RULE]
    return []


def own_namespaces(rule):
    """prefix -> URI a detached style rule carries (the namespaces its selector list answers with while no sheet is there)"""
    try:
        return dict(rule.selectorList._namespaces.items())
    except Exception as e:
        return {'<error>': type(e).__name__}


def snapshot_conflict(rule):
    """signature of the recorded finding C15-detached-stale-prefix-snapshots: two selectors of a detached rule carry namespace snapshots
    that bind one prefix to different URIs (they were written before and after the sheet re-used that prefix), or one of them binds the default
    namespace while another was written when there was none and holds an unprefixed name. None or a message"""
    seen = {}
    nodefault = None      # a selector written while there was no default namespace: it holds an unprefixed name in any namespace, (None, name)
    for sel in rule.selectorList:
        try:
            snap = dict(sel._namespaces.items())
        except Exception:
            return None
        for p, u in snap.items():
            if seen.setdefault(p, (u, sel.selectorText))[0] != u:
                return (f'the selectors carry snapshots that disagree on prefix {p!r}: {seen[p][1]!r} was written when it meant {seen[p][0]!r}, '
                        f'{sel.selectorText!r} when it meant {u!r}')
        if '' not in snap and any(isinstance(it.value, tuple) and it.value[0] is None for it in sel.seq):
            nodefault = sel.selectorText
    if nodefault is not None and '' in seen:
        return (f"the selectors carry snapshots that disagree on the default namespace: {seen[''][1]!r} was written when it was {seen[''][0]!r}, "
                f'{nodefault!r} when there was none')
    return None


_NAME = re.compile(r'(?<![\w|*:])(?:(\w+|\*)?(\|))?(\w+|\*)')


def written_forms(text):
    """the names of a serialised selector of the pool in document order, read without any parser of the code under test:
    ('pre', prefix) | ('any',) | ('none',) | ('plain',) each with the name and whether it is an attribute name"""
    out = []
    for m in _NAME.finditer(text):
        attr = text[:m.start()].rstrip().endswith('[')
        if m.group(2) is None:
            form = ('plain',)
        elif m.group(1) is None:
            form = ('none',)
        elif m.group(1) == '*':
            form = ('any',)
        else:
            form = ('pre', m.group(1))
        out.append((form, m.group(3), attr))
    return out


def structural_mismatch(rule):
    """None if the text of every selector of the rule denotes the pairs the selector holds under SOME binding prefix -> URI, the same for
    the whole rule (unprefixed type names: the default namespace of that binding, or any namespace if it has none); else a message"""
    bind = {}     # prefix ('' = default) -> URI
    for sel in rule.selectorList:
        text = sel.selectorText
        forms = [f for f in written_forms(text) if not (f[2] and f[0] == ('plain',))]      # unprefixed attribute names carry no pair
        pairs = pairs_of(sel)
        if [f[1] for f in forms] != [nm for _, nm in pairs]:
            return f'{text!r} names {[f[1] for f in forms]}, the selector holds {pairs}'
        for (form, nm, attr), (uri, _) in zip(forms, pairs):
            if uri == ANY:
                ok = form == ('any',) or (form == ('plain',) and bind.setdefault('', ANY) == ANY)
            elif uri == '':
                ok = form == ('none',)
            elif form == ('plain',):
                ok = not attr and bind.setdefault('', uri) == uri
            else:
                ok = form[0] == 'pre' and bind.setdefault(form[1], uri) == uri
            if not ok:
                return f'{text!r} writes {nm!r} as {form}, the selector holds {(uri, nm)!r}' + (f' (bindings so far {bind})' if bind else '')
    # (two prefixes for one URI are fine here: a selector written before a re-binding keeps the prefix of its own snapshot once detached;
    #  'one prefix per URI' is said of a sheet's mapping)
    return None


class State:
    def __init__(self):
        self.A = self.B = None
        self.slot = None
        self.expected = {}   # id(rule) -> [[(uri, name), ...] per selector]
        self.keep = []
        self.broken = False
        self.other = 0


class Model:
    """pool = 'core', 'full' or 'forms' (mapping edits + every selector-writing route x argument form)"""

    def __init__(self, pool):
        self.pool = pool
        self._saved = None
        self._reparse = {}

    def setup(self):
        import cssutils
        import cssutils.util
        self._saved = (cssutils.log.raiseExceptions, cssutils.util._defaultFetcher, cssutils.log.getEffectiveLevel())
        cssutils.log.setLevel(logging.FATAL)
        cssutils.ser.prefs.useDefaults()
        cssutils.ser.prefs.keepEmptyRules = True
        cssutils.util._defaultFetcher = _nofetch

    def teardown(self):
        import cssutils
        import cssutils.util
        if self._saved:
            cssutils.log.raiseExceptions, cssutils.util._defaultFetcher, lvl = self._saved
            cssutils.log.setLevel(lvl)
        cssutils.ser.prefs.useDefaults()

    def new_state(self, seed):
        import cssutils
        seed = SEEDS[seed] if isinstance(seed, int) else seed
        ta, decl, sels, tb, raising = seed[:5]
        via = seed[5] if len(seed) > 5 else None
        st = State()
        p = cssutils.CSSParser(fetcher=_nofetch)
        st.A = p.parseString(ta)
        st.B = p.parseString(tb)
        cssutils.log.raiseExceptions = bool(raising)
        rules = style_rules(st.A)
        st.seed_problem = None
        if len(rules) != len(sels):
            st.seed_problem = f'seed text {ta!r} has {len(sels)} style rules with declared prefixes, {len(rules)} were read'
        elif mapping(st.A) != set(decl.items()):
            st.seed_problem = ('the last declaration of a URI wins',
                               f'seed text {ta!r} declares {sorted(decl.items())} (a later declaration replaces an earlier one), the mapping is {sorted(mapping(st.A), key=repr)}')
        else:
            for r, keys in zip(rules, sels):
                st.expected[id(r)] = pairset(expect_pairs(k, decl) for k in keys)
            if via:
                for r in rules:
                    try:
                        rewrite(r, via)
                    except Exception as e:
                        st.seed_problem = f'seed text {ta!r}: writing {r.selectorText!r} once more through {via} raised {type(e).__name__}: {e}'
                        break
                    if rule_pairs(r) != st.expected[id(r)]:
                        st.seed_problem = (f'seed text {ta!r}: {r.selectorText!r} written once more through {via} holds {rule_pairs(r)}, '
                                           f'the text denotes {st.expected[id(r)]}')
                        break
        st.keep.append(rules)
        return st

    def fingerprint(self, st):
        def one(s):
            try:
                text = s.cssText.decode('utf-8', 'replace')
            except Exception as e:
                text = f'<{type(e).__name__}>'
            return (text, sorted(mapping(s), key=repr), type(s.namespaces).__name__, [rule_pairs(r) for r in style_rules(s)],
                    [(r.prefix, r.namespaceURI) for r in ns_rules(s)])
        slot = None
        if st.slot is not None:
            slot = (st.slot.typeString, st.slot.cssText, rule_pairs(st.slot) if st.slot.typeString == 'STYLE_RULE' else None,
                    [sorted(own_namespaces(r).items()) for r in slot_rules(st.slot)])
        return repr((one(st.A), one(st.B), slot))

    def abstract(self, st):
        return repr(([r.typeString for r in st.A.cssRules], len(mapping(st.A)), [r.typeString for r in st.B.cssRules], st.slot is not None))

    # ---- pool
    def ops(self, st):
        A = st.A
        n = len(A.cssRules)
        nsr = ns_rules(A)
        k = len(nsr)
        after_ns = max([i for i, r in enumerate(A.cssRules) if r.type == r.NAMESPACE_RULE], default=-1) + 1
        full = self.pool == 'full'
        out = []
        if self.pool == 'forms':
            for p in PREFIXES:
                for u in URIS:
                    out.append(('ns_set', p, u))
                out.append(('ns_del', p))
            first = next((i for i, r in enumerate(A.cssRules) if r.type == r.STYLE_RULE), None)
            if first is not None:
                for route, form in WRITE_FORMS:
                    for key in FORM_SEL:
                        out.append(('write', first, route, form, key))
                if st.slot is None:
                    out.append(('detach', first))
            if st.slot is not None:
                out.append(('attach', 'A'))
                out.append(('attach', 'B'))
            return out
        for p in PREFIXES:
            for u in URIS:
                out.append(('ns_set', p, u))
                out.append(('add_ns', p, u))
                if full:
                    for i in sorted({0, after_ns}):
                        out.append(('ins_ns', p, u, i))
            out.append(('ns_del', p))
        for i in range(n):
            out.append(('del_rule', i))
        for key in (FULL_SEL if full else CORE_SEL):
            out.append(('add_sel', key))
        if full:
            for key in OBJ_SEL:
                out.append(('add_sel_obj', key))
        first = next((i for i, r in enumerate(A.cssRules) if r.type == r.STYLE_RULE), None)
        if first is not None:
            for key in (['Q|f', 'p|e', 'e', '|e'] if full else ['Q|f', 'e']):
                out.append(('set_sel', first, key))
            for key in (['p|e', 'Q|f', 'e'] if full else ['Q|f']):
                out.append(('append_sel', first, key))
        for j in range(k):
            for p in (['Q', '', 'p'] if full else ['Q']):
                out.append(('rename', j, p))
            if full:
                out.append(('ns_text', j))
        if st.slot is None:
            for i in range(n):
                if A.cssRules[i].typeString in ('STYLE_RULE', 'NAMESPACE_RULE', 'MEDIA_RULE'):
                    out.append(('detach', i))
        else:
            out.append(('attach', 'A'))
            out.append(('attach', 'B'))
        for i in range(n):
            if A.cssRules[i].typeString == 'STYLE_RULE':
                out.append(('move', i))
        out.append(('b_set', 'p', 'urn:b'))
        if full:
            out.append(('b_set', 'r', 'urn:a'))
            out.append(('b_del', 'r'))
            out.append(('back',))
            for t in range(len(SHEET_TEXTS)):
                out.append(('sheet_text', t))
            out.append(('sheet_text_refused',))
        return out

    def run(self, st, op, note):
        """performs the operation; note collects what the oracle needs: new selectors written and where"""
        from cssutils import css
        A, B = st.A, st.B
        k = op[0]
        if k == 'ns_set':
            A.namespaces[op[1]] = op[2]
        elif k == 'ns_del':
            del A.namespaces[op[1]]
        elif k == 'add_ns':
            A.add(css.CSSNamespaceRule(namespaceURI=op[2], prefix=op[1]))
        elif k == 'ins_ns':
            A.insertRule(css.CSSNamespaceRule(namespaceURI=op[2], prefix=op[1]), op[3])
        elif k == 'del_rule':
            A.deleteRule(op[1])
        elif k == 'add_sel':
            A.add(op[1] + ' { left: 0 }')
        elif k == 'add_sel_obj':
            r = css.CSSStyleRule(selectorText=(op[1], dict(OWN)), style='left: 0')
            note['obj'] = r
            A.add(r)
        elif k == 'set_sel':
            A.cssRules[op[1]].selectorText = op[2]
        elif k == 'append_sel':
            A.cssRules[op[1]].selectorList.appendSelector(op[2])
        elif k == 'write':
            write(A.cssRules[op[1]], op[2], op[3], op[4])
        elif k == 'rename':
            ns_rules(A)[op[1]].prefix = op[2]
        elif k == 'ns_text':
            ns_rules(A)[op[1]].cssText = '@namespace Q "urn:b";'
        elif k == 'detach':
            r = A.cssRules[op[1]]
            A.deleteRule(op[1])
            st.slot = r
        elif k == 'attach':
            sheet = A if op[1] == 'A' else B
            r = st.slot
            before = len(sheet.cssRules)
            sheet.add(r)
            if any(x is r for x in sheet.cssRules) or len(sheet.cssRules) != before:
                st.slot = None
        elif k == 'move':
            r = A.cssRules[op[1]]
            A.deleteRule(r)
            st.slot = r
            B.add(r)
            st.slot = None
        elif k == 'back':
            # move the first style rule of B to A
            r = next(x for x in B.cssRules if x.type == x.STYLE_RULE)
            B.deleteRule(r)
            st.slot = r
            A.add(r)
            st.slot = None
        elif k == 'b_set':
            B.namespaces[op[1]] = op[2]
        elif k == 'b_del':
            del B.namespaces[op[1]]
        elif k == 'sheet_text':
            A.cssText = SHEET_TEXTS[op[1]][0]
        elif k == 'sheet_text_refused':
            A.cssText = REFUSED_TEXT
        else:
            raise KeyError(op)

    def _guarded(self, st, op, note):
        try:
            self.run(st, op, note)
            return 'accepted'
        except xml.dom.DOMException as e:
            return type(e).__name__
        except StopIteration:
            return 'not-applicable'
        except Exception as e:
            import traceback
            last = traceback.extract_tb(e.__traceback__)[-1].filename
            if 'cssutils' not in last and 'more_itertools' not in last:
                raise
            return 'crash:' + type(e).__name__

    def _write_oracle(self, st, op, note, pre):
        """update the expected pairs for selectors written by `op`; returns the 'undeclared' verdict: None or a message"""
        k = op[0]
        A = st.A
        eff = pre['effA']        # prefix -> URI before the operation (None if ambiguous)
        bad = None
        if k == 'add_sel':
            new = [r for r in style_rules(A) if id(r) not in pre['ids']]
            try:
                want = expect_pairs(op[1], eff or {})
            except Undeclared as u:
                want = None
                if new:
                    bad = f'prefix {u} is not declared, yet a rule with selector {op[1]!r} was added ({new[0].selectorText!r})'
            if want is not None:
                for r in new:
                    st.expected[id(r)] = pairset([want])
                if not new and note.get('outcome') == 'NamespaceErr':
                    note['refused_declared'] = f'all prefixes of {op[1]!r} are declared ({sorted((eff or {}).items())}), yet it was refused with NamespaceErr'
            st.keep.append(new)
        elif k == 'add_sel_obj':
            r = note.get('obj')
            if r is not None:
                st.expected[id(r)] = pairset([expect_pairs(op[1], OWN)])
                st.keep.append(r)
        elif k in ('set_sel', 'append_sel'):
            r = A.cssRules[op[1]]
            was = pre['pairs'].get(id(r))
            now = rule_pairs(r)
            try:
                want = expect_pairs(op[2], eff or {})
            except Undeclared as u:
                want = None
                if now != was:
                    bad = f'prefix {u} is not declared, yet selector {op[2]!r} was taken: {r.selectorText!r}'
            if want is not None and now == was and note.get('outcome') == 'NamespaceErr':
                note['refused_declared'] = f'all prefixes of {op[2]!r} are declared ({sorted((eff or {}).items())}), yet it was refused with NamespaceErr'
            if want is not None and now != was:
                if k == 'set_sel':
                    st.expected[id(r)] = pairset([want])
                elif id(r) in st.expected:
                    st.expected[id(r)] = pairset(list(st.expected[id(r)]) + [want])
        elif k == 'write':
            r = A.cssRules[op[1]]
            route, form, key = op[2], op[3], op[4]
            was = pre['selpairs'].get(id(r), [])
            now = [tuple(pairs_of(sel)) for sel in r.selectorList]
            how = f'{route} = ({key!r}, {PRIVATE})' if form == 'ns' else f'{route} = {key!r}'
            try:
                want = expect_pairs(key, eff or {})
            except Undeclared as u:
                want = None
                note['undeclared'] = str(u)
                if [x for x in now if x not in was]:      # a selector that was not there before has been taken
                    bad = (f'prefix {u} is not declared in the sheet ({sorted((eff or {}).items())}), yet {how} was taken: {r.selectorText!r} holds {now}'
                           + (' (a dictionary handed along with the text does not declare anything in a sheet)' if form == 'ns' else ''))
            if want is not None and now == was and note.get('outcome') == 'NamespaceErr':
                note['refused_declared'] = f'all prefixes of {key!r} are declared ({sorted((eff or {}).items())}), yet {how} was refused with NamespaceErr'
            if want is not None and note.get('outcome') == 'accepted' and id(r) in st.expected:
                # the selectors the route leaves alone keep the pairs they held before the operation
                if route in WHOLE:
                    st.expected[id(r)] = pairset([want])
                elif route in FIRST:
                    st.expected[id(r)] = pairset([want] + [list(x) for x in was[1:]])
                else:
                    st.expected[id(r)] = pairset([want] + [list(x) for x in was])
        elif k == 'sheet_text_refused' and any(id(r) not in pre['ids'] for r in style_rules(A)):
            rules = [r for r in style_rules(A) if id(r) not in pre['ids']]
            for r in rules:
                st.expected[id(r)] = pairset([expect_pairs('Q|e', {'Q': 'urn:a'})])
            st.keep.append(rules)
        elif k == 'sheet_text' and any(id(r) not in pre['ids'] for r in style_rules(A)):
            text, decl, sels = SHEET_TEXTS[op[1]]
            if mapping(A) != set(decl.items()):
                note['lastwins'] = f'text {text!r} declares {sorted(decl.items())} (last declaration of a URI wins), the mapping is {sorted(mapping(A), key=repr)}'
            rules = style_rules(A)
            if len(rules) == len(sels):
                for r, keys in zip(rules, sels):
                    st.expected[id(r)] = pairset(expect_pairs(x, decl) for x in keys)
            st.keep.append(rules)
        return bad

    def _text(self, s):
        try:
            return s.cssText.decode('utf-8', 'replace')
        except Exception as e:
            return f'<{type(e).__name__}: {e}>'

    def _pre(self, st):
        A = st.A
        rules = style_rules(A) + style_rules(st.B) + ([st.slot] if st.slot is not None and st.slot.typeString == 'STYLE_RULE' else [])
        return {'effA': as_dict(effective(A)), 'ids': {id(r) for r in rules}, 'pairs': {id(r): rule_pairs(r) for r in rules}, 'textA': self._text(A),
                'selpairs': {id(r): [tuple(pairs_of(sel)) for sel in r.selectorList] for r in rules},
                'mapA': mapping(A), 'mapB': mapping(st.B), 'nsclass': type(A.namespaces).__name__, 'keep': rules,
                'kinds': [r.typeString for r in A.cssRules], 'nsA': [(r.prefix, r.namespaceURI) for r in ns_rules(A)],
                'slot_kind': st.slot.typeString if st.slot is not None else None,
                'usedA': self._used(A), 'usedB': self._used(st.B), 'nsB': [(r.prefix, r.namespaceURI) for r in ns_rules(st.B)],
                'malformedA': self._malformed(A), 'malformedB': self._malformed(st.B)}

    def _malformed(self, sheet):
        out = 0
        for r in ns_rules(sheet):
            back = self.reparse(r.cssText)
            if back['ns'] != [(r.prefix, r.namespaceURI)] or back['kinds'] != ['NAMESPACE_RULE']:
                out += 1
        return out

    def _used(self, sheet):
        used = set()
        for r in style_rules(sheet):
            for ps in rule_pairs(r):
                used.update(u for u, _ in ps if u not in (ANY, ''))
        return used

    def apply(self, st, op):
        pre = self._pre(st)
        note = {}
        note['outcome'] = self._guarded(st, op, note)
        self._write_oracle(st, op, note, pre)
        st.keep.append(pre['keep'])

    def step(self, st, op):
        if getattr(st, 'seed_problem', None):
            st.broken = True
            clause, detail = st.seed_problem if isinstance(st.seed_problem, tuple) else ('a selector whose prefixes are declared resolves to the declared pairs', st.seed_problem)
            return 'seed', [{'clause': clause, 'detail': detail, 'key': 'seed', 'model': 'C15.' + self.pool, 'known_id': None}]
        pre = self._pre(st)
        note = {}
        outcome = self._guarded(st, op, note)
        note['outcome'] = outcome
        bad = self._write_oracle(st, op, note, pre)
        st.keep.append(pre['keep'])
        fails = []

        roots = self.roots(st, op, pre, outcome, note)

        def fail(clause, detail, breaks=True, **info):
            info.update(outcome=outcome, roots=roots)
            f = {'clause': clause, 'detail': detail, 'key': repr(histkey(op)), 'model': 'C15.' + self.pool,
                 'known_id': classify(clause, op, pre, info)}
            fails.append(f)
            if breaks:
                st.broken = True

        if bad:
            fail('a selector using an undeclared prefix is rejected', bad)
        if op[0] == 'ns_del' and outcome == 'accepted' and cssutils_raising():
            # the request to remove a declaration whose URI is used by a selector (and declared once) must be refused, not answered by doing something else
            d = dict(pre['mapA'])
            if op[1] in d and d[op[1]] in pre['usedA'] and [u for _, u in pre['nsA']].count(d[op[1]]) == 1:
                fail('removing a namespace still used by a selector is rejected', f"sheet A: del namespaces[{op[1]!r}] ({d[op[1]]!r}, used) was accepted; rule kinds before {pre['kinds']}, "
                     f"after {[r.typeString for r in st.A.cssRules]}", breaks=False, sheet='A', delreq=True)
        if note.get('refused_declared') and pre['nsclass'] == '_Namespaces':
            fail('a selector whose prefixes are declared resolves to the declared pairs', note['refused_declared'], breaks=False, sheet='A')
        if note.get('lastwins'):
            fail('the last declaration of a URI wins', note['lastwins'], sheet='A')
        import cssutils
        if op[0] in ('add_ns', 'ns_set', 'b_set') and outcome == 'accepted' and cssutils.log.raiseExceptions:
            # an accepted declaration (ordered add / mapping assignment) is the last declaration of its URI: it must be effective
            sheet, nm = (st.B, 'B') if op[0] == 'b_set' else (st.A, 'A')
            if (op[1], op[2]) not in mapping(sheet):
                fail('the last declaration of a URI wins', f'sheet {nm}: declaring prefix {op[1]!r} for {op[2]!r} was accepted, the mapping is {sorted(mapping(sheet), key=repr)} '
                     f'(before: {sorted(pre["map" + nm], key=repr)})', sheet=nm, declare=(op[1], op[2]))
        for name, sheet in (('A', st.A), ('B', st.B)):
            self.check_sheet(st, name, sheet, op, pre, fail)
        for r in slot_rules(st.slot):
            if id(r) in st.expected:
                self.check_detached(r, st.expected[id(r)], fail)
        return outcome, fails

    def check_detached(self, r, want, fail):
        """the clauses of a detached style rule (the slot itself or a style rule inside a detached @media rule)"""
        got = rule_pairs(r)
        if got != want:
            fail('a detached rule keeps its (namespace URI, local name) pairs', f'detached {r.selectorText!r}: pairs {got}, written as {want}')
            return
        own = own_namespaces(r)
        stale = snapshot_conflict(r)
        used = sorted({u for ps in want for u, _ in ps if u not in (ANY, '')})
        missing = [u for u in used if u not in own.values()]
        if missing:
            fail('a detached rule carries a declaration for every namespace URI its selectors use',
                 f'detached {r.selectorText!r} holds {want}; the namespaces it carries {own} lack {missing}' + (f'; {stale}' if stale else ''), detached=True, stale=stale)
        bad = structural_mismatch(r)
        if bad:
            fail('the serialisation of a detached rule re-resolves to the same pairs', f'detached rule: {bad}' + (f'; {stale}' if stale else ''), detached=True, stale=stale)
        text = r.cssText
        back = self.reparse_rule(text, own)
        if back != want:
            fail('the serialisation of a detached rule re-resolves to the same pairs',
                 f'detached rule {text!r} read under the namespaces it carries {own} gives {back}, written as {want}' + (f'; {stale}' if stale else ''),
                 detached=True, stale=stale)

    def roots(self, st, op, pre, outcome, note):
        """observable signatures of the recorded defects in this step: {sheet name: set of root causes}"""
        out = {'A': set(), 'B': set()}
        k = op[0]
        rejected = outcome != 'accepted'
        for name, sheet in (('A', st.A), ('B', st.B)):
            nsnow = [(r.prefix, r.namespaceURI) for r in ns_rules(sheet)]
            mine = (name == 'A' and k in ('ins_ns', 'add_ns', 'ns_set')) or (name == 'B' and k == 'b_set') or \
                (k == 'attach' and op[1] == name and pre['slot_kind'] == 'NAMESPACE_RULE')   # attaching a detached @namespace rule is an ordered add
            if mine and rejected and nsnow != pre['ns' + name]:
                out[name].add('refused-leftover')
            if ((name == 'A' and k in ('rename', 'ns_set')) or (name == 'B' and k == 'b_set')) and self._malformed(sheet) > pre['malformed' + name]:
                out[name].add('setprefix')
            if name == 'A' and k == 'ns_text' and ((rejected and nsnow != pre['nsA']) or self._malformed(sheet) > pre['malformedA']):
                out[name].add('nstext')
            if name == 'A' and k in ('rename', 'ns_text') and not rejected and nsnow != pre['nsA']:
                changed = [b for a, b in zip(pre['nsA'], nsnow) if a != b]
                if len(changed) == 1 and any(p == changed[0][0] and u != changed[0][1] for p, u in pre['mapA']):
                    out[name].add('collision')
        if pre['nsclass'] == '_SimpleNamespaces' or type(st.A.namespaces).__name__ == '_SimpleNamespaces':
            out['A'].add('parse-state')
        if k == 'write' and op[2] == 'rule.cssText' and not cssutils_raising() and note.get('undeclared') and op[1] < len(st.A.cssRules):
            r = st.A.cssRules[op[1]]
            if r.typeString == 'STYLE_RULE' and len(r.selectorList) == 0 and pre['selpairs'].get(id(r)):
                out['A'].add('csstext-emptied')
        target = {'add_sel_obj': 'A', 'move': 'B', 'back': 'A'}.get(k) or (op[1] if k == 'attach' else None)
        if target and outcome == 'accepted':
            declared = {u for _, u in pre['map' + target]}
            sheet = st.A if target == 'A' else st.B
            if self._used(sheet) - pre['used' + target] - declared:
                out[target].add('attach')
        return out

    def check_sheet(self, st, name, sheet, op, pre, fail):
        removal = op[0] in ('ns_del', 'del_rule', 'detach', 'b_del', 'ns_set', 'b_set', 'rename', 'ns_text', 'add_ns', 'ins_ns')
        m = mapping(sheet)
        eff = effective(sheet)
        # mapping == effective rules
        if m != eff:
            fail('the namespace mapping equals the effective @namespace rules (last declaration of a URI wins, one prefix per URI)',
                 f'sheet {name}: mapping {sorted(m, key=repr)}, @namespace rules {[(r.prefix, r.namespaceURI) for r in ns_rules(sheet)]} give {sorted(eff, key=repr)}',
                 sheet=name, rules=[(r.prefix, r.namespaceURI) for r in ns_rules(sheet)], mapping=sorted(m, key=repr))
        else:
            ns = sheet.namespaces
            d = dict(m)
            try:
                ok = (sorted(ns.keys()) == sorted(d) and sorted(ns.values()) == sorted(d.values()) and len(ns) == len(d) and sorted(iter(ns)) == sorted(d)
                      and all(p in ns and ns[p] == u and ns.get(p, None) == u for p, u in d.items())
                      and all(ns[ns.prefixForNamespaceURI(u)] == u for u in d.values()))
                why = ''
            except Exception as e:
                ok, why = False, f' ({type(e).__name__}: {e})'
            if not ok:
                fail('the accessors of the namespace mapping agree with its items', f'sheet {name}: items {sorted(m, key=repr)}{why}')
        # every used URI declared
        declared = {u for _, u in m}
        rules = style_rules(sheet)
        for r in rules:
            for ps in rule_pairs(r):
                for u, nm in ps:
                    if u not in (ANY, '') and u not in declared:
                        was_declared = u in {x for _, x in pre['map' + name]} and u in pre['used' + name]
                        if removal and was_declared:
                            fail('removing a namespace still used by a selector is rejected', f'sheet {name}: {u!r} (used by {r.selectorText!r} as {nm!r}) is no longer declared; '
                                 f'mapping {sorted(m, key=repr)}', sheet=name, uri=u)
                        else:
                            fail('every namespace URI used by a selector is declared', f'sheet {name}: {u!r} used by {r.selectorText!r} is not declared; mapping {sorted(m, key=repr)}',
                                 sheet=name, uri=u)
        # pairs unchanged
        for r in rules:
            want = st.expected.get(id(r))
            if want is not None and rule_pairs(r) != want:
                fail('every selector keeps its (namespace URI, local name) pairs', f'sheet {name}: {r.selectorText!r} holds {rule_pairs(r)}, written as {want}', sheet=name)
        # @namespace rules well-formed
        for r in ns_rules(sheet):
            back = self.reparse(r.cssText)
            if back['ns'] != [(r.prefix, r.namespaceURI)] or back['kinds'] != ['NAMESPACE_RULE']:
                fail('the serialised @namespace rules stay well-formed', f'sheet {name}: rule (prefix {r.prefix!r}, URI {r.namespaceURI!r}) serialises as {r.cssText!r}, '
                     f'which reads back as {back["kinds"]} {back["ns"]}', sheet=name)
        # serialisation re-resolves
        text = self._text(sheet)
        back = self.reparse(text)
        if back['map'] != m:
            fail('the serialisation declares the same mapping', f'sheet {name}: mapping {sorted(m, key=repr)}, after reparse {sorted(back["map"], key=repr)}; text {text!r}', sheet=name)
        wants = [st.expected.get(id(r)) for r in rules]
        if len(back['pairs']) != len(rules):
            fail('the serialisation re-resolves to the same pairs', f'sheet {name}: {len(rules)} style rules, {len(back["pairs"])} after reparse; text {text!r}', sheet=name, lost=True)
        else:
            default = dict(m).get('')
            for r, want, got in zip(rules, wants, back['pairs']):
                if want is not None and got != want:
                    why = None
                    if rule_pairs(r) == want:
                        adj, reasons = spelling_limits(r, default)
                        if adj == got and reasons:
                            why = sorted(reasons)[0]
                    fail('the serialisation re-resolves to the same pairs', f'sheet {name}: {r.selectorText!r} written as {want} reads back as {got}; text {text!r}',
                         sheet=name, want=want, got=got, mapping=sorted(m, key=repr), spelling=why)

    def reparse_rule(self, text, namespaces):
        """pairs of the style rule `text` parsed on its own under the prefix -> URI dict `namespaces` (or the refusal)"""
        key = (text, tuple(sorted(namespaces.items())))
        hit = self._reparse.get(key)
        if hit is not None:
            return hit
        import cssutils
        raising = cssutils.log.raiseExceptions
        cssutils.log.raiseExceptions = True
        try:
            r2 = cssutils.css.CSSStyleRule()
            r2.cssText = (text, dict(namespaces))
            hit = rule_pairs(r2)
        except xml.dom.DOMException as e:
            hit = [f'<{type(e).__name__}: {e}>']
        finally:
            cssutils.log.raiseExceptions = raising
        self._reparse[key] = hit
        return hit

    def reparse(self, text):
        hit = self._reparse.get(text)
        if hit is not None:
            return hit
        import cssutils
        raising = cssutils.log.raiseExceptions
        try:
            s2 = cssutils.CSSParser(fetcher=_nofetch).parseString(text)
        finally:
            cssutils.log.raiseExceptions = raising
        hit = {'map': mapping(s2), 'pairs': [rule_pairs(r) for r in style_rules(s2)], 'kinds': [r.typeString for r in s2.cssRules],
               'ns': [(r.prefix, r.namespaceURI) for r in ns_rules(s2)]}
        if len(self._reparse) > 20000:
            self._reparse.clear()
        self._reparse[text] = hit
        return hit


def cssutils_raising():
    import cssutils
    return bool(cssutils.log.raiseExceptions)


def histkey(op):
    return tuple(x for x in op if not isinstance(x, int) or isinstance(x, bool))


CONSEQ = {
    # root cause -> (finding, clauses that are consequences of it on the same sheet in the same step)
    'setprefix': ('C15-setprefix-overwrites-item0', ('the serialised @namespace rules stay well-formed', 'the serialisation declares the same mapping',
                                                   'the serialisation re-resolves to the same pairs')),
    'refused-leftover': ('C15-refused-namespace-edit-leaves-changes', ('the namespace mapping equals', 'removing a namespace still used', 'every namespace URI used',
                                                                      'the serialisation declares the same mapping', 'the serialisation re-resolves to the same pairs')),
    'nstext': ('C15-nsrule-text-half-applied', ('the serialised @namespace rules stay well-formed', 'the serialisation declares the same mapping',
                                                'the serialisation re-resolves to the same pairs', 'the namespace mapping equals', 'removing a namespace still used',
                                                'every namespace URI used')),
    'attach': ('C15-attach-undeclared-uri', ('every namespace URI used', 'the serialisation re-resolves to the same pairs')),
    'collision': ('C15-prefix-setter-collision', ('the namespace mapping equals', 'removing a namespace still used', 'every namespace URI used',
                                                  'the serialisation declares the same mapping', 'the serialisation re-resolves to the same pairs')),
}
CONSEQ['parse-state'] = ('C15-refused-sheet-text-leaves-parse-state', ('the namespace mapping equals', 'the accessors of the namespace mapping', 'removing a namespace still used',
                                                                          'every namespace URI used', 'the serialisation declares the same mapping',
                                                                          'the serialisation re-resolves to the same pairs', 'a selector using an undeclared prefix',
                                                                          'the last declaration of a URI wins'))
CONSEQ['csstext-emptied'] = ('C15-logging-rule-csstext-empties-selectors', ('every selector keeps its', 'the serialisation re-resolves to the same pairs'))
SPELLING = {'any-written-as-none': 'C15-any-namespace-written-as-none', 'attribute-in-default-namespace': 'C15-attribute-in-default-namespace'}


def classify(clause, op, pre, info):
    """recorded findings: a failure is routed to a finding only when the observable signature of that defect is present in this very
    step on this very sheet (Model.roots) and the clause is one of its consequences"""
    roots = info.get('roots', {}).get(info.get('sheet'), set())
    if info.get('delreq'):
        # _Namespaces.__delitem__ passes the position among the @namespace rules to deleteRule, which takes a position in the whole list
        positions = [i for i, kd in enumerate(pre['kinds']) if kd == 'NAMESPACE_RULE']
        js = [j for j, (px, _) in enumerate(pre['nsA']) if px == op[1]]
        if js and positions[js[-1]] != js[-1]:      # the rule to delete is not at the same position in the whole list as among the @namespace rules
            return 'C15-mapping-delete-wrong-index'
    if clause == 'the last declaration of a URI wins' and op[0] == 'add_ns' and info.get('declare'):
        # ordered add of an @namespace rule whose prefix is bound to another URI: the clean-up lets the OLDER rule of a prefix win and deletes the new one
        pm = pre['map' + info['sheet']]
        if any(p == op[1] and u != op[2] for p, u in pm):
            return 'C15-rebind-prefix-silently-dropped'
    if info.get('detached') and info.get('stale') and clause.startswith(('a detached rule carries a declaration', 'the serialisation of a detached rule re-resolves')):
        # the selectors of one detached rule serialise each under its own snapshot of the sheet's namespaces, taken when it was written
        return 'C15-detached-stale-prefix-snapshots'
    if clause.startswith('the serialisation re-resolves') and info.get('spelling'):
        return SPELLING[info['spelling']]
    for root in ('csstext-emptied', 'parse-state', 'setprefix', 'refused-leftover', 'nstext', 'collision', 'attach'):
        if root in roots:
            kid, clauses = CONSEQ[root]
            if any(clause.startswith(c) for c in clauses):
                return kid
    return None


MODEL = {'core': Model('core'), 'full': Model('full'), 'forms': Model('forms')}


# ---- concrete witnesses of the recorded findings (True while the defect is still there)
def _parse(text):
    import cssutils
    return cssutils.CSSParser(fetcher=_nofetch).parseString(text)


def _raising(f):
    import cssutils
    old = cssutils.log.raiseExceptions
    cssutils.log.raiseExceptions = True
    try:
        f()
        return None
    except xml.dom.DOMException as e:
        return type(e).__name__
    finally:
        cssutils.log.raiseExceptions = old


def _w_setprefix():
    from cssutils import css
    r = css.CSSNamespaceRule(cssText='@namespace "u";')
    r.prefix = 'q'
    r2 = css.CSSNamespaceRule(cssText='@namespace /*c*/ p "u";')
    r2.prefix = 'q'
    return r.cssText == '@namespace q;' or r2.cssText == '@namespace q p "u";'


def _w_refused_leftover():
    from cssutils import css
    s = _parse('@namespace p "urn:a"; p|e { left: 0 }')
    out = _raising(lambda: s.insertRule(css.CSSNamespaceRule(namespaceURI='urn:b', prefix='p'), 0))
    return out == 'NoModificationAllowedErr' and len(ns_rules(s)) == 2


def _w_nstext():
    s = _parse('@namespace p "urn:a";')
    r = s.cssRules[0]

    def f():
        r.cssText = '@namespace q "urn:b";'
    out = _raising(f)
    return out is not None and (r.prefix, r.namespaceURI) == ('q', 'urn:a') and r.cssText == '@namespace p "urn:a";'


def _w_attach():
    from cssutils import css
    s = css.CSSStyleSheet()
    out = _raising(lambda: s.add(css.CSSStyleRule(selectorText=('p|e', {'p': 'urn:a'}), style='left: 0')))
    return out is None and len(s.cssRules) == 1 and s.cssRules[0].selectorText == '|e'


def _w_collision():
    s = _parse('@namespace p "urn:a"; @namespace q "urn:b"; q|f { left: 0 }')

    def f():
        s.cssRules[1].prefix = 'p'
    out = _raising(f)
    return out is None and [(r.prefix, r.namespaceURI) for r in ns_rules(s)] == [('p', 'urn:a'), ('p', 'urn:b')] and len(s.namespaces) == 1


def _w_any_as_none():
    s = _parse('e { left: 0 }')
    s.namespaces[''] = 'urn:a'
    return s.cssRules[-1].selectorText == '|e'


def _w_attr_default():
    s = _parse('@namespace p "urn:a"; *|e[p|a] { left: 0 }')
    s.namespaces[''] = 'urn:a'
    return s.cssRules[-1].selectorText == '*|e[a]'


def _w_parse_state():
    from cssutils import css
    s = css.CSSStyleSheet()
    s._setFetcher(_nofetch)

    def f():
        s.cssText = REFUSED_TEXT
    out = _raising(f)
    if out is None or type(s.namespaces).__name__ != '_SimpleNamespaces':
        return False
    s.namespaces['p'] = 'urn:b'
    return ('p', 'urn:b') in mapping(s) and ('p', 'urn:b') not in effective(s)


def _w_rebind_dropped():
    from cssutils import css
    s = _parse('@namespace p "urn:a";')
    out = _raising(lambda: s.add(css.CSSNamespaceRule(namespaceURI='urn:b', prefix='p')))
    return out is None and mapping(s) == {('p', 'urn:a')} and len(ns_rules(s)) == 1


def _w_delete_wrong_index():
    s = _parse('/*c*/ @namespace p "urn:a"; p|e { left: 0 }')

    def f():
        del s.namespaces['p']
    out = _raising(f)
    return out is None and [r.typeString for r in s.cssRules] == ['NAMESPACE_RULE', 'STYLE_RULE']


def _w_stale_snapshots():
    s = _parse('@namespace p "urn:a"; p|e { left: 0 }')
    s.namespaces['q'] = 'urn:a'      # urn:a is re-bound to q, p is free
    s.namespaces['p'] = 'urn:b'
    r = s.cssRules[-1]
    r.selectorList.appendSelector('p|f')
    s.deleteRule(r)
    return r.selectorText == 'p|e, p|f' and [pairs_of(x) for x in r.selectorList] == [[('urn:a', 'e')], [('urn:b', 'f')]]


def _w_csstext_emptied():
    import cssutils
    s = _parse('@namespace p "urn:a"; p|e { left: 0 }')
    old = cssutils.log.raiseExceptions
    cssutils.log.raiseExceptions = False
    try:
        s.cssRules[1].cssText = 'q|f { top: 0 }'
    finally:
        cssutils.log.raiseExceptions = old
    return len(s.cssRules) == 2 and len(s.cssRules[1].selectorList) == 0 and s.cssRules[1].style.cssText == 'top: 0'


WITNESS = {
    'C15-logging-rule-csstext-empties-selectors': _w_csstext_emptied,
    'C15-detached-stale-prefix-snapshots': _w_stale_snapshots,
    'C15-mapping-delete-wrong-index': _w_delete_wrong_index,
    'C15-rebind-prefix-silently-dropped': _w_rebind_dropped,
    'C15-refused-sheet-text-leaves-parse-state': _w_parse_state,
    'C15-setprefix-overwrites-item0': _w_setprefix,
    'C15-refused-namespace-edit-leaves-changes': _w_refused_leftover,
    'C15-nsrule-text-half-applied': _w_nstext,
    'C15-attach-undeclared-uri': _w_attach,
    'C15-prefix-setter-collision': _w_collision,
    'C15-any-namespace-written-as-none': _w_any_as_none,
    'C15-attribute-in-default-namespace': _w_attr_default,
}


def known_witnesses(ctx):
    import cssutils
    lvl = cssutils.log.getEffectiveLevel()
    cssutils.log.setLevel(logging.FATAL)
    try:
        for kid, f in WITNESS.items():
            try:
                still = bool(f())
            except Exception:
                still = False
            ctx.known_finding(kid, still)
    finally:
        cssutils.log.setLevel(lvl)
        cssutils.ser.prefs.useDefaults()


def via_bound():
    return (f'; selector provenance: every style rule of the seed sheet re-written before the history starts through one of {len(ROUTES)} DOM routes '
            f'({", ".join(ROUTES)}), with the text alone or - where the setter documents it ({len(PAIR_ROUTES)} routes) - as the pair (text, {PRIVATE}), '
            'a dictionary that contradicts the sheet; '
            'detached-rule clauses (carried declarations, structural reading and reparse of the rule text) evaluated on the slot after every step')


def forms_label(depth, nseeds):
    return (f'C15 forms pool, sequences <= {depth} on {nseeds} seed sheets: mapping edits (namespaces[p] = uri, del namespaces[p]) and every selector-writing route x '
            f'argument form x selector as operations ({len(WRITE_ROUTES)} routes: {", ".join(WRITE_ROUTES)}; text alone or pair with a contradicting dictionary; '
            f'selectors {", ".join(FORM_SEL)}), detach / attach of the written rule')


def forms_bound():
    return (f'; writes go to the first style rule of sheet A (first selector for Selector.selectorText and item assignment); {len(WRITE_FORMS)} route x form '
            f'combinations (item assignment documents no pair form) x {len(FORM_SEL)} selector texts; the pair form always carries the one dictionary {PRIVATE}; '
            'a Selector OBJECT as argument (appendSelector / item assignment) is outside the bound')


def ns_text_histories(ctx, depth_all, depth_full):
    """histories that start from sheets whose text re-declares prefixes and carries comments inside its @namespace rules"""
    from bounded import histories
    allseeds, fullseeds = ns_text_seeds(), ns_text_seeds(full_masks_only=True)
    what = (f'{len(NS_TEXT_PATTERNS)} declaration patterns ({"; ".join(n for n, _, _ in NS_TEXT_PATTERNS)}) x every subset of the comment positions '
            '(after the at-keyword, after the prefix, after the URI) in the first @namespace rule x later rules bare / commented at every position x URI of the first rule as string / url()')
    bound = (f'; seed texts: {what}; one style rule after the declarations; the URI a prefix loses within the text is {RETIRED_URI!r}; the seed is judged like every state '
             '(mapping == effective rules == the declarations the text was built with, @namespace rules well-formed, serialisation re-resolves to the pairs of the construction)')
    histories.explore(ctx, 'bounded.c15', 'core', allseeds, depth_all,
                      label=f'C15 core pool, sequences <= {depth_all} on {len(allseeds)} seed sheets whose text re-declares prefixes and has comments inside its @namespace rules')
    ctx.bounded[-1]['bound'] += bound
    histories.explore(ctx, 'bounded.c15', 'core', fullseeds, depth_full,
                      label=f'C15 core pool, sequences <= {depth_full} on the {len(fullseeds)} of these seed sheets with a comment at every position of the first @namespace rule')
    ctx.bounded[-1]['bound'] += bound


def sequences(ctx):
    from bounded import histories
    S = SEEDS
    sample = [{'seed': S[1][0], 'ops': [['ns_set', 'Q', 'urn:a'], ['add_sel', 'Q|f'], ['ns_del', 'Q']]}]
    if ctx.tier == 'quick':
        histories.explore(ctx, 'bounded.c15', 'full', [S[0], S[1]], 3, label='C15 full pool of namespace operations, sequences <= 3 (empty sheet; one prefix, one namespaced rule)',
                          samples=sample)
        histories.explore(ctx, 'bounded.c15', 'core', [S[2], S[3], S[4]], 3,
                          label='C15 core pool, sequences <= 3 (default namespace + @media; two prefixes, *| and |, comment ahead; logging mode)')
        histories.explore(ctx, 'bounded.c15', 'full', [S[2], S[3], S[4]], 2, label='C15 full pool, sequences <= 2 on the larger seed sheets')
        histories.explore(ctx, 'bounded.c15', 'core', via_seeds([S[1], S[2], S[3]]), 2,
                          label=f'C15 core pool, sequences <= 2 on seed sheets whose selectors were written through the DOM (3 sheets x {len(VIAS)} ways: {", ".join(VIAS)})')
        ctx.bounded[-1]['bound'] += via_bound()
        histories.explore(ctx, 'bounded.c15', 'forms', [S[1], S[2], S[3], S[4]], 2, label=forms_label(2, 4))
        ctx.bounded[-1]['bound'] += forms_bound()
        ns_text_histories(ctx, 1, 2)
    else:
        histories.explore(ctx, 'bounded.c15', 'full', [S[0], S[1]], 4, label='C15 full pool of namespace operations, sequences <= 4 (empty sheet; one prefix, one namespaced rule)',
                          samples=sample)
        histories.explore(ctx, 'bounded.c15', 'full', [S[2], S[3], S[4]], 3, unmerged_depth=2, label='C15 full pool, sequences <= 3 on the larger seed sheets')
        histories.explore(ctx, 'bounded.c15', 'core', [S[2], S[3], S[4]], 4, label='C15 core pool, sequences <= 4 on the larger seed sheets')
        histories.explore(ctx, 'bounded.c15', 'core', via_seeds([S[1], S[2], S[3], S[4]]), 3,
                          label=f'C15 core pool, sequences <= 3 on seed sheets whose selectors were written through the DOM (4 sheets x {len(VIAS)} ways: {", ".join(VIAS)})')
        ctx.bounded[-1]['bound'] += via_bound()
        histories.explore(ctx, 'bounded.c15', 'forms', [S[1], S[2], S[3], S[4]], 3, label=forms_label(3, 4))
        ctx.bounded[-1]['bound'] += forms_bound()
        ns_text_histories(ctx, 2, 3)


def random_walks(ctx):
    if ctx.tier != 'thorough':
        return
    from bounded import histories
    histories.walks(ctx, 'bounded.c15', 'full', list(SEEDS), 320, 200, label='C15 random walks over the full pool')
