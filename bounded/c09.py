"""C09 bounded stand-in: the structural invariant of the statement as a run-time contract on the REAL CSSStyleSheet / @media / @page
objects, evaluated after every operation of every operation sequence up to a bound (see bounded/histories.py for the driver).

Oracle (from the statement, public accessors only):
  charset   at most one @charset and only at index 0
  order     @import before @namespace before every style / @media / @page / @font-face rule (comments, unknown at-rules and
            @variables carry no rank in the statement)
  nested    @media lists hold style, @page, @media, comment, unknown rules; @page lists hold margin rules (+ comments / unknown at-rules)
  parents   every reachable rule names its sheet and its containing rule (None at top level); every declaration block names its rule;
            every property names its declaration block
  removed   an object taken out of a container that is still part of the sheet names no parent; a rule that was offered to an
            insert/add and is not in the list afterwards does not name the sheet / the container
  reparse   parse(serialise(sheet)) has the same top-level kinds in the same order and the same nested kinds (no rule lost)
"""
import logging
import xml.dom

KINDS = ['charset', 'import', 'namespace', 'variables', 'media', 'page', 'font-face', 'style', 'comment', 'unknown']
NESTED_KINDS = KINDS + ['margin']

TEXT = {
    'charset': '@charset "ascii";',
    'import': '@import "x.css";',
    'namespace': '@namespace n "urn:n";',
    'variables': '@variables { v: 1 }',
    'media': '@media print { m { top: 0 } }',
    'page': '@page :first { margin: 0 }',
    'font-face': '@font-face { font-family: f; src: url(f.ttf) }',
    'style': 'a { left: 0 }',
    'comment': '/*k*/',
    'unknown': '@x y;',
    'margin': '@top-left { left: 0 }',
}
# replacement texts for `rule.cssText = ...`: [valid text of the same kind, text of another kind, (optional) text the rule must refuse]
ALT = {
    'CHARSET_RULE': ['@charset "utf-8";', 'a { left: 0 }'],
    'IMPORT_RULE': ['@import "y.css" print;', '@x wrong;'],
    'NAMESPACE_RULE': ['@namespace n2 "urn:n2";', '@x wrong;'],
    'VARIABLES_RULE': ['@variables { w: 2 }', '@x wrong;'],
    'MEDIA_RULE': ['@media screen { x { top: 1px } /*n*/ }', '@x wrong;', '@media screen { b { left: 1px } @import "x.css"; }'],
    'PAGE_RULE': ['@page :left { margin: 1cm; @top-left { content: "a"; color: red } @top-left { left: 0; color: blue } }', '@x wrong;'],
    'FONT_FACE_RULE': ['@font-face { font-family: g }', '@x wrong;'],
    'STYLE_RULE': ['b, c { top: 1px; left: 2px }', '@x wrong;', 'zz|a { left: 0 }'],
    'COMMENT': ['/*other*/', '@x wrong;'],
    'UNKNOWN_RULE': ['@y z;', 'a { left: 0 }'],
    'MARGIN_RULE': ['@bottom-center { top: 0 }', 'a { left: 0 }'],
}
SHEET_TEXTS = [
    '@charset "ascii"; @import "y.css"; @namespace q "urn:q"; @media screen { q|c { top: 1px } } d { left: 1px }',
    'a { left: 0 } @import "late.css"; @namespace z "urn:z"; @charset "utf-8"; z|e { top: 0 }',
    '',
    '@page :first { margin: 1cm; @top-left { content: "a"; color: red } @top-left { left: 0; color: blue } } /*z*/',
]
ENCODINGS = [None, 'ascii', 'utf-8', 'no-such-encoding']
NS_PREFIXES = ['', 'n', 'p']
NS_URIS = ['urn:n', 'urn:p']

SEED_TEXTS = [
    '',
    '@charset "utf-8"; @import "x.css"; @namespace p "urn:p"; p|b { top: 0 }',
    '/*c*/ @media print { a { left: 0 } } @page :first { margin: 0; @top-left { left: 0 } }',
    '@import "x.css"; @variables { v: 1 } @font-face { font-family: f } @x y; e { left: 0 }',
]

RANK = {'IMPORT_RULE': 1, 'NAMESPACE_RULE': 2, 'STYLE_RULE': 3, 'MEDIA_RULE': 3, 'PAGE_RULE': 3, 'FONT_FACE_RULE': 3}
ALLOWED = {'MEDIA_RULE': {'STYLE_RULE', 'PAGE_RULE', 'MEDIA_RULE', 'COMMENT', 'UNKNOWN_RULE'},
           'PAGE_RULE': {'MARGIN_RULE', 'COMMENT', 'UNKNOWN_RULE'}}


def _nofetch(url):
    return None


def make(kind):
    from cssutils import css
    if kind == 'charset':
        return css.CSSCharsetRule('ascii')
    if kind == 'import':
        return css.CSSImportRule(href='x.css')
    if kind == 'namespace':
        return css.CSSNamespaceRule(namespaceURI='urn:n', prefix='n')
    if kind == 'variables':
        return css.CSSVariablesRule(variables=css.CSSVariablesDeclaration('v: 1'))
    if kind == 'media':
        m = css.CSSMediaRule('print')
        m.insertRule(css.CSSStyleRule('m', 'top: 0'))
        return m
    if kind == 'page':
        return css.CSSPageRule(':first', 'margin: 0')
    if kind == 'font-face':
        return css.CSSFontFaceRule('font-family: f; src: url(f.ttf)')
    if kind == 'style':
        return css.CSSStyleRule('a', 'left: 0')
    if kind == 'comment':
        return css.CSSComment('/*k*/')
    if kind == 'unknown':
        return css.CSSUnknownRule('@x y;')
    if kind == 'margin':
        return css.MarginRule('@top-left', 'left: 0')
    raise KeyError(kind)


TYPESTRING = {'charset': 'CHARSET_RULE', 'import': 'IMPORT_RULE', 'namespace': 'NAMESPACE_RULE', 'variables': 'VARIABLES_RULE', 'media': 'MEDIA_RULE',
              'page': 'PAGE_RULE', 'font-face': 'FONT_FACE_RULE', 'style': 'STYLE_RULE', 'comment': 'COMMENT', 'unknown': 'UNKNOWN_RULE', 'margin': 'MARGIN_RULE'}


def list_family(kinds, anchors):
    """'' (the empty list), every one-kind list, every pair [anchor, kind] / [kind, anchor] and every triple [anchor, kind, anchor];
    a list is written as its kinds joined by '+'"""
    out = ['']
    out += list(kinds)
    for a in anchors:
        for k in kinds:
            for x in (f'{a}+{k}', f'{k}+{a}', f'{a}+{k}+{a}'):
                if x not in out:
                    out.append(x)
    return out


_SHEETLIST = {}


def _sheetlist_sheet(kinds):
    import cssutils
    return cssutils.CSSParser(fetcher=_nofetch).parseString(' '.join(TEXT[k] for k in kinds.split('+')))


def sheetlist_ok(kinds):
    """the kinds can stand in this order at the top level of a parsed sheet (so that its live cssRules is exactly this list)"""
    hit = _SHEETLIST.get(kinds)
    if hit is None:
        if not kinds or 'margin' in kinds.split('+'):
            hit = False
        else:
            import cssutils
            raising = cssutils.log.raiseExceptions
            cssutils.log.raiseExceptions = False
            try:
                hit = types(_sheetlist_sheet(kinds)) == [TYPESTRING[k] for k in kinds.split('+')]
            except Exception:
                hit = False
            finally:
                cssutils.log.raiseExceptions = raising
        _SHEETLIST[kinds] = hit
    return hit


def make_list(form, kinds, offered, cont):
    """the list argument: 'rulelist' a CSSRuleList of fresh rule objects, 'pylist' the same as a plain Python list, 'sheetlist' the live
    cssRules of another parsed sheet (its rules name that other sheet)"""
    from cssutils import css
    if form == 'sheetlist':
        import cssutils
        raising = cssutils.log.raiseExceptions
        cssutils.log.raiseExceptions = False
        try:
            other = _sheetlist_sheet(kinds)
        finally:
            cssutils.log.raiseExceptions = raising
        for r in other.cssRules:
            offered.append((r, cont, other))
        return other.cssRules
    rules = [make(k) for k in kinds.split('+')] if kinds else []
    for r in rules:
        offered.append((r, cont))
    if form == 'pylist':
        return rules
    lst = css.CSSRuleList()
    for r in rules:
        list.append(lst, r)
    return lst


class State:
    def __init__(self, sheet, seed):
        self.sheet = sheet
        self.seed = seed
        self.broken = False
        self.other_loss = 0  # reparse losses that are not ordering errors (outside the statement of C09)
        self.keep = []  # strong references, so that ids of dead objects are never recycled


def types(container):
    return [r.typeString for r in container.cssRules]


def tree(container):
    out = []
    for r in container.cssRules:
        if hasattr(r, 'cssRules'):
            out.append((r.typeString, tuple(tree(r))))
        else:
            out.append(r.typeString)
    return out


def reach(sheet):
    """[(object, role, container object or None for the sheet, path)] of everything reachable through public accessors"""
    out = []

    def rules(container, owner, path):
        for i, r in enumerate(container.cssRules):
            here = f'{path}/{r.typeString}[{i}]'
            out.append((r, 'rule', owner, here))
            style = getattr(r, 'style', None)
            if style is not None:
                out.append((style, 'style', r, here + '.style'))
                for p in style.getProperties(all=True):
                    out.append((p, 'prop', style, f'{here}.style{{{p.name}}}'))
            if r.type == r.VARIABLES_RULE:
                out.append((r.variables, 'vars', r, here + '.variables'))
            if hasattr(r, 'cssRules'):
                rules(r, r, here)

    rules(sheet, None, '')
    return out


def _parents(obj, role):
    if role == 'rule':
        return (obj.parentRule, obj.parentStyleSheet)
    if role in ('style', 'vars'):
        return (obj.parentRule,)
    return (obj.parent,)


class Model:
    """pool = 'list' (insert / ordered add / delete on the top-level list, every kind, every index), 'core' (list + encoding,
    namespace mapping, sheet and rule text, nested insert/delete at both ends), 'full' (everything, every index, text and object forms)
    or 'forms' (the remaining argument forms of the insert entry points: a CSSRuleList / a plain Python list of rule objects / the live
    cssRules of another sheet, handed to insertRule, cssRules.extend and cssRules.append of the sheet and of the nested lists)"""

    def __init__(self, pool):
        self.pool = pool
        self._saved = None
        self._reparse = {}

    # ---- global state
    def setup(self):
        import cssutils
        import cssutils.util
        self._saved = (cssutils.log.raiseExceptions, cssutils.util._defaultFetcher, cssutils.log.getEffectiveLevel())
        cssutils.log.setLevel(logging.FATAL)
        cssutils.ser.prefs.useDefaults()
        cssutils.ser.prefs.keepEmptyRules = True
        cssutils.ser.prefs.resolveVariables = False
        cssutils.util._defaultFetcher = _nofetch

    def teardown(self):
        import cssutils
        import cssutils.util
        if self._saved:
            cssutils.log.raiseExceptions, cssutils.util._defaultFetcher, lvl = self._saved
            cssutils.log.setLevel(lvl)
        cssutils.ser.prefs.useDefaults()

    # ---- states
    def new_state(self, seed):
        import cssutils
        text, raising = seed
        sheet = cssutils.CSSParser(fetcher=_nofetch).parseString(text)
        cssutils.log.raiseExceptions = bool(raising)
        st = State(sheet, seed)
        return st

    def fingerprint(self, st):
        s = st.sheet
        try:
            text = s.cssText.decode('utf-8', 'replace')
        except Exception as e:  # serialisation itself fails: still a state
            text = f'<{type(e).__name__}>'
        try:
            ns = sorted(s.namespaces.namespaces.items())
        except Exception as e:
            ns = f'<{type(e).__name__}>'
        return repr((text, tree(s), ns, type(s.namespaces).__name__))

    def abstract(self, st):
        return repr(tree(st.sheet))

    # ---- operation pool
    def ops(self, st):
        if self.pool == 'full':
            return self.ops_full(st)
        if self.pool in ('forms', 'forms-core'):
            return self.ops_forms(st)
        s = st.sheet
        n = len(s.cssRules)
        out = []
        for k in KINDS:
            for i in range(0, n + 1):
                out.append(('ins', k, i))
            out.append(('add', k))
        out.append(('ins', 'style', n + 1))
        out.append(('ins', 'import', -1))
        for i in range(0, n + 1):
            out.append(('del', i))
        if self.pool == 'list':
            return out
        out += [('sheet_text', 0), ('sheet_text', 1), ('enc', 0), ('enc', 1), ('ns_set', 'n', 'urn:p'), ('ns_set', '', 'urn:n'), ('ns_del', 'p')]
        for i, r in enumerate(s.cssRules):
            out.append(('rule_text', i, 0))
        done = set()
        for ci, r in enumerate(s.cssRules):
            if r.typeString in ('MEDIA_RULE', 'PAGE_RULE') and r.typeString not in done:
                done.add(r.typeString)
                m = len(r.cssRules)
                for k in NESTED_KINDS:
                    for j in sorted({0, m}):
                        out.append(('n_ins', ci, k, j))
                for j in sorted({0, m - 1}):
                    if j >= 0:
                        out.append(('n_del', ci, j))
                        if j < m:
                            out.append(('n_text', ci, j, 0))
        return out

    def ops_full(self, st):
        s = st.sheet
        n = len(s.cssRules)
        out = []
        for k in KINDS:
            for i in range(0, n + 2):
                out.append(('ins', k, i))
            out.append(('ins_text', k, n))
            out.append(('add', k))
            out.append(('add_text', k))
        out.append(('ins', 'import', -1))
        for i in range(-1, n + 1):
            out.append(('del', i))
        for i in range(n):
            out.append(('del_obj', i))
        out.append(('del_foreign',))
        for t in range(len(SHEET_TEXTS)):
            out.append(('sheet_text', t))
        for i, r in enumerate(s.cssRules):
            for v in range(len(ALT.get(r.typeString, []))):
                out.append(('rule_text', i, v))
        for e in range(len(ENCODINGS)):
            out.append(('enc', e))
        for p in NS_PREFIXES:
            for u in NS_URIS:
                out.append(('ns_set', p, u))
            out.append(('ns_del', p))
        # nested lists: the first @media and the first @page of the sheet
        done = set()
        for ci, r in enumerate(s.cssRules):
            if r.typeString in ('MEDIA_RULE', 'PAGE_RULE') and r.typeString not in done:
                done.add(r.typeString)
                m = len(r.cssRules)
                for k in NESTED_KINDS:
                    for j in range(0, m + 2):
                        out.append(('n_ins', ci, k, j))
                    out.append(('n_ins_text', ci, k, m))
                    out.append(('n_add', ci, k))
                for j in range(-1, m + 1):
                    out.append(('n_del', ci, j))
                for j in range(m):
                    out.append(('n_del_obj', ci, j))
                    for v in range(len(ALT.get(r.cssRules[j].typeString, []))):
                        out.append(('n_text', ci, j, v))
        return out

    def ops_forms(self, st):
        """every list-valued argument form of the insert entry points (insertRule(list, index), cssRules.extend(list), cssRules.append(list)
        and cssRules.append(rule)) on the sheet and on the first @media / first @page: the empty list, every one-kind list, every two-kind list
        that pairs a kind with an anchor kind (a kind that is allowed in the target) in both orders, and anchor-kind-anchor triples; as a
        CSSRuleList, as a plain Python list and as the live cssRules of another parsed sheet; plus the deletes that empty the lists again"""
        s = st.sheet
        n = len(s.cssRules)
        out = []
        core = self.pool == 'forms-core'   # nested lists only: CSSRuleList of one kind or [anchor, kind], at index 0 and through extend; append(rule); deletes
        if not core:
            for kinds in list_family(KINDS, ('style', 'import')):
                parts = kinds.split('+')
                out.append(('l_ins', 'rulelist', kinds, 0))
                out.append(('l_ext', 'rulelist', kinds))
                if len(parts) == 1 or len(parts) == 2 and parts[1] in ('style', 'import'):
                    out.append(('l_ins', 'rulelist', kinds, n))
                if len(parts) == 1 or len(parts) == 2 and parts[0] in ('style', 'import'):
                    out.append(('l_app', 'rulelist', kinds))
                    out.append(('l_ext', 'pylist', kinds))
                if sheetlist_ok(kinds):
                    out.append(('l_ext', 'sheetlist', kinds))
            out.append(('l_ins', 'rulelist', 'style', n + 1))
            for k in KINDS:
                out.append(('append', k))
            for i in range(n):
                out.append(('del', i))
        done = set()
        for ci, r in enumerate(s.cssRules):
            if r.typeString in ('MEDIA_RULE', 'PAGE_RULE') and r.typeString not in done:
                done.add(r.typeString)
                m = len(r.cssRules)
                anchor = 'style' if r.typeString == 'MEDIA_RULE' else 'margin'
                for kinds in list_family(NESTED_KINDS, (anchor,)):
                    parts = kinds.split('+')
                    if core:
                        if len(parts) == 1 or len(parts) == 2 and parts[0] == anchor:
                            out.append(('n_l_ins', ci, 'rulelist', kinds, 0))
                            out.append(('n_l_ext', ci, 'rulelist', kinds))
                        continue
                    out.append(('n_l_ins', ci, 'rulelist', kinds, 0))
                    out.append(('n_l_ext', ci, 'rulelist', kinds))
                    if len(parts) == 1 or len(parts) == 2 and parts[1] == anchor:
                        out.append(('n_l_ins', ci, 'rulelist', kinds, m))
                    if len(parts) == 1 or len(parts) == 2 and parts[0] == anchor:
                        out.append(('n_l_app', ci, 'rulelist', kinds))
                        out.append(('n_l_ext', ci, 'pylist', kinds))
                    if sheetlist_ok(kinds):
                        out.append(('n_l_ext', ci, 'sheetlist', kinds))
                if not core:
                    out.append(('n_l_ins', ci, 'rulelist', anchor, m + 1))
                for k in NESTED_KINDS:
                    out.append(('n_append', ci, k))
                for j in range(m):
                    out.append(('n_del', ci, j))
        return out

    def run(self, st, op, offered):
        s = st.sheet
        k = op[0]
        if k in ('l_ins', 'l_ext', 'l_app'):
            arg = make_list(op[1], op[2], offered, None)
            if k == 'l_ins':
                return s.insertRule(arg, op[3])
            if k == 'l_ext':
                return s.cssRules.extend(arg)
            return s.cssRules.append(arg)
        if k == 'append':
            r = make(op[1])
            offered.append((r, None))
            return s.cssRules.append(r)
        if k in ('n_l_ins', 'n_l_ext', 'n_l_app', 'n_append'):
            c = s.cssRules[op[1]]
            if k == 'n_append':
                r = make(op[2])
                offered.append((r, c))
                return c.cssRules.append(r)
            arg = make_list(op[2], op[3], offered, c)
            if k == 'n_l_ins':
                return c.insertRule(arg, op[4])
            if k == 'n_l_ext':
                return c.cssRules.extend(arg)
            return c.cssRules.append(arg)
        if k == 'ins':
            r = make(op[1])
            offered.append((r, None))
            return s.insertRule(r, op[2])
        if k == 'ins_text':
            return s.insertRule(TEXT[op[1]], op[2])
        if k == 'add':
            r = make(op[1])
            offered.append((r, None))
            return s.add(r)
        if k == 'add_text':
            return s.add(TEXT[op[1]])
        if k == 'del':
            return s.deleteRule(op[1])
        if k == 'del_obj':
            return s.deleteRule(s.cssRules[op[1]])
        if k == 'del_foreign':
            return s.deleteRule(make('style'))
        if k == 'sheet_text':
            s.cssText = SHEET_TEXTS[op[1]]
            return None
        if k == 'rule_text':
            r = s.cssRules[op[1]]
            r.cssText = ALT[r.typeString][op[2]]
            return None
        if k == 'enc':
            s.encoding = ENCODINGS[op[1]]
            return None
        if k == 'ns_set':
            s.namespaces[op[1]] = op[2]
            return None
        if k == 'ns_del':
            del s.namespaces[op[1]]
            return None
        c = s.cssRules[op[1]]
        if k == 'n_ins':
            r = make(op[2])
            offered.append((r, c))
            return c.insertRule(r, op[3])
        if k == 'n_ins_text':
            return c.insertRule(TEXT[op[2]], op[3])
        if k == 'n_add':
            r = make(op[2])
            offered.append((r, c))
            return c.add(r)
        if k == 'n_del':
            return c.deleteRule(op[2])
        if k == 'n_del_obj':
            return c.deleteRule(c.cssRules[op[2]])
        if k == 'n_text':
            r = c.cssRules[op[2]]
            r.cssText = ALT[r.typeString][op[3]]
            return None
        raise KeyError(op)

    def apply(self, st, op):
        offered = []
        try:
            self.run(st, op, offered)
        except xml.dom.DOMException:
            pass
        except Exception as e:
            import traceback
            last = traceback.extract_tb(e.__traceback__)[-1].filename
            if 'cssutils' not in last and 'more_itertools' not in last:
                raise
        st.keep.append(offered)

    # ---- one monitored step
    def step(self, st, op):
        s = st.sheet
        before = reach(s)
        pre = tree(s)
        pre_ns = _mapping(s)
        pre_nsclass = type(s.namespaces).__name__
        offered = []
        try:
            self.run(st, op, offered)
            outcome = 'accepted'
        except xml.dom.DOMException as e:
            outcome = type(e).__name__
        except Exception as e:  # any other exception out of cssutils code: an abnormal rejection (not judged by C09; the invariant is)
            import traceback
            last = traceback.extract_tb(e.__traceback__)[-1].filename
            if 'cssutils' not in last and 'more_itertools' not in last:
                raise
            outcome = 'crash:' + type(e).__name__
        st.keep.append((before, offered))
        fails = []

        def fail(clause, detail, breaks=True, **info):
            f = {'clause': clause, 'detail': detail, 'key': repr(histkey(op)), 'model': 'C09.' + self.pool}
            info['outcome'] = outcome
            info['pre_nsclass'] = pre_nsclass
            f['known_id'] = classify(clause, op, pre, pre_ns, info)
            fails.append(f)
            if breaks:
                st.broken = True

        self.check(st, before, offered, fail)
        return outcome, fails

    def check(self, st, before, offered, fail):
        s = st.sheet
        tl = types(s)
        # charset
        cs = [i for i, t in enumerate(tl) if t == 'CHARSET_RULE']
        if len(cs) > 1 or (cs and cs[0] != 0):
            fail('at most one @charset and only in first place', f'rule kinds {tl}', kinds=tl)
        # order
        ranks = [(RANK[t], t, i) for i, t in enumerate(tl) if t in RANK]
        for a, b in zip(ranks, ranks[1:]):
            if a[0] > b[0]:
                fail('@import before @namespace before style/@media/@page/@font-face rules', f'{b[1]} at index {b[2]} follows {a[1]} at index {a[2]}: {tl}',
                     kinds=tl, early=a[1], late=b[1])
                break
        # nested kinds
        after = reach(s)
        depth = {}
        for obj, role, owner, path in after:
            if role == 'rule':
                depth[id(obj)] = 0 if owner is None else depth[id(owner)] + 1
                if owner is not None:
                    allowed = ALLOWED.get(owner.typeString)
                    if allowed is not None and obj.typeString not in allowed:
                        fail('nested rule lists hold only the rule kinds allowed there', f'{path} inside {owner.typeString}', container=owner.typeString, kind=obj.typeString)
        # parents of everything reachable
        for obj, role, owner, path in after:
            if role == 'rule':
                if obj.parentRule is not owner:
                    fail('a reachable rule names its containing rule as parentRule', f'{path}.parentRule is {obj.parentRule!r}, container is {owner!r}')
                if obj.parentStyleSheet is not s:
                    fail('a reachable rule names its sheet as parentStyleSheet', f'{path}.parentStyleSheet is {obj.parentStyleSheet!r}',
                         depth=depth[id(obj)], got_none=obj.parentStyleSheet is None, kind=obj.typeString)
            elif role in ('style', 'vars'):
                if obj.parentRule is not owner:
                    fail('a reachable declaration block names its rule as parentRule', f'{path}.parentRule is {obj.parentRule!r}, container is {owner!r}')
            elif obj.parent is not owner:
                fail('a reachable property names its declaration block as parent', f'{path}.parent is {obj.parent!r}, container is {owner!r}')
        # removed objects
        alive = {id(o) for o, _, _, _ in after}
        for obj, role, owner, path in before:
            if id(obj) in alive:
                continue
            if owner is not None and id(owner) not in alive:
                continue  # went away together with its container, which it may keep naming
            got = _parents(obj, role)
            if any(x is not None for x in got):
                fail(f'a removed {ROLE[role]} names no parent', f'{path} ({obj!r}) was removed from a container that is still in the sheet and names {got!r}', breaks=False)
        for obj, cont, *origin in offered:
            if id(obj) in alive:
                continue
            if origin:
                # a rule out of another sheet's list keeps naming that sheet; it must not name this sheet / this container
                names = obj.parentStyleSheet is s or (obj.parentRule is not None and (obj.parentRule is cont or any(obj.parentRule is o for o, _, _, _ in after)))
            else:
                names = obj.parentStyleSheet is not None or obj.parentRule is not None
            if names:
                fail('a rule that was offered but not inserted names no parent',
                     f'{obj!r} is not in the list but parentStyleSheet={obj.parentStyleSheet!r} parentRule={obj.parentRule!r}', breaks=False,
                     kind=obj.typeString, nsitem=(obj.prefix, obj.namespaceURI) if obj.typeString == 'NAMESPACE_RULE' else None)
        # serialise + reparse
        try:
            text = s.cssText.decode('utf-8', 'replace')
        except Exception as e:
            fail('the edited sheet serialises', f'{type(e).__name__}: {e}')
            return
        want = _reparse_view(tree(s))
        got, cause = self.reparse(text)
        if want != got:
            # a loss counts for C09 when it is caused by an ordering / hierarchy error: the same text read in raising mode
            # is refused with HierarchyRequestErr (losses with other causes, e.g. an undeclared prefix, belong to C15 / C03)
            if cause is not None and cause[0] == 'HierarchyRequestErr':
                fail('serialising and reparsing loses no rule to an ordering error',
                     f'kinds before {want}, after reparse {got}; {cause[0]}: {cause[1]}; text {text!r}', kinds=tl, want=want, got=got, cause=cause[1])
            else:
                st.other_loss += 1

    def reparse(self, text):
        """(kinds after parse(text), (exception name, message) of the first refusal in raising mode or None); cached per text"""
        hit = self._reparse.get(text)
        if hit is not None:
            return hit
        import cssutils
        raising = cssutils.log.raiseExceptions
        cause = None
        try:
            s2 = cssutils.CSSParser(fetcher=_nofetch).parseString(text)
            s3 = cssutils.css.CSSStyleSheet()
            s3._setFetcher(_nofetch)
            cssutils.log.raiseExceptions = True
            try:
                s3.cssText = text
            except xml.dom.DOMException as e:
                cause = (type(e).__name__, str(e))
        finally:
            cssutils.log.raiseExceptions = raising
        hit = (_reparse_view(tree(s2)), cause)
        if len(self._reparse) > 20000:
            self._reparse.clear()
        self._reparse[text] = hit
        return hit


ROLE = {'rule': 'rule', 'style': 'declaration block', 'vars': 'declaration block', 'prop': 'property'}
RANK3 = ('STYLE_RULE', 'MEDIA_RULE', 'PAGE_RULE', 'FONT_FACE_RULE')


def _mapping(sheet):
    try:
        return sorted(sheet.namespaces.namespaces.items())
    except Exception:
        return None


def _flat(t):
    return [x[0] if isinstance(x, tuple) else x for x in t]


def _reparse_view(t):
    """kinds that a reparse must reproduce: everything at top level and in @media; the margin rules of an @page
    (comments and unknown at-rules inside @page are re-read as part of its declaration block)"""
    out = []
    for x in t:
        if isinstance(x, tuple):
            kind, sub = x
            if kind == 'PAGE_RULE':
                out.append((kind, tuple(y for y in sub if y == 'MARGIN_RULE')))
            else:
                out.append((kind, tuple(_reparse_view(list(sub)))))
        else:
            out.append(x)
    return out


def histkey(op):
    return tuple(x for x in op if not isinstance(x, int) or isinstance(x, bool))


def _comment_ahead_of(kinds, targets):
    """a comment / unknown at-rule stands somewhere before a rule of one of the kinds `targets`"""
    seen = False
    for k in kinds:
        if k in ('COMMENT', 'UNKNOWN_RULE'):
            seen = True
        elif k in targets and seen:
            return True
    return False


def classify(clause, op, pre, pre_ns, info):
    """recorded findings, each with a sharp class; anything outside these classes is reported as a violation"""
    kinds = _flat(pre)
    k = op[0]
    ordered_ns = (k in ('add', 'add_text') and op[1] == 'namespace') or (k == 'ns_set' and op[1] not in [p for p, _ in (pre_ns or [])])
    ordered_var = k in ('add', 'add_text') and op[1] == 'variables'
    if clause.startswith('@import before @namespace') or clause.startswith('serialising and reparsing'):
        # ordered add of @namespace / @variables: "first index holding a later kind" counts comments and unknown rules as later kinds
        if ordered_ns and 'NAMESPACE_RULE' not in kinds and _comment_ahead_of(kinds, ('IMPORT_RULE',)):
            return 'C09-ordered-add-ahead-of-import'
        if ordered_var and 'VARIABLES_RULE' not in kinds and _comment_ahead_of(kinds, ('IMPORT_RULE', 'NAMESPACE_RULE')) and clause.startswith('serialising'):
            return 'C09-ordered-add-ahead-of-import'
    if clause.startswith('serialising and reparsing') and 'CSSVariablesRule not allowed here' in (info.get('cause') or ''):
        # insertRule lets style/@media/@page/@font-face stand ahead of @variables (and @variables be inserted behind them is refused): index-checked
        # insertion of the four kinds looks only for @charset/@import/@namespace behind the index
        if k in ('ins', 'ins_text') and op[1] in ('style', 'media', 'page', 'font-face') and 'VARIABLES_RULE' in kinds[op[2]:]:
            return 'C09-rule-ahead-of-variables'
    if clause == 'a reachable rule names its sheet as parentStyleSheet' and info.get('outcome') == 'NoModificationAllowedErr' and info.get('kind') == 'NAMESPACE_RULE' \
            and info.get('depth') == 0 and info.get('got_none') and (k in ('ins', 'ins_text', 'add', 'add_text') and op[1] == 'namespace' or k == 'ns_set'):
        # the new rule is put into the list, then the clean-up of the superseded rule is refused (its URI is in use): the exception leaves the new rule behind
        return 'C09-refused-namespace-insert-stays'
    if clause == 'a rule that was offered but not inserted names no parent':
        if k == 'add' and op[1] == 'charset' and kinds[:1] == ['CHARSET_RULE']:
            return 'C09-not-inserted-names-sheet'
        if k in ('ins', 'add') and op[1] == 'namespace' and info.get('outcome') == 'accepted' and info.get('nsitem') and pre_ns and \
                (info['nsitem'][0] in [p for p, _ in pre_ns] or info['nsitem'][1] in [u for _, u in pre_ns]):
            # equal to an effective rule ('no doublettes'), or superseded at once: its prefix or its URI is bound by another rule that wins the clean-up
            return 'C09-not-inserted-names-sheet'
    if clause.startswith('a removed ') and k in ('sheet_text', 'rule_text', 'n_text'):
        return 'C09-text-replacement-keeps-parents'
    if clause == 'nested rule lists hold only the rule kinds allowed there' and k in ('n_ins', 'n_ins_text', 'n_add'):
        if (info.get('container'), info.get('kind')) in (('MEDIA_RULE', 'VARIABLES_RULE'), ('PAGE_RULE', 'VARIABLES_RULE'), ('PAGE_RULE', 'STYLE_RULE')) \
                and op[2] == {'VARIABLES_RULE': 'variables', 'STYLE_RULE': 'style'}[info['kind']]:
            return 'C09-nested-insert-kinds'
    if clause.startswith('serialising and reparsing') and k in ('n_ins', 'n_ins_text', 'n_add') and op[2] == 'variables' \
            and 'not allowed in CSSMediaRule' in (info.get('cause') or ''):
        return 'C09-nested-insert-kinds'
    if k in ('n_l_ins', 'n_l_ext', 'n_l_app', 'n_append'):
        # the same two deny-lists reached through the list-valued argument forms: the offending kind is one the list holds, the container is the target
        offered_kinds = [op[2]] if k == 'n_append' else (op[3].split('+') if op[2] != 'pylist' else [])
        target = kinds[op[1]] if op[1] < len(kinds) else None
        if clause == 'nested rule lists hold only the rule kinds allowed there' and info.get('container') == target \
                and (target, info.get('kind')) in (('MEDIA_RULE', 'VARIABLES_RULE'), ('PAGE_RULE', 'VARIABLES_RULE'), ('PAGE_RULE', 'STYLE_RULE')) \
                and {'VARIABLES_RULE': 'variables', 'STYLE_RULE': 'style'}[info['kind']] in offered_kinds:
            return 'C09-nested-insert-kinds'
        if clause.startswith('serialising and reparsing') and target == 'MEDIA_RULE' and 'variables' in offered_kinds \
                and 'not allowed in CSSMediaRule' in (info.get('cause') or ''):
            return 'C09-nested-insert-kinds'
    if clause == 'a reachable rule names its sheet as parentStyleSheet' and info.get('depth', 0) >= 2 and info.get('got_none'):
        return 'C09-deep-nested-parentstylesheet'
    return None


MODEL = {'list': Model('list'), 'core': Model('core'), 'full': Model('full'), 'forms': Model('forms'), 'forms-core': Model('forms-core')}


def seeds(tier):
    out = [(t, True) for t in SEED_TEXTS]
    out += [(SEED_TEXTS[1], False), (SEED_TEXTS[2], False)]
    return out


# ---- concrete witnesses of the recorded findings (True while the defect is still there)
def _parse(text):
    import cssutils
    return cssutils.CSSParser(fetcher=_nofetch).parseString(text)


def _w_ordered_add():
    from cssutils import css
    s = _parse('/*c*/ @import "x.css";')
    s.add(css.CSSNamespaceRule(namespaceURI='u', prefix='p'))
    t = types(s)
    return t.index('NAMESPACE_RULE') < t.index('IMPORT_RULE')


def _w_ahead_of_variables():
    from cssutils import css
    s = _parse('@variables { v: 1 }')
    try:
        s.insertRule(css.CSSStyleRule('a', 'left: 0'), 0)
    except xml.dom.DOMException:
        return False
    return types(s) == ['STYLE_RULE', 'VARIABLES_RULE']


def _w_not_inserted():
    from cssutils import css
    s = _parse('@charset "utf-8"; a { left: 0 }')
    r = css.CSSCharsetRule('ascii')
    s.add(r)
    return all(x is not r for x in s.cssRules) and r.parentStyleSheet is s


def _w_text_replacement():
    s = _parse('a { left: 0 }')
    r = s.cssRules[0]
    s.cssText = 'b { top: 0 }'
    return r.parentStyleSheet is s


def _w_nested_kinds():
    from cssutils import css
    p = css.CSSPageRule(':first', 'margin: 0')
    try:
        p.insertRule(css.CSSStyleRule('a', 'left: 0'))
    except xml.dom.DOMException:
        return False
    return types(p) == ['STYLE_RULE']


def _w_deep_nested():
    s = _parse('@media print { @media screen { a { left: 0 } } }')
    return s.cssRules[0].cssRules[0].cssRules[0].parentStyleSheet is None


def _w_refused_ns_insert():
    import cssutils
    from cssutils import css
    s = _parse('@namespace p "u"; p|a { left: 0 }')
    r = css.CSSNamespaceRule(namespaceURI='v', prefix='p')
    old = cssutils.log.raiseExceptions
    cssutils.log.raiseExceptions = True
    try:
        s.insertRule(r, 0)
        return False
    except xml.dom.DOMException:
        pass
    finally:
        cssutils.log.raiseExceptions = old
    return any(x is r for x in s.cssRules) and r.parentStyleSheet is None


WITNESS = {
    'C09-ordered-add-ahead-of-import': _w_ordered_add,
    'C09-rule-ahead-of-variables': _w_ahead_of_variables,
    'C09-not-inserted-names-sheet': _w_not_inserted,
    'C09-text-replacement-keeps-parents': _w_text_replacement,
    'C09-nested-insert-kinds': _w_nested_kinds,
    'C09-deep-nested-parentstylesheet': _w_deep_nested,
    'C09-refused-namespace-insert-stays': _w_refused_ns_insert,
}


def known_witnesses(ctx):
    import cssutils
    lvl = cssutils.log.getEffectiveLevel()
    cssutils.log.setLevel(logging.FATAL)
    try:
        for kid, f in WITNESS.items():
            try:
                still = bool(f())
            except Exception:
                still = False
            ctx.known_finding(kid, still)
    finally:
        cssutils.log.setLevel(lvl)
        cssutils.ser.prefs.useDefaults()


R, L = True, False   # raising / logging mode of cssutils.log
SMALL = [('', R), ('/*c*/', R)]
# seed sheets of the 'forms' pool: nested lists that are empty / hold one rule / hold several kinds (one of them a nested @media), top-level lists
# that are empty / hold the leading kinds / hold only late kinds
FORM_SEED_TEXTS = [
    SEED_TEXTS[2],
    '@media print { } @page { }',
    '@import "x.css"; @namespace p "urn:p"; @media print { p|a { left: 0 } @media screen { b { top: 0 } } /*k*/ } @page { @top-left { left: 0 } @bottom-center { top: 0 } }',
    SEED_TEXTS[1],
    '',
]
FORMS_CORE_LABEL = ('C09 forms-core pool (CSSRuleList arguments of one kind or [anchor, kind] handed to insertRule(list, 0) and cssRules.extend(list), cssRules.append(rule), '
                    'deleteRule on the first @media and the first @page, all kinds)')
FORMS_LABEL = ('C09 forms pool (list-valued argument forms: insertRule(list, index) / cssRules.extend(list) / cssRules.append(list) / cssRules.append(rule) on the sheet, '
               'the first @media and the first @page; CSSRuleList, plain list and the live cssRules of another sheet; the empty list, every one-kind list, '
               '[anchor, kind] / [kind, anchor] pairs and [anchor, kind, anchor] triples over all kinds)')


def sequences(ctx):
    """all operation sequences up to the tier's length (see module docstring of bounded/histories.py for what 'all' means)"""
    from bounded import histories
    S = SEED_TEXTS
    if ctx.tier == 'quick':
        histories.explore(ctx, 'bounded.c09', 'core', [('', R)], 3, label='C09 core pool, sequences <= 3 from the empty sheet',
                          samples=[{'seed': '', 'ops': [['ins', 'comment', 0], ['add', 'import'], ['add', 'namespace']]}])
        histories.explore(ctx, 'bounded.c09', 'list', [('/*c*/', R), ('', L)], 3, label='C09 list pool (insert at every index / ordered add / delete, ten kinds), sequences <= 3')
        histories.explore(ctx, 'bounded.c09', 'full', [(S[1], R), (S[2], R), (S[3], R), (S[1], L), (S[2], L)], 2,
                          label='C09 full pool (text and object forms, every index, sheet/rule text, encoding, namespace mapping, nested @media/@page lists), sequences <= 2',
                          samples=[{'seed': S[1], 'ops': [['ins', 'comment', 2], ['ins', 'style', 2]]}])
        _forms(ctx, 'forms', [(t, m) for t in FORM_SEED_TEXTS for m in (R, L)], 1)
        _forms(ctx, 'forms-core', [(S[2], R), (S[2], L)], 2)
    else:
        histories.explore(ctx, 'bounded.c09', 'list', [('', R), ('/*c*/', R), ('', L)], 4, label='C09 list pool (insert at every index / ordered add / delete, ten kinds), sequences <= 4')
        histories.explore(ctx, 'bounded.c09', 'core', [(S[0], R), (S[1], R), (S[2], R), (S[0], L)], 3, label='C09 core pool, sequences <= 3')
        histories.explore(ctx, 'bounded.c09', 'full', [('', R)], 3, label='C09 full pool, sequences <= 3 from the empty sheet')
        histories.explore(ctx, 'bounded.c09', 'full', seeds(ctx.tier), 2, unmerged_depth=2,
                          label='C09 full pool (text and object forms, every index, sheet/rule text, encoding, namespace mapping, nested @media/@page lists), sequences <= 2',
                          samples=[{'seed': S[1], 'ops': [['ins', 'comment', 2], ['ins', 'style', 2]]}])
        _forms(ctx, 'forms', [(t, m) for t in FORM_SEED_TEXTS for m in (R, L)], 1)
        _forms(ctx, 'forms', [(S[2], R), (S[2], L), (FORM_SEED_TEXTS[2], R)], 2)


def _forms(ctx, pool, seed_states, depth):
    """the list-valued argument forms (pool 'forms'; 'forms-core' is its nested-list part with one-kind and [anchor, kind] CSSRuleLists only)"""
    from bounded import histories
    what = FORMS_LABEL if pool == 'forms' else FORMS_CORE_LABEL
    histories.explore(ctx, 'bounded.c09', pool, seed_states, depth, label=f'{what}, sequences <= {depth} from {len(seed_states)} seed states',
                      samples=[{'seed': SEED_TEXTS[2], 'ops': [['n_l_ext', 1, 'rulelist', 'style+font-face']]},
                               {'seed': SEED_TEXTS[2], 'ops': [['n_del', 2, 0], ['n_l_ins', 2, 'rulelist', 'margin+media', 0]]}])
    if pool == 'forms':
        lists = ('list arguments of <= 3 rules (empty, one kind, [anchor, kind], [kind, anchor], [anchor, kind, anchor]; anchor = style / @import at top level, style in @media, '
                 'margin rule in @page) as CSSRuleList, plain Python list and live cssRules of another parsed sheet; targets: the sheet, its first @media, its first @page')
    else:
        lists = 'CSSRuleList arguments of <= 2 rules (one kind, [anchor, kind]; anchor = style in @media, margin rule in @page); targets: the first @media and the first @page of the sheet'
    ctx.bounded[-1]['bound'] = f'sequences of <= {depth} operations over the {pool} pool; {lists}; raising and logging mode; rule objects of fixed text per kind'


def random_walks(ctx):
    if ctx.tier != 'thorough':
        return
    from bounded import histories
    histories.walks(ctx, 'bounded.c09', 'full', seeds(ctx.tier), 320, 200, label='C09 random walks over the full pool')
    histories.walks(ctx, 'bounded.c09', 'forms', [(t, m) for t in FORM_SEED_TEXTS[:3] for m in (R, L)], 96, 200, label='C09 random walks over the forms pool (list-valued argument forms)')
