"""C07 bounded stand-in: run-time contracts on the css codec over exhaustively enumerated small domains."""
import codecs
import io
import itertools

from contracts.codec import full_spec, uni_spec, fix_spec

CLASSES = [0xEF, 0xBB, 0xBF, 0xFF, 0xFE, 0x00, 0x40, 0x63, 0x68, 0x61, 0x78]  # the byte classes the detector distinguishes + 'x'
TAILS = [b'', b'rset "', b'rset "x"', b'rset "x";a']


def prefixes(ctx):
    import cssutils.codec as C
    n = 0
    nt = set()
    samples = []
    for L in range(0, 5):
        for tup in itertools.product(CLASSES, repeat=L):
            head = bytes(tup)
            for tail in (TAILS if L == 4 else [b'']):
                b = head + tail
                n += 1
                rf = C.detectencoding_str(b, True)
                if rf != full_spec(b):
                    ctx.violation('bounded: detectencoding_str(final=True) == CSS 2.1 spec', f'input {b!r}: {rf!r} != {full_spec(b)!r}', True, {'input': repr(b)},
                                  known_id=None)
                rn = C.detectencoding_str(b, False)
                if rn[0] is not None:
                    nt.add(rn)
                    # never a wrong encoding: every extension by up to 2 class bytes / the tails agrees
                    for ext in [bytes(e) for k in (1, 2) for e in itertools.product(CLASSES[:7], repeat=k)] + TAILS[1:]:
                        if full_spec(b + ext) != rn:
                            ctx.violation('bounded: non-final answer is stable under extension', f'{b!r} -> {rn!r} but {b + ext!r} -> {full_spec(b + ext)!r}', True,
                                          {'input': repr(b), 'ext': repr(ext)})
                            break
                if len(samples) < 3 and L == 4:
                    samples.append({'input': repr(b), 'final': rf, 'nonfinal': rn})
    ctx.bounded.append({'name': 'detector over byte classes', 'evaluations': n, 'distinct_nontrivial': len(nt), 'exhaustive': True,
                        'rule': 'all byte strings of <= 4 bytes over the 11 byte classes the detector distinguishes (+4 continuation tails); non-trivial = distinct definite non-final answers',
                        'samples': samples, 'bound': 'length <= 4 class bytes'})


TEXTS = ['', 'a', 'a{}', 'aä', 'ä€', '@charset "', '@charset "x', '@charset "utf-8";', '@charset "utf-8";aä', '@charset "iso-8859-1";ä',
         '@charset "utf-16";x', '@chars', '@charsetx', '﻿a', '@charset "utf-8-sig";a', '@charset "utf_8_sig";a', '@charset "x";@charset "y";', '@CHARSET "x";a', '@Charset "utf-8";ä', '@charset  "x";a',
         # long (IANA style) names: the closing quote sits beyond the first two dozen bytes
         '@charset "iso_8859-1:1987";ä', '@charset "csisolatincyrillic";a', '@charset "windows-1252";ä{}',
         # non-Latin content (for the long-named and the stateful encodings below): the last character is not ASCII
         'я', '@charset "utf-8";aя', 'aあ', '@charset "utf-8";あ']
ENCODINGS = ['utf-8', 'utf-8-sig', 'utf-16', 'utf-16-le', 'utf-16-be', 'utf-32', 'utf-32-le', 'utf-32-be', 'iso-8859-1', 'cp1252',
             # names of 18 and more characters (the rewritten @charset rule's closing quote sits beyond byte 28) and stateful encodings
             # (the encoder owes a final escape sequence that only the final call flushes)
             'csisolatincyrillic', 'cspc850multilingual', 'iso2022_jp', 'hz']


def partitions(n, full_limit):
    """all compositions of range(n) into consecutive chunks if n <= full_limit, else all with <= 3 cuts"""
    if n == 0:
        yield []
        yield [0]
        return
    if n <= full_limit:
        for mask in range(1 << (n - 1)):
            cuts = [i + 1 for i in range(n - 1) if mask >> i & 1]
            yield cuts
    else:
        yield []
        for k in (1, 2, 3):
            for cuts in itertools.combinations(range(1, n), k):
                if k == 3 and (cuts[0] > 14 or cuts[2] - cuts[0] > 12):
                    continue
                yield list(cuts)


def cut(data, cuts):
    out = []
    last = 0
    for c in cuts:
        out.append(data[last:c])
        last = c
    out.append(data[last:])
    return out


def roundtrip_and_chunking(ctx):
    import cssutils.codec as C
    full_limit = 9 if ctx.tier == 'quick' else 12
    n = 0
    nt = set()
    samples = []
    for t in TEXTS:
        for E in ENCODINGS:
            try:
                t.encode(E)
            except UnicodeEncodeError:
                continue
            # round trip with the encoding given
            try:
                data = C.encode(t, encoding=E)[0]
                back = C.decode(data, encoding=E)[0]
            except Exception as e:
                ctx.violation('bounded: decode(encode(t,E),E) returns', f'text {t!r} encoding {E}: {type(e).__name__}: {e}', True, {'text': t, 'encoding': E})
                continue
            n += 1
            want = fix_spec(t, E)
            if E.replace('_', '-').lower() == 'utf-8-sig':
                want = fix_spec(t, 'utf-8')
            if back != want:
                ctx.violation('bounded: decode(encode(t,E),E) == text with @charset rewritten', f'text {t!r} encoding {E}: got {back!r}, want {want!r}', True,
                              {'text': t, 'encoding': E})
            # auto-detected when the bytes carry a BOM or an @charset rule naming E
            det = full_spec(data)
            if det[1] and det[0].replace('_', '-').lower() in (E, E + '-sig', 'utf-16' if E.startswith('utf-16') and data[:2] in (b'\xff\xfe', b'\xfe\xff') else E):
                try:
                    auto = C.decode(data)[0]
                    n += 1
                    if auto != back and not (t.startswith('﻿')):
                        ctx.violation('bounded: auto-detected decode == decode with the encoding given', f'text {t!r} encoding {E}: auto {auto!r} != {back!r}', True,
                                      {'text': t, 'encoding': E})
                except (UnicodeDecodeError, LookupError) as e:
                    # the bytes name E themselves (BOM / @charset rule, per the independent detector) and E decodes them: the auto-detecting
                    # call must not fail where the explicit one succeeds
                    ctx.violation('bounded: auto-detected decode == decode with the encoding given', f'text {t!r} encoding {E}: auto-detecting decode raised {type(e).__name__}: {e}; explicit: {back!r}', True,
                                  {'text': t, 'encoding': E})
            # chunking invariance: incremental decoder / stream reader on `data`
            oneshot = back
            for cuts in partitions(len(data), full_limit):
                chunks = cut(data, cuts)
                n += 1
                dec = C.IncrementalDecoder(encoding=E)
                try:
                    got = ''.join(dec.decode(c, False) for c in chunks) + dec.decode(b'', True)
                except Exception as e:
                    got = f'<{type(e).__name__}: {e}>'
                if got != oneshot:
                    ctx.violation('bounded: IncrementalDecoder equals one-shot for every chunking', f'text {t!r} enc {E} cuts {cuts}: {got!r} != {oneshot!r}', True,
                                  {'text': t, 'encoding': E, 'cuts': cuts})
                    break
                nt.add((t, E, len(cuts)))
            # the same with the encoding left to the detector (no encoding given): the data may stay undecided until the final call
            try:
                auto_oneshot = C.decode(data)[0]
            except Exception:
                auto_oneshot = None
            if auto_oneshot is not None:
                for cuts in partitions(len(data), min(full_limit, 8)):
                    chunks = cut(data, cuts)
                    n += 1
                    dec = C.IncrementalDecoder()
                    try:
                        got = ''.join(dec.decode(c, False) for c in chunks) + dec.decode(b'', True)
                    except Exception as e:
                        got = f'<{type(e).__name__}: {e}>'
                    if got != auto_oneshot:
                        ctx.violation('bounded: IncrementalDecoder with auto-detection equals the one-shot decoder for every chunking (final call with no data)',
                                      f'text {t!r} enc {E} cuts {cuts}: {got!r} != {auto_oneshot!r}', True, {'text': t, 'encoding': E, 'cuts': cuts, 'autodetect': True})
                        break
                    nt.add((t, E, 'auto', len(cuts)))
            # a fallback encoding that the data may overrule (force=False): the decoder has to keep buffering until the detector has decided
            for fb in ('iso-8859-1', 'utf-8'):
                try:
                    fb_oneshot = C.decode(data, encoding=fb, force=False)[0]
                except Exception:
                    continue
                for cuts in partitions(len(data), min(full_limit, 7)):
                    chunks = cut(data, cuts)
                    n += 1
                    dec = C.IncrementalDecoder(encoding=fb, force=False)
                    try:
                        got = ''.join(dec.decode(c, False) for c in chunks) + dec.decode(b'', True)
                    except Exception as e:
                        got = f'<{type(e).__name__}: {e}>'
                    if got != fb_oneshot:
                        ctx.violation('bounded: IncrementalDecoder with a fallback encoding (force=False) equals the one-shot decoder for every chunking',
                                      f'text {t!r} enc {E} fallback {fb} cuts {cuts}: {got!r} != {fb_oneshot!r}', True, {'text': t, 'encoding': E, 'fallback': fb, 'cuts': cuts})
                        break
                    nt.add((t, E, 'fallback', fb, len(cuts)))
            # incremental encoder on the text
            try:
                oneshot_b = C.encode(t, encoding=E)[0]
            except Exception:
                continue
            for cuts in partitions(len(t), full_limit):
                chunks = cut(t, cuts)
                n += 1
                enc = C.IncrementalEncoder(encoding=E)
                try:
                    gotb = b''.join(x for x in [enc.encode(c, False) for c in chunks] + [enc.encode('', True)] if x)  # falsy outputs are skipped, as codecs.iterencode does
                except Exception as e:
                    gotb = f'<{type(e).__name__}: {e}>'.encode()
                if gotb != oneshot_b:
                    ctx.violation('bounded: IncrementalEncoder equals one-shot for every chunking', f'text {t!r} enc {E} cuts {cuts}: {gotb!r} != {oneshot_b!r}', True,
                                  {'text': t, 'encoding': E, 'cuts': cuts})
                    break
                # stream writer
                bio = io.BytesIO()
                sw = C.StreamWriter(bio, encoding=E)
                try:
                    for c in chunks:
                        sw.write(c)
                    gots = bio.getvalue()
                except Exception as e:
                    gots = f'<{type(e).__name__}: {e}>'.encode()
                # a stream writer has no "final" call: a text that is a proper prefix of an @charset rule stays buffered
                if gots != oneshot_b and not (gots == b'' and ('@charset "'.startswith(t) or (t.startswith('@charset "') and t.find('"', 10) < 0))):
                    ctx.violation('bounded: StreamWriter equals one-shot for every chunking', f'text {t!r} enc {E} cuts {cuts}: {gots!r} != {oneshot_b!r}', True,
                                  {'text': t, 'encoding': E, 'cuts': cuts})
                    break
            # stream reader with several read sizes
            for size in (-1, 1, 2, 3, 7):
                n += 1
                sr = C.StreamReader(io.BytesIO(data), encoding=E)
                try:
                    parts = []
                    while True:
                        x = sr.read(size) if size > 0 else sr.read()
                        if not x:
                            break
                        parts.append(x)
                        if len(parts) > 500:
                            break
                    gotr = ''.join(parts)
                except Exception as e:
                    gotr = f'<{type(e).__name__}: {e}>'
                if gotr != oneshot and not (gotr == '' and t.startswith('@charset "') and t.find('"', 10) < 0) and not ('@charset "'.startswith(t) and gotr == ''):
                    # recorded finding: the css StreamReader decodes each chunk statelessly, so a read that cuts an escape sequence of a
                    # STATEFUL encoding raises 'incomplete / illegal multibyte sequence' (class: this clause, stateful encoding, that very error)
                    kid = 'C07-streamreader-stateful-encoding' if (E in ('iso2022_jp', 'hz') and gotr.startswith('<UnicodeDecodeError') and 'multibyte sequence' in gotr) else None
                    ctx.violation('bounded: StreamReader equals one-shot for every read size', f'text {t!r} enc {E} size {size}: {gotr!r} != {oneshot!r}', True,
                                  {'text': t, 'encoding': E, 'size': size}, known_id=kid)
            if len(samples) < 3 and t and E != 'utf-8':
                samples.append({'text': t, 'encoding': E, 'bytes': repr(data), 'partitions': 'all' if len(data) <= full_limit else '<=3 cuts'})
    ctx.bounded.append({'name': 'round trip and chunking', 'evaluations': n, 'distinct_nontrivial': len(nt),
                        'rule': f'{len(TEXTS)} texts x {len(ENCODINGS)} encodings; every partition of the byte/char sequence when length <= {full_limit}, else all partitions with <= 3 cuts; '
                                'checks the assumed stdlib incremental-codec contract; non-trivial = distinct (text, encoding, number of cuts)',
                        'samples': samples, 'bound': f'texts fixed list, partitions complete up to length {full_limit}'})
