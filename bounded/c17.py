"""C17 bounded stand-in: media lists as canonical ordered sets, media queries through parse + serialisation.

Oracles are independent of cssutils: lists and queries are generated from structures ((prefix, media type, [(feature, value)])), the
serialised text is read back by a small scanner of its own (read_list / read_query), well-formedness of token strings is decided by a
reference recogniser written from the grammar in the statement / the MediaQuery docstring, and edit histories are run in lock-step
with a reference model (ordered set of simple media types, 'all' absorbing, complex queries kept as they are)."""
import itertools
import logging
import multiprocessing
import re

TYPES = ['all', 'braille', 'handheld', 'print', 'projection', 'speech', 'screen', 'tty', 'tv', 'embossed']

K_ITER = 'C17-iteration-yields-items'
K_COMMENT = 'C17-comment-counted-as-item'
K_CASE = 'C17-parse-canonicalisation-case-sensitive'
K_SETITEM = 'C17-setitem-no-canonicalisation'
K_DANGLING = 'C17-dangling-and-accepted'
K_MSTALE = 'C17-member-text-keeps-old-media-type'
K_MCANON = 'C17-member-text-no-canonicalisation'
K_MLOG = 'C17-member-rejected-in-logging-mode-empties-entry'
K_IMPORT_FIRST = 'C17-import-media-feature-first'


def _quiet():
    import cssutils
    cssutils.log.setLevel(logging.FATAL)
    cssutils.log.raiseExceptions = True
    cssutils.ser.prefs.useDefaults()
    return cssutils


def _clean():
    """test hygiene: the production parser keeps handed-back tokens in a module-level list (the subject of C12); every evaluation
    here starts with that list empty so that one evaluation cannot influence the verdict of the next"""
    import cssutils.prodparser as pp
    left = list(getattr(pp, 'savedTokens', []))
    del pp.savedTokens[:]
    return left


# ----------------------------------------------------------------------------------------------------------------------------
# independent reader of a serialised media list
def strip_comments(text):
    return re.sub(r'/\*.*?\*/', ' ', text, flags=re.S)


def split_top(text, sep=','):
    out, depth, cur = [], 0, []
    for ch in text:
        if ch == '(':
            depth += 1
        elif ch == ')':
            depth -= 1
        if ch == sep and depth == 0:
            out.append(''.join(cur))
            cur = []
        else:
            cur.append(ch)
    out.append(''.join(cur))
    return out


def read_query(q):
    """query text -> (prefix, media type, ((feature, value), ...)), keywords/type/features lower-cased; ValueError if not of that shape"""
    q = q.strip()
    n = len(q)
    i = 0

    def ws():
        nonlocal i
        while i < n and q[i] in ' \t\n\r\f':
            i += 1

    def word():
        nonlocal i
        j = i
        while i < n and q[i] not in ' \t\n\r\f():,':
            i += 1
        if i == j:
            raise ValueError(f'word expected at {j} in {q!r}')
        return q[j:i]

    prefix = typ = None
    exprs = []
    ws()
    if i >= n:
        raise ValueError('empty query')
    if q[i] != '(':
        w = word().lower()
        if w in ('not', 'only'):
            prefix = w
            ws()
            w = word().lower()
        typ = w
    first = typ is None
    while True:
        ws()
        if i >= n:
            break
        if not first:
            if word().lower() != 'and':
                raise ValueError(f'and expected in {q!r}')
            ws()
        first = False
        if i >= n or q[i] != '(':
            raise ValueError(f'( expected in {q!r}')
        i += 1
        ws()
        feat = word().lower()
        ws()
        val = None
        if i < n and q[i] == ':':
            i += 1
            j = i
            depth = 0
            while i < n and not (q[i] == ')' and depth == 0):
                depth += (q[i] == '(') - (q[i] == ')')
                i += 1
            val = q[j:i].strip()
            if not val:
                raise ValueError(f'value expected in {q!r}')
        if i >= n or q[i] != ')':
            raise ValueError(f') expected in {q!r}')
        i += 1
        exprs.append((feat, val))
    return (prefix, typ, tuple(exprs))


def read_list(text):
    text = strip_comments(text).strip()
    if not text:
        return []
    return [read_query(q) for q in split_top(text)]


def simple_type(struct):
    return struct[1] if struct[0] is None and not struct[2] else None


def canon(structs):
    """the canonical form of the statement: a simple 'all' absorbs everything, a simple media type is kept once (first occurrence),
    queries with features / not / only are kept as they are"""
    if any(simple_type(s) == 'all' for s in structs):
        return [(None, 'all', ())]
    seen, out = set(), []
    for s in structs:
        t = simple_type(s)
        if t is not None:
            if t in seen:
                continue
            seen.add(t)
        out.append(s)
    return out


def render(struct, style=0):
    prefix, typ, exprs = struct
    up = (lambda s: s.upper()) if style == 2 else (lambda s: s)
    head = ' '.join(x for x in (up(prefix) if prefix else None, up(typ) if typ else None) if x)
    es = []
    for f, v in exprs:
        if style == 1:
            es.append(f'( {f} )' if v is None else f'( {f}:{v} )')
        else:
            es.append(f'({up(f)})' if v is None else f'({up(f)}: {v})')
    parts = ([head] if head else []) + es
    return (' ' + up('and') + ' ').join(parts)


def unwrap(x):
    return x.value if type(x).__name__ == 'Item' and hasattr(x, 'value') else x


def observe(ml, want, ML, reparse=True, clean=True):
    """every observation of the statement on a media list against the expected query structures; [(clause, detail, known id)];
    clean=False: the reparse runs on the production parser's state as the preceding edits left it (nothing is emptied in between)"""
    bad = []
    text = ml.mediaText
    has_comment = '/*' in text
    try:
        got = read_list(text)
    except ValueError as e:
        return [('bounded: mediaText is a comma separated list of media queries', f'{text!r}: {e}', None)]
    shown = want if want else [(None, 'all', ())]
    if got != shown:
        bad.append(('bounded: mediaText lists the expected queries in order (all for the empty list)', f'mediaText {text!r} expected {shown!r}', None))
    if ml.length != len(want):
        bad.append(('bounded: length counts the media queries', f'length {ml.length} expected {len(want)} ({text!r})', None))
    if len(ml) != ml.length:
        bad.append(('bounded: len() equals length', f'len {len(ml)} length {ml.length} ({text!r})', K_COMMENT if has_comment else None))
    its = list(ml)
    if any(type(x).__name__ != 'MediaQuery' for x in its):
        bad.append(('bounded: iteration yields MediaQuery objects like indexing does', f'{[type(x).__name__ for x in its]!r} ({text!r})', K_ITER))
    its = [unwrap(x) for x in its]
    try:
        it_structs = [read_query(strip_comments(x.mediaText)) for x in its]
    except ValueError as e:
        it_structs = None
        bad.append(('bounded: iteration yields the queries of the list', f'{e} ({text!r})', None))
    if it_structs is not None and it_structs != want:
        bad.append(('bounded: iteration yields the queries of the list', f'{it_structs!r} expected {want!r}', None))
    kid = K_COMMENT if has_comment else None
    try:
        idx = [ml[i] for i in range(ml.length)]
        if len(idx) != len(its) or any(a is not b for a, b in zip(idx, its)):
            bad.append(('bounded: indexing and iteration agree', f'indexing {[getattr(x, "mediaText", x) for x in idx]!r} iteration {[x.mediaText for x in its]!r}', kid))
        items = [ml.item(i) for i in range(ml.length)]
        witems = [simple_type(s) or '' for s in want]
        if [(x or '').lower() for x in items] != witems:
            bad.append(('bounded: item(i) gives the media type of the i-th query', f'items {items!r} expected {witems!r} ({text!r})', kid))
        if ml.item(len(ml)) is not None:
            bad.append(('bounded: item(i) beyond the end is None', f'item({len(ml)}) = {ml.item(len(ml))!r}', kid))
    except Exception as e:
        bad.append(('bounded: indexing and item(i) work on every list', f'{type(e).__name__}: {e} ({text!r})', kid))
    if reparse:
        if clean:
            _clean()
        try:
            again = ML(text)
            t2, l2 = again.mediaText, again.length
        except Exception as e:
            bad.append(('bounded: mediaText reparses to an equal list', f'{text!r}: {type(e).__name__}: {e}', None))
        else:
            try:
                g2 = read_list(t2)
            except ValueError:
                g2 = None
            # an empty list means 'all': it is written as 'all' and comes back as the one-entry list all
            if g2 != got or l2 != (ml.length or 1):
                kid2 = K_CASE if _case_class(got, text) else None
                bad.append(('bounded: mediaText reparses to an equal list', f'{text!r} -> {t2!r} (length {ml.length} -> {l2})', kid2))
    return bad


def _case_class(structs, text):
    """class of the recorded finding K_CASE: the text holds a simple media type twice, or 'all' beside other entries, and that is only
    visible after case folding / unescaping (the reader folds the case; an escaped spelling stays distinct for it)"""
    return canon(structs) != structs and (text != text.lower() or '\\' in text)


def make(ML, text):
    """(list or None, rejected?)"""
    import xml.dom
    _clean()
    try:
        ml = ML(text)
    except xml.dom.DOMException:
        return None
    return ml if (ml.wellformed or not text) else None


# ----------------------------------------------------------------------------------------------------------------------------
def _premise():
    cssutils = _quiet()
    from cssutils.stylesheets import MediaQuery
    if sorted(MediaQuery.MEDIA_TYPES) != sorted(TYPES):
        raise AssertionError('oracle premise: the ten known media types of the statement')
    return cssutils


def type_lists(ctx):
    """all lists over the ten known media types up to length 3 (quick) / 4 (thorough), three spacings"""
    cssutils = _premise()
    from cssutils.stylesheets import MediaList as ML
    maxlen = 3 if ctx.tier == 'quick' else 4
    n = 0
    kinds = set()
    fails = []
    for L in range(0, maxlen + 1):
        for tup in itertools.product(TYPES, repeat=L):
            for sep in ((', ', ',', ' ,\n') if L <= 3 else (', ',)):
                if L < 2 and sep != ', ':
                    continue
                text = sep.join(tup)
                want = canon([(None, t, ()) for t in tup])
                n += 1
                kinds.add((L, len(want), 'all' in tup, len(set(tup)) < L))
                ml = make(ML, text)
                if ml is None:
                    fails.append(('bounded: a list of known media types is accepted', f'{text!r}', None, {'mediaText': text}))
                    continue
                for what, detail, kid in observe(ml, want, ML):
                    fails.append((what, f'{text!r}: {detail}', kid, {'mediaText': text}))
    _report(ctx, fails)
    try:
        still = type(list(ML('print'))[0]).__name__ != 'MediaQuery'
    except Exception:
        still = True
    ctx.known_finding(K_ITER, still)
    ctx.bounded.append({'name': 'lists of media types', 'evaluations': n, 'distinct_nontrivial': len(kinds), 'exhaustive': True,
                        'rule': f'every list of length 0..{maxlen} over the ten known media types (three separators spellings up to length 3): canonical form (all absorbs, a type once, '
                                'empty means all), length / len / item(i) / indexing / iteration agree, mediaText read back by an independent scanner and reparsed; '
                                'distinct = (length, canonical length, has all, has duplicate)',
                        'samples': [{'mediaText': 'print, all, tv', 'expected': 'all'}, {'mediaText': 'tv, print, tv', 'expected': 'tv, print'}],
                        'bound': f'length <= {maxlen}'})


def _report(ctx, fails, cap=3):
    seen = {}
    for what, detail, kid, inputs in fails:
        seen.setdefault((what, kid), []).append((len(repr(inputs)), detail, inputs))
    for (what, kid), lst in seen.items():
        lst.sort(key=lambda t: (t[0], t[1]))
        for _, detail, inputs in lst[:cap]:
            ctx.violation(what, detail, True, inputs, known_id=kid)


def case_and_comment_lists(ctx):
    """media types in other letter case / with escapes, and comments between the entries"""
    cssutils = _premise()
    from cssutils.stylesheets import MediaList as ML
    spell = {'print': ['print', 'PRINT', 'Print', 'p\\rint'], 'all': ['all', 'ALL', 'a\\ll'], 'tv': ['tv', 'TV', 't\\v']}
    pool = [(t, s) for t in spell for s in spell[t]]
    n = 0
    kinds = set()
    fails = []
    for L in (1, 2, 3):
        for tup in itertools.product(pool, repeat=L):
            text = ', '.join(s for _, s in tup)
            want = canon([(None, t, ()) for t, _ in tup])
            plain = all(s == t for t, s in tup)
            n += 1
            kinds.add((L, len(want), tuple(s == t for t, s in tup)))
            ml = make(ML, text)
            if ml is None:
                fails.append(('bounded: a list of known media types in any letter case is accepted', f'{text!r}', None, {'mediaText': text}))
                continue
            # the reader lower-cases the type but keeps an escape: compare through the table of spellings
            back = {s.lower(): t for t in spell for s in spell[t]}
            got_types = [back.get(q[1], q[1]) for q in read_list(ml.mediaText)]
            want_types = [q[1] for q in want]
            # class of the recorded finding: a type that would be absorbed or dropped is spelled differently from its partner
            dup = len(want) < L
            kid = K_CASE if (dup and not plain) else None
            if got_types != want_types or ml.length != len(want):
                fails.append(('bounded: canonical form does not depend on the spelling of the media type', f'{text!r} -> {ml.mediaText!r} expected types {want_types!r}', kid,
                              {'mediaText': text}))
                continue
            _clean()
            again = make(ML, ml.mediaText)
            if again is None or again.length != ml.length:
                fails.append(('bounded: mediaText reparses to an equal list', f'{text!r} -> {ml.mediaText!r}', kid, {'mediaText': text}))
    # comments
    for tup in itertools.product(['print', 'tv', 'all'], repeat=2):
        for pos in range(3):
            parts = list(tup)
            text = ('/*c*/ ' if pos == 0 else '') + parts[0] + (' /*c*/' if pos == 1 else '') + ', ' + parts[1] + (' /*c*/' if pos == 2 else '')
            want = canon([(None, t, ()) for t in tup])
            n += 1
            kinds.add(('comment', pos, len(want)))
            ml = make(ML, text)
            if ml is None:
                fails.append(('bounded: a list with a comment is accepted', f'{text!r}', None, {'mediaText': text}))
                continue
            for what, detail, kid in observe(ml, want, ML):
                fails.append((what, f'{text!r}: {detail}', kid, {'mediaText': text}))
    _report(ctx, fails)
    try:
        still = ML('PRINT, print').length != 1 or ML('ALL, tv').length != 1
    except Exception:
        still = True
    ctx.known_finding(K_CASE, still)
    try:
        m = ML('/*c*/ print, screen')
        still = len(m) != m.length
        try:
            still = still or m.item(0) != 'print'
        except Exception:
            still = True
    except Exception:
        still = True
    ctx.known_finding(K_COMMENT, still)
    ctx.bounded.append({'name': 'spellings and comments', 'evaluations': n, 'distinct_nontrivial': len(kinds), 'exhaustive': True,
                        'rule': 'every list of length 1..3 over print/all/tv in 3-4 spellings each (upper case, capitalised, escaped letter); every pair over print/tv/all with a '
                                'comment before, between and after; distinct = (length, canonical length, which entries are spelled plainly)',
                        'samples': [{'mediaText': 'PRINT, print', 'expected': 'one entry'}], 'bound': 'length <= 3'})


# ----------------------------------------------------------------------------------------------------------------------------
# generated queries
EXPRS = [('color', None), ('grid', None), ('min-width', '10px'), ('max-width', '1.5em'), ('width', '0'), ('min-height', '-1px'), ('max-device-width', '800px'),
         ('min-color', '2'), ('max-color-index', '256'), ('min-monochrome', '0.5'), ('orientation', 'landscape'), ('scan', 'progressive'),
         ('min-resolution', '300dpi'), ('color', '#fff'), ('max-color', 'red'), ('x-bg', 'rgb(1, 2, 3)'), ('min-x-bg', '#a0b1c2')]


def _queries(maxexpr, exprs):
    out = []
    for k in range(0, maxexpr + 1):
        for es in itertools.product(exprs, repeat=k):
            for prefix in (None, 'not', 'only'):
                for typ in TYPES:
                    out.append((prefix, typ, tuple(es)))
            if k:
                out.append((None, None, tuple(es)))
    return out


def _query_worker(args):
    structs, styles = args
    cssutils = _quiet()
    from cssutils.stylesheets import MediaList as ML, MediaQuery as MQ
    n = 0
    kinds = set()
    fails = []
    for st in structs:
        for style in styles:
            text = render(st, style)
            n += 1
            kinds.add((st[0], st[1] is None, tuple((f.split('-')[0] in ('min', 'max'), v is None) for f, v in st[2]), style))
            inp = {'mediaText': text}
            if read_query(text) != st:
                raise AssertionError(f'oracle premise: reader and renderer disagree on {text!r}')
            _clean()
            try:
                mq = MQ(text)
                ok = mq.wellformed
            except Exception as e:
                ok = False
            if not ok:
                fails.append(('bounded: a generated media query is accepted', f'{text!r}', None, inp))
                continue
            out = mq.mediaText
            try:
                got = read_query(out)
            except ValueError as e:
                got = None
            if got != st:
                fails.append(('bounded: every feature, value and their order survive parse and serialisation', f'{text!r} -> {out!r}', None, inp))
            wt = simple_type(st) or ''
            if (mq.mediaType or '').lower() != wt:
                fails.append(('bounded: mediaType is the type of a simple query, empty otherwise', f'{text!r}: mediaType {mq.mediaType!r} expected {wt!r}', None, inp))
            _clean()
            try:
                out2 = MQ(out).mediaText
            except Exception as e:
                out2 = f'<{type(e).__name__}>'
            if out2 != out:
                fails.append(('bounded: serialised query is a fixpoint', f'{text!r} -> {out!r} -> {out2!r}', None, inp))
            # the same query as the only entry of a list
            ml = make(ML, text)
            if ml is None:
                fails.append(('bounded: a generated media query is accepted as a list', f'{text!r}', None, inp))
            else:
                for what, detail, kid in observe(ml, [st], ML):
                    fails.append((what, f'{text!r}: {detail}', kid, inp))
    return n, kinds, fails


def _run_pool(ctx, worker, tasks):
    if ctx.jobs and ctx.jobs > 1 and len(tasks) > 1:
        with multiprocessing.get_context('fork').Pool(ctx.jobs) as mp:
            return mp.map(worker, tasks, chunksize=1)
    return [worker(t) for t in tasks]


def _chunks(lst, k):
    k = max(1, k)
    size = (len(lst) + k - 1) // k
    return [lst[i:i + size] for i in range(0, len(lst), size)] if lst else []


def queries(ctx):
    _premise()
    if ctx.tier == 'quick':
        structs = _queries(1, EXPRS) + [q for q in _queries(2, EXPRS[::2]) if len(q[2]) == 2 and q[1] in (None, 'print', 'all')]
        styles = (0, 1, 2)
    else:
        structs = _queries(2, EXPRS) + [q for q in _queries(3, EXPRS[::3]) if len(q[2]) == 3 and q[1] in (None, 'screen')]
        styles = (0, 1, 2)
    res = _run_pool(ctx, _query_worker, [(c, styles) for c in _chunks(structs, 4 * (ctx.jobs or 1))])
    n = sum(r[0] for r in res)
    kinds = set().union(*[r[1] for r in res])
    _report(ctx, [f for r in res for f in r[2]])
    ctx.bounded.append({'name': 'generated media queries', 'evaluations': n, 'distinct_nontrivial': len(kinds), 'exhaustive': True,
                        'rule': f'{len(structs)} query structures (none/not/only x ten types or none x ordered expression lists over {len(EXPRS)} (feature, value) pairs: min-/max- '
                                'prefixes, length, number, ident, colour (hash, keyword, rgb()) and value-less features) in three spellings (canonical, compact with inner spaces, upper-case '
                                'keywords); parsed as MediaQuery and as one-entry MediaList, serialised text read back by an independent scanner; distinct = (prefix, typed?, expression '
                                'shapes, spelling)',
                        'samples': [{'mediaText': render(('not', 'print', (('min-width', '10px'), ('color', None))))}],
                        'bound': 'expression lists of length <= 2 (quick: all of length <= 1, every second pair; thorough: + triples over a third of the pairs)'})


QPOOL = [(None, 'print', ()), (None, 'tv', ()), (None, 'all', ()), ('not', 'print', ()), ('only', 'all', ()), (None, 'print', (('color', None),)),
         (None, 'all', (('min-width', '10px'),)), (None, None, (('color', None),)), (None, None, (('min-width', '10px'), ('max-width', '1.5em'))),
         ('not', 'tv', (('x-bg', 'rgb(1, 2, 3)'), ('orientation', 'landscape'))), ('only', 'screen', (('max-color', 'red'),)), (None, 'tv', (('grid', None),))]


def _qlist_worker(args):
    lists, = args
    cssutils = _quiet()
    from cssutils.stylesheets import MediaList as ML
    n = 0
    kinds = set()
    fails = []
    for tup in lists:
        for style in (0, 1):
            sep = ', ' if style == 0 else ','
            text = sep.join(render(s, style) for s in tup)
            want = canon(list(tup))
            n += 1
            kinds.add(tuple((s[0], simple_type(s), len(s[2])) for s in tup))
            ml = make(ML, text)
            inp = {'mediaText': text}
            if ml is None:
                fails.append(('bounded: a list of generated media queries is accepted', f'{text!r}', None, inp))
                continue
            for what, detail, kid in observe(ml, want, ML):
                fails.append((what, f'{text!r}: {detail}', kid, inp))
    return n, kinds, fails


def query_lists(ctx):
    _premise()
    maxlen = 3 if ctx.tier == 'quick' else 4
    pool = QPOOL if ctx.tier == 'quick' else QPOOL
    lists = [tup for L in range(1, maxlen + 1) for tup in itertools.product(pool if L <= 3 else pool[::2] + [pool[1]], repeat=L)]
    res = _run_pool(ctx, _qlist_worker, [(c,) for c in _chunks(lists, 4 * (ctx.jobs or 1))])
    n = sum(r[0] for r in res)
    kinds = set().union(*[r[1] for r in res])
    _report(ctx, [f for r in res for f in r[2]])
    ctx.bounded.append({'name': 'lists of media queries', 'evaluations': n, 'distinct_nontrivial': len(kinds), 'exhaustive': True,
                        'rule': f'every list of length 1..{maxlen} over a pool of {len(pool)} queries (simple types incl. all, not/only, typed and untyped expression queries, functions with '
                                'commas inside) in two spellings: canonical form of the simple types, every query intact and in order, counts/indexing/iteration, reparse; distinct = shape list',
                        'samples': [{'mediaText': 'tv, (color), print and (color)'}], 'bound': f'length <= {maxlen}'})


# ----------------------------------------------------------------------------------------------------------------------------
# token strings against a reference recogniser: one malformed query invalidates the whole list
ALPHABET = ['not', 'print', 'and', '(', ')', 'color', ':', '1px', ',']
WORDS = {'not', 'only', 'print', 'and', 'color', 'tv', 'all'}


def _expr(toks, i):
    """index after an expression starting at i, or None"""
    if i >= len(toks) or toks[i] != '(':
        return None
    i += 1
    if i >= len(toks) or toks[i] not in WORDS:
        return None
    i += 1
    if i < len(toks) and toks[i] == ':':
        i += 1
        if i >= len(toks) or not (toks[i] in WORDS or toks[i] == '1px'):
            return None
        i += 1
    if i >= len(toks) or toks[i] != ')':
        return None
    return i + 1


def ref_query(toks):
    """the grammar of the statement: [not|only]? media_type [and expression]* | expression [and expression]*"""
    if not toks:
        return False
    i = 0
    if toks[0] == '(':
        i = _expr(toks, 0)
        if i is None:
            return False
    else:
        if toks[i] in ('not', 'only'):
            i += 1
        if i >= len(toks) or toks[i] not in TYPES:
            return False
        i += 1
    while i < len(toks):
        if toks[i] != 'and':
            return False
        i = _expr(toks, i + 1)
        if i is None:
            return False
    return True


def ref_list(toks):
    """None if malformed, else the list of query token lists"""
    if not toks:
        return []
    qs, cur = [], []
    for t in toks:
        if t == ',':
            qs.append(cur)
            cur = []
        else:
            cur.append(t)
    qs.append(cur)
    return qs if all(ref_query(q) for q in qs) else None


def _dangling(toks):
    """class of the recorded finding: every malformed query of the list is a well-formed query followed by 'and' and then by
    something that is not a complete expression (nothing, a comma, another token, an expression broken off), or is the empty query
    right after such a query (its comma is the token that was handed back)"""
    qs, cur = [], []
    for t in toks:
        if t == ',':
            qs.append(cur)
            cur = []
        else:
            cur.append(t)
    qs.append(cur)

    def form(q):
        ks = [k for k in range(1, len(q)) if ref_query(q[:k])]
        return bool(ks) and q[max(ks)] == 'and'

    found = False
    for i, q in enumerate(qs):
        if ref_query(q):
            continue
        if form(q):
            found = True
        elif not q and i > 0 and not ref_query(qs[i - 1]) and form(qs[i - 1]):
            pass
        else:
            return False
    return found


def _token_worker(args):
    strings, = args
    cssutils = _quiet()
    n = 0
    kinds = set()
    fails = []
    try:
        for toks in strings:
            # raising mode: a DOM exception is the rejection; logging mode: wellformed == False is the rejection
            for raising in (True, False):
                cssutils.log.raiseExceptions = raising
                n += 1
                _token_case(toks, raising, cssutils, kinds, fails)
    finally:
        cssutils.log.raiseExceptions = True
    return n, kinds, fails


def _token_case(toks, raising, cssutils, kinds, fails):
    import xml.dom
    ML = cssutils.stylesheets.MediaList
    text = ' '.join(toks)
    qs = ref_list(list(toks))
    inp = {'mediaText': text, 'raiseExceptions': raising}
    mode = 'raising' if raising else 'logging'
    _clean()
    ml = ML('tv')
    try:
        ml.mediaText = text
        accepted = ml.wellformed
    except xml.dom.DOMException:
        accepted = False
    except Exception as e:
        fails.append(('bounded: assigning a token string never crashes', f'{text!r} ({mode} mode): {type(e).__name__}: {e}', None, inp))
        return
    _clean()
    if not toks:
        return
    if qs is None:
        kinds.add(('malformed', len(toks)))
        if accepted:
            kid = K_DANGLING if _dangling(list(toks)) else None
            fails.append(('bounded: one malformed query invalidates the whole list', f'{text!r} accepted as {ml.mediaText!r} ({mode} mode)', kid, inp))
        else:
            try:
                now = read_list(ml.mediaText)
            except ValueError:
                now = None
            if now != [(None, 'tv', ())] or ml.length != 1:
                fails.append(('bounded: a rejected mediaText leaves the list as it was', f'{text!r}: list now {ml.mediaText!r} ({mode} mode)', None, inp))
    else:
        kinds.add(('wellformed', len(qs), len(toks)))
        if not accepted:
            fails.append(('bounded: a well-formed list (reference grammar) is accepted', f'{text!r} ({mode} mode)', None, inp))
            return
        want = canon([read_query(' '.join(q)) for q in qs])
        for what, detail, kid in observe(ml, want, ML):
            fails.append((what, f'{text!r} ({mode} mode): {detail}', kid, inp))


def _valid_strings(maxlen):
    """all well-formed token strings up to maxlen tokens, generated from the grammar"""
    exprs = [['(', 'color', ')'], ['(', 'color', ':', '1px', ')'], ['(', 'print', ':', 'color', ')']]
    heads = [['print'], ['not', 'print'], ['all']]
    queries = []
    frontier = [h for h in heads] + [list(e) for e in exprs]
    while frontier:
        nxt = []
        for q in frontier:
            if len(q) <= maxlen:
                queries.append(q)
                for e in exprs:
                    nxt.append(q + ['and'] + e)
        frontier = [q for q in nxt if len(q) <= maxlen]
    out = set()
    for q in queries:
        out.add(tuple(q))
    for a in queries:
        for b in queries:
            if len(a) + 1 + len(b) <= maxlen:
                out.add(tuple(a + [','] + b))
    return sorted(out)


def token_strings(ctx):
    _premise()
    depth = 5 if ctx.tier == 'quick' else 6
    vlen = 9 if ctx.tier == 'quick' else 11
    strings = set()
    for L in range(0, depth + 1):
        strings.update(itertools.product(ALPHABET, repeat=L))
    valid = _valid_strings(vlen)
    n_exh = len(strings)
    for v in valid:
        strings.add(v)
        for i in range(len(v)):
            strings.add(v[:i] + v[i + 1:])
            for a in ALPHABET:
                if len(v) <= (8 if ctx.tier == 'quick' else 9):
                    strings.add(v[:i] + (a,) + v[i + 1:])
                    strings.add(v[:i] + (a,) + v[i:])
        for a in ALPHABET:
            strings.add(v + (a,))
    strings = sorted(strings)
    res = _run_pool(ctx, _token_worker, [(c,) for c in _chunks(strings, 8 * (ctx.jobs or 1))])
    n = sum(r[0] for r in res)
    kinds = set().union(*[r[1] for r in res])
    _report(ctx, [f for r in res for f in r[2]])
    from cssutils.stylesheets import MediaList as ML
    try:
        m = ML('print and, tv')
        still = bool(m.wellformed)
    except Exception:
        still = False
    ctx.known_finding(K_DANGLING, still)
    ctx.bounded.append({'name': 'token strings', 'evaluations': n, 'distinct_nontrivial': len(kinds), 'exhaustive': True,
                        'rule': f'every string of 0..{depth} tokens over {ALPHABET!r} ({n_exh}) plus every well-formed string of <= {vlen} tokens generated from the grammar with all its '
                                'one-token deletions, replacements, insertions and extensions; well-formedness decided by a reference recogniser of the documented grammar; malformed => '
                                'assignment rejected (DOM exception in raising mode, wellformed False in logging mode) and the previous list intact, well-formed => accepted with every query intact; distinct = (verdict, queries, tokens)',
                        'samples': [{'mediaText': 'print and ( color ) , tv'}, {'mediaText': 'print and , tv', 'expected': 'rejected'}],
                        'bound': f'{depth} tokens exhaustively; mutation neighbourhood of well-formed strings of <= {vlen} tokens'})


# ----------------------------------------------------------------------------------------------------------------------------
# edit histories against a reference model, for stand-alone lists and lists owned by @media / @import rules
Q = {'print': (None, 'print', ()), 'screen': (None, 'screen', ()), 'tv': (None, 'tv', ()), 'PRINT': (None, 'print', ()), 'all': (None, 'all', ()),
     'print and (color)': (None, 'print', (('color', None),))}
HTEXTS = [('print, screen', True), ('all', True), ('tv, print and (color), tv', True), ('/*c*/ print, screen', True), ('screen, all, tv', True), ('print, foo', False)]


def media_pool():
    P = [('append', t) for t in ('print', 'screen', 'tv', 'PRINT', 'all', 'print and (color)')]
    P += [('delete', t) for t in ('print', 'screen', 'tv', 'SCREEN', 'all', 'handheld')]
    P += [('setitem', 0, 'tv'), ('setitem', 1, 'print'), ('setitem', -1, 'screen'), ('setitem', 0, 'all')]
    P += [('text', i) for i in range(len(HTEXTS))]
    # mediaText of ONE query of the list (the query objects of a history come from list parses, appendMedium and item assignment alike)
    P += [('member', 0, 'screen', True), ('member', -1, 'print and (color)', True), ('member', 0, 'screen foo', False), ('member', -1, 'tv, print', False)]
    return P


class MModel:
    def __init__(self, entries):
        self.e = list(entries)
        self.hit = None

    def apply(self, op, has_comment):
        """returns True if the operation is accepted, False if it is rejected (state unchanged)"""
        k = op[0]
        if k == 'append':
            s = Q[op[1]]
            t = simple_type(s)
            if any(simple_type(x) == 'all' for x in self.e):
                return False
            if t == 'all':
                self.e = [s]
            elif t is not None:
                if any(simple_type(x) == t for x in self.e) and has_comment:
                    self.hit = K_COMMENT
                self.e = [x for x in self.e if simple_type(x) != t] + [s]
            else:
                self.e.append(s)
            return True
        if k == 'delete':
            t = op[1].lower()
            if not any(simple_type(x) == t for x in self.e):
                return False
            if has_comment:
                self.hit = K_COMMENT
            self.e = [x for x in self.e if simple_type(x) != t]
            return True
        if k == 'setitem':
            i = op[1]
            if has_comment:
                self.hit = K_COMMENT
            if not -len(self.e) <= i < len(self.e):
                return False
            new = list(self.e)
            new[i] = Q[op[2]]
            if canon(new) != new:
                # the assignment produces a simple type twice or all beside other entries (with a comment in the list the input is in
                # both recorded classes; it is filed under this one, which does not depend on the comment)
                self.hit = K_SETITEM
            self.e = canon(new)
            return True
        if k == 'member':
            i, text, ok = op[1], op[2], op[3]
            if has_comment:
                self.hit = K_COMMENT
            if not -len(self.e) <= i < len(self.e) or not ok:
                return False
            s = read_query(text)
            new = list(self.e)
            new[i] = s
            if simple_type(self.e[i]) is not None and simple_type(s) is None:
                self.hit = K_MSTALE
            if canon(new) != new:
                self.hit = K_MCANON
            self.e = canon(new)
            return True
        if k == 'text':
            text, ok = HTEXTS[op[1]]
            if not ok:
                return False
            self.e = canon(read_list(text))
            return True
        raise AssertionError(op)


def _owner(kind, cssutils):
    """(owner rule or None, media list, initial entries)"""
    if kind == 'standalone':
        return None, cssutils.stylesheets.MediaList(), []
    sheet = cssutils.parseString('@import "x.css"; @media all { a { left: 0 } }')
    rule = sheet.cssRules[0 if kind == 'import' else 1]
    return rule, rule.media, [(None, 'all', ())]


def _owner_text(kind, rule):
    text = rule.cssText
    if kind == 'media':
        return text[len('@media'):text.index('{')]
    m = re.match(r'@import\s+(?:url\([^)]*\)|"[^"]*")(.*);$', text, re.S)
    return m.group(1) if m else '<unreadable: %s>' % text


def run_media_sequence(kind, seq, pool, cssutils):
    import xml.dom
    ML = cssutils.stylesheets.MediaList
    _clean()
    rule, ml, init = _owner(kind, cssutils)
    model = MModel(init)
    bad = []
    for step, pi in enumerate(seq):
        op = pool[pi]
        before = ml.mediaText
        has_comment = '/*' in before
        model.hit = None
        accepted_want = model.apply(op, has_comment)
        # (nothing is emptied between the steps of one history: each edit and the final reparse run on the production parser's state
        # as the preceding edits left it)
        try:
            if op[0] == 'append':
                ml.appendMedium(op[1])
            elif op[0] == 'delete':
                ml.deleteMedium(op[1])
            elif op[0] == 'setitem':
                ml[op[1]] = op[2]
            elif op[0] == 'member':
                ml[op[1]].mediaText = op[2]
            else:
                ml.mediaText = HTEXTS[op[1]][0]
            accepted = True
        except (xml.dom.DOMException, IndexError):
            accepted = False
        except Exception as e:
            bad.append(('bounded: no edit crashes', f'step {step} {op!r} on {before!r}: {type(e).__name__}: {e}', model.hit))
            return bad, model
        if accepted != accepted_want:
            what = {('append', False): "bounded: appending to a list that holds 'all' is rejected", ('delete', False): 'bounded: deleting an absent media type is rejected',
                    ('text', False): 'bounded: a malformed mediaText is rejected', ('setitem', False): 'bounded: item assignment beyond the end is rejected',
                    ('member', False): 'bounded: a malformed query assigned to a query object is rejected'}.get(
                        (op[0], accepted_want), 'bounded: an edit of the pool is accepted')
            bad.append((what, f'step {step} {op!r} on {before!r}: accepted={accepted}', model.hit))
            if not model.hit:
                return bad, model
        if model.hit:
            now = observe(ml, model.e, ML, reparse=False)
            now = [x for x in now if x[2] != K_ITER]
            if now or bad:
                # (the class of K_MSTALE is the media type reported for the re-assigned query, nothing else)
                bad.extend((w, f'step {step} {op!r} on {before!r}: {d}', model.hit if model.hit != K_MSTALE or w == 'bounded: item(i) gives the media type of the i-th query' else None)
                           for w, d, _ in now)
                return bad, model
    for w, d, kid in observe(ml, model.e, ML, clean=False):
        bad.append((w, d, kid))
    if rule is not None:
        if ml.parentRule is not rule or rule.media is not ml:
            bad.append(('bounded: an owned list stays the list of its rule', f'{kind}: parentRule {ml.parentRule!r}', None))
        try:
            got = read_list(_owner_text(kind, rule)) or [(None, 'all', ())]
        except ValueError as e:
            got = str(e)
        want = model.e or [(None, 'all', ())]
        if got != want:
            bad.append(('bounded: the owner rule is serialised with the queries of its list', f'{kind}: {rule.cssText!r} expected {want!r}', None))
    return bad, model


def _media_worker(args):
    kind, first, maxlen = args
    cssutils = _quiet()
    pool = media_pool()
    n = steps = 0
    kinds = set()
    fails = []
    for L in range(1, maxlen + 1):
        for rest in itertools.product(range(len(pool)), repeat=L - 1):
            seq = (first,) + rest
            n += 1
            steps += L
            try:
                bad, model = run_media_sequence(kind, seq, pool, cssutils)
            except Exception as e:
                bad, model = [('bounded: no observation crashes', f'{type(e).__name__}: {e}', None)], None
            if model is not None:
                kinds.add((kind, tuple(model.e)))
            ops = [list(pool[i]) for i in seq]
            for what, detail, kid in bad:
                if sum(1 for f in fails if f[0] == what and f[2] == kid) < 3:
                    fails.append((what, f'{kind} history {ops!r}: {detail}', kid, {'owner': kind, 'ops': ops, 'texts': [t for t, _ in HTEXTS]}))
    return n, steps, kinds, fails


def histories(ctx):
    cssutils = _premise()
    for key, st in Q.items():
        if read_query(key) != st:
            raise AssertionError('oracle premise: pool query structures')
    pool = media_pool()
    maxlen = 3 if ctx.tier == 'quick' else 4
    tasks = [(kind, i, maxlen) for kind in ('standalone', 'media', 'import') for i in range(len(pool))]
    res = _run_pool(ctx, _media_worker, tasks)
    n = sum(r[0] for r in res)
    steps = sum(r[1] for r in res)
    kinds = set().union(*[r[2] for r in res])
    _report(ctx, [f for r in res for f in r[3]])
    ML = cssutils.stylesheets.MediaList
    try:
        m = ML('print, tv')
        m[0] = 'tv'
        still = m.length != 1
    except Exception:
        still = False
    ctx.known_finding(K_SETITEM, still)
    try:
        m = ML('/*c*/ print, screen')
        m.deleteMedium('print')
        still = 'print' in m.mediaText
    except Exception:
        still = True
    ctx.known_finding(K_COMMENT, still)
    ctx.bounded.append({'name': 'edit histories', 'evaluations': n, 'distinct_nontrivial': len(kinds), 'exhaustive': True,
                        'rule': f'every sequence of length 1..{maxlen} over a pool of {len(pool)} edits (appendMedium of print/screen/tv/PRINT/all/a query with a feature, deleteMedium of '
                                'print/screen/tv/SCREEN/all/an absent type, item assignment at 0/1/-1, mediaText assignment of 5 well-formed texts incl. a comment and one malformed text, mediaText '
                                'assignment to the first / last QUERY of the list: a simple type, a query with a feature, a query followed by a stray token, two queries in one) '
                                "on a stand-alone list, the list of an @media rule and the list of an @import rule; reference model: append existing moves to the end, append to 'all' and "
                                'delete absent rejected with the list unchanged, delete removes exactly that type, all absorbs, a malformed text for a member rejected with the list unchanged; '
                                'all observations + owner rule text after the last step; the parser\'s handed-back tokens are emptied before a history, never inside it; '
                                f'{steps} edits applied; distinct = (owner, final model state)',
                        'samples': [{'ops': [['text', 0], ['append', 'print'], ['delete', 'screen']]}], 'bound': f'length <= {maxlen}, pool of {len(pool)}, 3 owners'})


# ----------------------------------------------------------------------------------------------------------------------------
# mediaText assigned to a MEMBER query of a list, for every way in which the member object can have come into being

MBASE = [(None, 'tv', ()), (None, 'print', (('color', None),)), (None, None, (('min-width', '10px'),))]
MPLACE = ['screen', 'handheld', 'tty']
ORIGINS = ['constructor', 'mediaText', 'media rule', 'import rule', 'media rule mediaText', 'import rule mediaText', 'appendMedium(text)', 'appendMedium(query)',
           'item assignment(text)', 'item assignment(query)', 'stand-alone query']


def _member_origin(origin, k, cssutils):
    """(owner kind or None, owner rule or None, list or None, the k-th query object): a list that reads MBASE whose query objects were
    created in the named way (by the list parser, by the rule parsers, by appendMedium / item assignment from a text or from a
    stand-alone query object), or a stand-alone query"""
    ML, MQ = cssutils.stylesheets.MediaList, cssutils.stylesheets.MediaQuery
    texts = [render(s) for s in MBASE]
    T = ', '.join(texts)
    kind = rule = None
    if origin == 'stand-alone query':
        return None, None, None, MQ(texts[k])
    if origin == 'constructor':
        ml = ML(T)
    elif origin == 'mediaText':
        ml = ML('all')
        ml.mediaText = T
    elif origin in ('media rule', 'media rule mediaText'):
        kind = 'media'
        rule = cssutils.parseString('@media %s { a { left: 0 } }' % (T if origin == 'media rule' else 'all')).cssRules[0]
        ml = rule.media
        if origin != 'media rule':
            ml.mediaText = T
    elif origin in ('import rule', 'import rule mediaText'):
        kind = 'import'
        rule = cssutils.parseString('@import "x.css" %s;' % (T if origin == 'import rule' else 'all')).cssRules[0]
        ml = rule.media
        if origin != 'import rule':
            ml.mediaText = T
    elif origin in ('appendMedium(text)', 'appendMedium(query)'):
        ml = ML()
        for t in texts:
            ml.appendMedium(t if origin.endswith('(text)') else MQ(t))
    elif origin in ('item assignment(text)', 'item assignment(query)'):
        ml = ML(', '.join(MPLACE))
        for i, t in enumerate(texts):
            ml[i] = t if origin.endswith('(text)') else MQ(t)
    else:
        raise AssertionError(origin)
    if read_list(ml.mediaText) != MBASE or ml.length != len(MBASE):
        raise AssertionError(f'oracle premise: the list built by {origin} reads {ml.mediaText!r}')
    return kind, rule, ml, ml[k]


def _member_case(toks, origin, k, raising, cssutils, kinds, fails):
    import xml.dom
    ML = cssutils.stylesheets.MediaList
    text = ' '.join(toks)
    good = ref_query(list(toks))
    mode = 'raising' if raising else 'logging'
    inp = {'origin': origin, 'member': k, 'base': ', '.join(render(s) for s in MBASE), 'mediaText': text, 'raiseExceptions': raising}
    where = f'{text!r} assigned to member {k} of the list made by {origin} ({mode} mode)' if origin != 'stand-alone query' else f'{text!r} assigned to a stand-alone query {render(MBASE[k])!r} ({mode} mode)'

    def fail(what, detail, kid=None):
        fails.append((what, f'{where}: {detail}', kid, inp))

    _clean()
    kind, rule, ml, m = _member_origin(origin, k, cssutils)
    try:
        m.mediaText = text
        accepted = bool(m.wellformed)
        if accepted and not raising and not good:
            # logging mode, no exception to go by: a text is rejected when the query says it is not well-formed or still reads exactly
            # as before (a text taken in part that happens to read the same shows in the parses that follow)
            try:
                accepted = read_query(strip_comments(m.mediaText)) != MBASE[k]
            except ValueError:
                pass
    except xml.dom.DOMException:
        accepted = False
    except Exception as e:
        fail('bounded: assigning a token string to a query never crashes', f'{type(e).__name__}: {e}')
        _clean()
        return
    # from here on nothing is emptied: every following parse runs on the production parser's state as the assignment left it
    try:
        if good:
            s = read_query(text)
            kinds.add(('wellformed', origin, k, s[0], s[1] is None, len(s[2])))
            if not accepted:
                fail('bounded: a well-formed query (reference grammar) assigned to a query object is accepted', 'rejected')
                return
            try:
                got = read_query(strip_comments(m.mediaText))
            except ValueError:
                got = None
            if got != s:
                fail('bounded: every feature, value and their order survive parse and serialisation', f'query now {m.mediaText!r}')
            # class of the recorded finding K_MSTALE: the object held a simple media type and the new text is not a simple media type
            stale = simple_type(MBASE[k]) is not None and simple_type(s) is None
            wt = simple_type(s) or ''
            if (m.mediaType or '').lower() != wt:
                fail('bounded: mediaType is the type of a simple query, empty otherwise', f'mediaType {m.mediaType!r} expected {wt!r}', K_MSTALE if stale else None)
            new = list(MBASE)
            new[k] = s
            want = canon(new)
            # class of the recorded finding K_MCANON: the result holds a simple media type twice or 'all' beside other entries
            uncanon = want != new
            sure = not stale and not uncanon
            if ml is not None:
                for what, detail, kid in observe(ml, want, ML, clean=False):
                    if uncanon:
                        kid = K_MCANON
                    elif stale and what == 'bounded: item(i) gives the media type of the i-th query':
                        kid = K_MSTALE
                    fail(what, detail, kid)
        else:
            kinds.add(('malformed', origin, k, len(toks), max([j for j in range(len(toks)) if ref_query(list(toks[:j]))] or [0])))
            if accepted:
                left = _clean()
                fail('bounded: a malformed query assigned to a query object is rejected',
                     f'accepted, query now {m.mediaText!r}' + (f', list now {ml.mediaText!r}' if ml is not None else '') + (f'; tokens left behind for the next parse: {left!r}' if left else ''))
                return
            # class of the recorded finding K_MLOG: logging mode and the text was rejected
            kid0 = None if raising else K_MLOG
            sure = raising
            want = list(MBASE)
            try:
                got = read_query(strip_comments(m.mediaText))
            except ValueError:
                got = None
            if got != MBASE[k] or (m.mediaType or '').lower() != (simple_type(MBASE[k]) or '') or (raising and not m.wellformed):
                fail('bounded: a rejected mediaText leaves the query as it was', f'query now {m.mediaText!r}, mediaType {m.mediaType!r}, wellformed {m.wellformed}', kid0)
            if ml is not None:
                for what, detail, kid in observe(ml, want, ML, clean=False):
                    fail('bounded: a rejected mediaText of a member leaves the list as it was' if what.startswith('bounded: mediaText ') else what, detail, kid0 or kid)
        if ml is None:
            again = cssutils.stylesheets.MediaQuery('print and (color)')
            if not again.wellformed or read_query(again.mediaText) != MBASE[1]:
                fail('bounded: a valid query parses after an assignment to another query', f'{again.mediaText!r}')
            return
        if rule is not None and sure:
            if ml.parentRule is not rule or rule.media is not ml:
                fail('bounded: an owned list stays the list of its rule', f'parentRule {ml.parentRule!r}')
            try:
                got = read_list(_owner_text(kind, rule))
            except ValueError as e:
                got = str(e)
            if got != want:
                fail('bounded: the owner rule is serialised with the queries of its list', f'{rule.cssText!r} expected {want!r}')
        if sure:
            # the list keeps accepting valid edits, and an unrelated valid list parses
            absorbed = any(simple_type(x) == 'all' for x in want)
            try:
                ml.appendMedium('projection')
                done = True
            except xml.dom.DOMException as e:
                done = False
                if not absorbed:
                    fail('bounded: a valid edit after the assignment to a member is applied', f'appendMedium("projection") on {ml.mediaText!r}: {type(e).__name__}: {e}')
            if done and absorbed and raising:
                fail("bounded: appending to a list that holds 'all' is rejected", f'appendMedium("projection") accepted, list now {ml.mediaText!r}')
            elif done and not absorbed:
                for what, detail, kid in observe(ml, want + [(None, 'projection', ())], ML, clean=False):
                    fail('bounded: a valid edit after the assignment to a member is applied', f'appendMedium("projection"): {what[9:]}: {detail}', kid)
        try:
            other = ML('print, screen')
            if read_list(other.mediaText) != [(None, 'print', ()), (None, 'screen', ())] or other.length != 2 or not other.wellformed:
                fail('bounded: an unrelated valid list parses after the assignment to a member', f"'print, screen' -> {other.mediaText!r}")
        except Exception as e:
            fail('bounded: an unrelated valid list parses after the assignment to a member', f"'print, screen': {type(e).__name__}: {e}")
    finally:
        _clean()


def _member_worker(args):
    strings, origins = args
    cssutils = _quiet()
    n = 0
    kinds = set()
    fails = []
    try:
        for toks in strings:
            for origin in origins:
                for k in range(len(MBASE)):
                    for raising in (True, False):
                        cssutils.log.raiseExceptions = raising
                        n += 1
                        _member_case(toks, origin, k, raising, cssutils, kinds, fails)
        # keep at most a few failures per clause and class (the smallest inputs), the reporter caps again
        best = {}
        for f in fails:
            best.setdefault((f[0], f[2]), []).append(f)
        fails = [f for lst in best.values() for f in sorted(lst, key=lambda f: (len(repr(f[3])), f[1]))[:3]]
    finally:
        cssutils.log.raiseExceptions = True
    return n, kinds, fails


def member_strings(depth, vlen, mutlen):
    """every token string of 0..depth tokens, every well-formed list text of <= vlen tokens generated from the grammar with all its one-token
    extensions and deletions, and with all one-token replacements and insertions for those of <= mutlen tokens"""
    strings = set()
    for L in range(0, depth + 1):
        strings.update(itertools.product(ALPHABET, repeat=L))
    n_exh = len(strings)
    for v in _valid_strings(vlen):
        strings.add(v)
        for a in ALPHABET:
            strings.add(v + (a,))
        for i in range(len(v)):
            strings.add(v[:i] + v[i + 1:])
            if len(v) <= mutlen:
                for a in ALPHABET:
                    strings.add(v[:i] + (a,) + v[i + 1:])
                    strings.add(v[:i] + (a,) + v[i:])
    return sorted(strings), n_exh


def member_edits(ctx):
    """a text assigned to ONE query of a list (ml[k].mediaText = text): a malformed query is rejected wherever it is offered, a
    well-formed one replaces exactly that query; either way the list's text reparses to an equal list, the list takes a further
    valid edit and an unrelated list parses - all on the parser state the assignment left behind"""
    cssutils = _premise()
    for s in MBASE:
        if read_query(render(s)) != s:
            raise AssertionError('oracle premise: base queries')
    core_b, ext_b = ((2, 6, 0), (3, 7, 0)) if ctx.tier == 'quick' else ((3, 8, 0), (4, 9, 7))
    ext_origins = ['constructor', 'stand-alone query'] if ctx.tier == 'quick' else ['constructor', 'media rule', 'stand-alone query']
    core, _ = member_strings(*core_b)
    ext, n_exh = member_strings(*ext_b)
    depth, vlen, mutlen = ext_b
    rest = sorted(set(ext) - set(core))
    k = 4 * (ctx.jobs or 1)
    res = _run_pool(ctx, _member_worker, [(c, ORIGINS) for c in _chunks(core, k)] + [(c, ext_origins) for c in _chunks(rest, k)])
    n = sum(r[0] for r in res)
    kinds = set().union(*[r[1] for r in res])
    _report(ctx, [f for r in res for f in r[2]])
    ML = cssutils.stylesheets.MediaList
    _clean()
    try:
        m = ML('tv, print')
        m[0].mediaText = 'print and (color)'
        still = (m[0].mediaType or '') != '' or m.item(0) != ''
    except Exception:
        still = False
    ctx.known_finding(K_MSTALE, still)
    try:
        m = ML('tv, print')
        m[0].mediaText = 'print'
        still = ML(m.mediaText).length != m.length
    except Exception:
        still = False
    ctx.known_finding(K_MCANON, still)
    try:
        cssutils.log.raiseExceptions = False
        m = ML('tv, print')
        m[0].mediaText = 'tv foo'
        try:
            still = read_list(m.mediaText) != [(None, 'tv', ()), (None, 'print', ())]
        except ValueError:
            still = True
    except Exception:
        still = False
    finally:
        cssutils.log.raiseExceptions = True
        _clean()
    ctx.known_finding(K_MLOG, still)
    ctx.bounded.append({'name': 'texts assigned to a member query', 'evaluations': n, 'distinct_nontrivial': len(kinds), 'exhaustive': True,
                        'rule': f'{len(core)} token strings (every string of 0..{core_b[0]} tokens over {ALPHABET!r}; every well-formed list text of <= {core_b[1]} tokens from the grammar with its '
                                f'one-token extensions and deletions) assigned as mediaText to each of the '
                                f'{len(MBASE)} queries (simple type, typed query with a feature, feature-only query) of a list that reads {", ".join(render(s) for s in MBASE)!r}, the query objects '
                                f'having been created in {len(ORIGINS)} ways ({"; ".join(ORIGINS)}), in raising and logging mode; for the origins {ext_origins!r} {len(rest)} strings more (every string of 0..{depth} '
                                f'tokens ({n_exh}), well-formed texts of <= {vlen} tokens with extensions and deletions' + (f', replacements and insertions for <= {mutlen} tokens' if mutlen else '') +
                                '); reference recogniser decides: malformed => rejected (DOM exception / '
                                'wellformed False), query and list as before; well-formed => exactly that query replaced, mediaType follows; then, WITHOUT emptying the production parser\'s '
                                'handed-back tokens: all list observations incl. reparse of mediaText, owner rule text, appendMedium of a fresh type applied, an unrelated list parses; '
                                'distinct = (verdict, origin, member, query shape | tokens, longest well-formed prefix)',
                        'samples': [{'origin': 'media rule', 'member': 0, 'mediaText': 'print color', 'expected': 'rejected, list unchanged, next parse unaffected'},
                                    {'origin': 'constructor', 'member': 1, 'mediaText': 'print and ( color ) , print', 'expected': 'rejected'}],
                        'bound': f'{core_b[0]} tokens exhaustively and neighbourhood of well-formed texts of <= {core_b[1]} tokens for all {len(ORIGINS)} origins, {depth} tokens / <= {vlen} tokens for {len(ext_origins)} origins; '
                                 f'one base list of {len(MBASE)} queries; one assignment per evaluation '
                                 '(longer mixed sequences: edit histories)'})


# ----------------------------------------------------------------------------------------------------------------------------
# feature values of every value kind, in every letter case
VALUE_KINDS = [('number', ['2', '0.5', '-1', '+3']), ('number-exponent', ['1e3']), ('percentage', ['50%']),
               ('dimension', ['10px', '1.5em', '300dpi', '2dppx']),
               ('identifier', ['landscape', 'progressive']), ('colour-keyword', ['red', 'transparent']),
               ('colour-function', ['rgb(0,0,0)', 'rgb(1, 2, 3)', 'rgba(0,0,0,1)', 'rgb(10%, 20%, 30%)', 'hsl(120, 50%, 50%)', 'hsla(0,0%,0%,0.5)']),
               ('hash-colour', ['#fff', '#a0b1c2']), ('string', ['"ab"', "'ab'", '"a b"'])]
VALUE_CASES = ('lower', 'upper', 'capitalised', 'inverse')
VALUE_FEATURES = ('color', 'min-color', 'max-x-bg')
W_VACC = 'bounded: a media query whose feature value is a number, dimension, identifier, colour or string in any letter case is accepted'
W_VKEEP = 'bounded: every feature, value and their order survive parse and serialisation'
W_VRULE = 'bounded: a rule owning a media query with such a feature value is kept with its media intact'


def _recase(text, how):
    """letter case of every alphabetic run: lower / UPPER / Capitalised / iNVERSE"""
    if how == 'lower':
        return text.lower()
    if how == 'upper':
        return text.upper()
    f = (lambda w: w[:1].upper() + w[1:].lower()) if how == 'capitalised' else (lambda w: w[:1].lower() + w[1:].upper())
    return re.sub(r'[A-Za-z]+', lambda m: f(m.group()), text)


def spelled_values():
    """[(kind, case, text)]: every value in every letter case that gives a different text"""
    out = []
    for kind, vals in VALUE_KINDS:
        for v in vals:
            seen = set()
            for how in VALUE_CASES:
                t = _recase(v, how)
                if t not in seen:
                    seen.add(t)
                    out.append((kind, how, t))
    return out


def _vnorm(v):
    """what 'intact' means for a value: a string keeps its content exactly (the quotes may change); everything else is compared without regard to letter case and
    white space (CSS keywords, units, function names and hexadecimal digits are case-insensitive)"""
    if v is None:
        return None
    v = v.strip()
    if v[:1] in '"\'' and v[-1:] == v[:1] and len(v) >= 2:
        return ('string', v[1:-1])
    return re.sub(r'[ \t\r\n\f]+', '', v).lower()


def _snorm(struct):
    return (struct[0], struct[1], tuple((f, _vnorm(v)) for f, v in struct[2]))


def _value_worker(args):
    cases, = args
    cssutils = _quiet()
    from cssutils.stylesheets import MediaList as ML, MediaQuery as MQ
    n = 0
    kinds = set()
    fails = []
    for kind, how, v, feat, fcase in cases:
        f_spelled = _recase(feat, fcase)
        e = (feat, v)
        shapes = [(None, 'screen', (e,)), (None, None, (e,)), ('not', 'tv', (('min-width', '10px'), e, ('color', None))), ('only', 'print', (e, e))]
        for st in shapes:
            parts = []
            if st[0]:
                parts.append(st[0])
            if st[1]:
                parts.append(st[1])
            head = ' '.join(parts)
            es = ['(%s)' % (f_spelled if f == feat else f) if val is None else '(%s: %s)' % (f_spelled if f == feat else f, val) for f, val in st[2]]
            text = ' and '.join(([head] if head else []) + es)
            inp = {'mediaText': text, 'value kind': kind, 'case': how}
            want = _snorm(st)
            kinds.add((kind, how, feat, fcase, st[0], st[1] is None, len(st[2])))
            if _snorm(read_query(text)) != want:
                raise AssertionError(f'oracle premise: reader and renderer disagree on {text!r}')
            # 1. the query alone
            n += 1
            _clean()
            try:
                mq = MQ(text)
                ok = mq.wellformed
            except Exception:
                ok = False
            if not ok:
                fails.append((W_VACC, f'MediaQuery({text!r}) is rejected', None, inp))
            else:
                out = mq.mediaText
                try:
                    got = _snorm(read_query(out))
                except ValueError:
                    got = None
                if got != want:
                    fails.append((W_VKEEP, f'{text!r} -> {out!r}', None, inp))
                _clean()
                try:
                    out2 = MQ(out).mediaText
                except Exception as ex:
                    out2 = f'<{type(ex).__name__}>'
                if out2 != out:
                    fails.append(('bounded: serialised query is a fixpoint', f'{text!r} -> {out!r} -> {out2!r}', None, inp))
            # 2. between two neighbours in a list: the list is accepted with its three entries in order
            n += 1
            ltext = 'tv, ' + text + ', print'
            lwant = [(None, 'tv', ()), want, (None, 'print', ())]
            ml = make(ML, ltext)
            if ml is None:
                fails.append((W_VACC, f'MediaList({ltext!r}) is rejected as a whole', None, dict(inp, mediaText=ltext)))
            else:
                out = ml.mediaText
                try:
                    got = [_snorm(x) for x in read_list(out)]
                except ValueError:
                    got = None
                if got != lwant or ml.length != 3 or len(list(ml)) != 3:
                    fails.append((W_VKEEP, f'{ltext!r} -> {out!r} (length {ml.length})', None, dict(inp, mediaText=ltext)))
                else:
                    _clean()
                    try:
                        again = ML(out)
                        t2, l2 = again.mediaText, again.length
                    except Exception as ex:
                        t2, l2 = f'<{type(ex).__name__}>', -1
                    if t2 != out or l2 != 3:
                        fails.append(('bounded: mediaText reparses to an equal list', f'{ltext!r} -> {out!r} -> {t2!r} (length {l2})', None, dict(inp, mediaText=ltext)))
            # 3. owned by an @media and an @import rule, through the parser
            for owner, css in (('@media', '@media %s { a { left: 0 } }' % text), ('@import', '@import "x.css" %s;' % text)):
                n += 1
                _clean()
                try:
                    sheet = cssutils.parseString(css)
                    rules = [r for r in sheet.cssRules]
                    mt = rules[0].media.mediaText if len(rules) == 1 and hasattr(rules[0], 'media') else None
                except Exception as ex:
                    rules, mt = [], f'<{type(ex).__name__}: {ex}>'
                try:
                    got = [_snorm(x) for x in read_list(mt)] if mt is not None else None
                except ValueError:
                    got = None
                if len(rules) != 1 or got != [want]:
                    # class of the recorded finding K_IMPORT_FIRST: an @import whose first media query starts with '(' is dropped whatever the value is
                    kid = K_IMPORT_FIRST if owner == '@import' and text.startswith('(') and not rules else None
                    fails.append((W_VRULE, f'{css!r}: {len(rules)} rule(s), media {mt!r}', kid, {'cssText': css, 'value kind': kind, 'case': how, 'owner': owner}))
    return n, kinds, fails


def value_kinds(ctx):
    """feature values of every value kind the statement names (length / dimension, number, identifier, colour as keyword, function and hash) plus percentage and string,
    each in lower, upper and mixed letter case, under a plain / min- / max- feature, alone, in a list and owned by a rule"""
    _premise()
    cases = [(kind, how, v, feat, fcase) for kind, how, v in spelled_values() for feat in VALUE_FEATURES for fcase in ('lower', 'upper')]
    res = _run_pool(ctx, _value_worker, [(c,) for c in _chunks(cases, 4 * (ctx.jobs or 1))])
    n = sum(r[0] for r in res)
    kinds = set().union(*[r[1] for r in res]) if res else set()
    _report(ctx, [f for r in res for f in r[2]])
    cssutils = _quiet()
    _clean()
    ctx.known_finding(K_IMPORT_FIRST, cssutils.parseString('@import "x.css" (color: 2);').cssRules.length == 0
                      and cssutils.parseString('@import "x.css" tv, (color: 2);').cssRules.length == 1)
    ctx.bounded.append({'name': 'feature values of every kind in every letter case', 'evaluations': n, 'distinct_nontrivial': len(kinds), 'exhaustive': True,
                        'rule': f'{len(spelled_values())} spelled values ({", ".join(k for k, _ in VALUE_KINDS)}; each in lower / upper / capitalised / inverse letter case where that changes '
                                f'the text) x {len(VALUE_FEATURES)} features (plain, min-, max-) in lower and upper case x 4 query shapes (typed, untyped, not + three expressions with the '
                                'value in the middle, only + the expression twice): parsed as MediaQuery, as the middle entry of a three-entry MediaList, and as the media of an @media and an '
                                '@import rule through parseString; the serialised text is read back by the independent scanner; a value is intact when it is equal up to letter case and white '
                                'space (strings: equal content); distinct = (value kind, case, feature, feature case, query shape)',
                        'samples': [{'mediaText': 'screen and (color: RGB(0,0,0))'}, {'mediaText': 'tv, (MIN-COLOR: 10Px), print'}],
                        'bound': 'fixed values per kind; ratios (16/9) are not in the statement and not accepted by cssutils, calc()/url() values likewise'})
