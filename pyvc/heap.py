"""Symbolic heap for lists of objects of unbounded length (DESIGN 2.1 'Sorts'): a list is (Array Int -> ObjId, length);
an object is an id; each declared field is one Array ObjId -> sort on the path's heap (Dafny style).  ObjId 0 is None,
concrete interpreter objects (Obj) get negative ids, symbolic objects positive ones.
"""
from __future__ import annotations

import z3

from .symex import Sym, Opt, Obj, Unsupported, PyRaise, ExcVal, lift, to_int, is_sym

I_ = z3.IntSort()


class Schema:
    def __init__(self, name, fields, cls=None):
        self.name = name
        self.fields = dict(fields)  # name -> 'int'|'bool'|'str'|('ref', schema name)|'optstr'
        self.cls = cls

    def sort_of(self, f):
        k = self.fields[f]
        if k == 'int' or (isinstance(k, tuple) and k[0] == 'ref'):
            return I_
        if k == 'bool':
            return z3.BoolSort()
        if k in ('str', 'optstr'):
            return z3.StringSort()
        raise Unsupported(f'field kind {k}')


SCHEMAS = {}


def schema(name, fields, cls=None):
    s = Schema(name, fields, cls)
    SCHEMAS[name] = s
    return s


STR = Schema('#str', {})  # element "schema" of a symbolic list of STRINGS (elems: Array Int -> String); no heap objects involved


class SymObj:
    def __init__(self, id_term, schema, heap=None):
        self.id = id_term
        self.schema = schema
        self.heap = heap  # None: live heap of the path; else a frozen snapshot dict

    def __repr__(self):
        return f'<SymObj {self.schema.name} {self.id}>'


class SymList:
    """mutable list of SymObj with symbolic length"""

    def __init__(self, elems, length, schema, heap=None):
        self.elems = elems
        self.length = length
        self.schema = schema
        self.heap = heap

    def frozen(self, heap):
        return SymList(self.elems, self.length, self.schema, heap)

    def at(self, pos):
        if self.schema is STR:
            return Sym('str', z3.Select(self.elems, pos))
        return SymObj(z3.Select(self.elems, pos), self.schema, self.heap)


class ListView:
    """read-only view for iteration: positions lo..hi-1 of a SymList, optionally reversed / enumerated"""

    def __init__(self, base, lo, hi, rev=False, enum=False, start=0):
        self.base = base
        self.lo = lo
        self.hi = hi
        self.rev = rev
        self.enum = enum
        self.start = start

    def count(self):
        return self.hi - self.lo

    def pos(self, j):
        return (self.hi - 1 - j) if self.rev else (self.lo + j)


class SymIter:
    """an iterator over a symbolic list (e.g. a token generator): consumed by iteration; always truthy"""

    def __init__(self, base, cursor=None):
        self.base = base
        self.cursor = cursor if cursor is not None else z3.IntVal(0)

    def remaining(self):
        return ListView(self.base, self.cursor, self.base.length)


def view_of(v):
    if isinstance(v, SymIter):
        return v.remaining()
    if isinstance(v, ListView):
        return v
    if isinstance(v, SymList):
        return ListView(v, z3.IntVal(0), v.length)
    return None


def heap_array(p, sch, field, heap=None):
    h = heap if heap is not None else p.heap
    key = (sch.name, field)
    a = h.get(key)
    if a is None:
        # one initial array per field, shared by the live heap and every snapshot taken before its first write
        a = p.heap0.get(key)
        if a is None:
            a = z3.Array(f'heap0_{sch.name}_{field}', I_, sch.sort_of(field))
            p.heap0[key] = a
        h[key] = a
    return a


def obj_id(p, o):
    if o is None:
        return z3.IntVal(0)
    if isinstance(o, SymObj):
        return o.id
    if isinstance(o, Obj):
        o = getattr(o, 'snapshot_of', None) or o
        k = id(o)
        if k not in p.obj_ids:
            p.obj_ids[k] = -(len(p.obj_ids) + 1)
            p.obj_keep.append(o)
        return z3.IntVal(p.obj_ids[k])
    if isinstance(o, Opt):
        return z3.If(o.isnone, z3.IntVal(0), obj_id(p, o.val))
    raise Unsupported(f'reference to {type(o).__name__}')


def read_field(I, o: SymObj, name):
    p = I.p
    sch = o.schema
    k = sch.fields[name]
    arr = heap_array(p, sch, name, o.heap)
    v = z3.Select(arr, o.id)
    if k == 'int':
        return Sym('int', v)
    if k == 'bool':
        return Sym('bool', v)
    if k == 'str':
        return Sym('str', v)
    if k == 'optstr':
        isn = z3.Select(heap_array(p, Schema(sch.name, {name + '?': 'bool'}), name + '?', o.heap), o.id)
        return Opt(isn, Sym('str', v))
    if isinstance(k, tuple) and k[0] == 'ref':
        tgt = SCHEMAS.get(k[1])
        if tgt is None:
            raise Unsupported(f'unknown schema {k[1]}')
        return Opt(v == 0, SymObj(v, tgt, o.heap))
    raise Unsupported(f'field kind {k}')


def write_field(I, o: SymObj, name, value):
    p = I.p
    if o.heap is not None:
        raise Unsupported('write through a snapshot')
    sch = o.schema
    k = sch.fields[name]
    arr = heap_array(p, sch, name)
    if k == 'int':
        t = to_int(value)
    elif k == 'bool':
        from .symex import truth, as_bool_term
        t = as_bool_term(truth(value)) if not (isinstance(value, Sym) and value.kind == 'bool') else value.t
    elif k == 'str':
        value = I.need(value)
        t = lift(value)
    elif k == 'optstr':
        fa = heap_array(p, Schema(sch.name, {name + '?': 'bool'}), name + '?')
        if isinstance(value, Opt):
            p.heap[(sch.name, name + '?')] = z3.Store(fa, o.id, value.isnone)
            t = lift(value.val)
        elif value is None:
            p.heap[(sch.name, name + '?')] = z3.Store(fa, o.id, z3.BoolVal(True))
            t = z3.StringVal('')
        else:
            p.heap[(sch.name, name + '?')] = z3.Store(fa, o.id, z3.BoolVal(False))
            t = lift(value)
    elif isinstance(k, tuple) and k[0] == 'ref':
        t = obj_id(p, value)
    else:
        raise Unsupported(f'field kind {k}')
    p.heap[(sch.name, name)] = z3.Store(arr, o.id, t)


def snapshot_heap(p):
    return dict(p.heap)


# --------------------------------------------------------------------------- list operations


def _bound_var(p, hint='k'):
    p.counter += 1
    return z3.Int(f'{hint}!{p.counter}')


def lst_len(L):
    return Sym('int', L.length)


def lst_index(I, L: SymList, idx):
    p = I.p
    n = L.length
    if isinstance(idx, int) and not isinstance(idx, bool):
        if idx >= 0:
            inb = n > idx
            pos = z3.IntVal(idx)
        else:
            inb = n >= -idx
            pos = n + idx
    else:
        t = to_int(idx)
        inb = z3.And(t < n, t >= -n)
        pos = z3.If(t < 0, n + t, t)
    if I.spec:
        return L.at(pos)
    if not p.choose(inb):
        raise PyRaise(ExcVal(IndexError))
    return L.at(z3.simplify(pos))


def _clamp_insert(L, idx):
    n = L.length
    if isinstance(idx, int) and not isinstance(idx, bool):
        if idx >= 0:
            return z3.If(z3.IntVal(idx) > n, n, z3.IntVal(idx))
        return z3.If(n + idx < 0, z3.IntVal(0), n + idx)
    t = to_int(idx)
    return z3.If(t < 0, z3.If(n + t < 0, z3.IntVal(0), n + t), z3.If(t > n, n, t))


def lst_insert(I, L: SymList, idx, obj):
    p = I.p
    if L.heap is not None:
        raise Unsupported('insert into a snapshot')
    pos = z3.simplify(_clamp_insert(L, idx))
    x = obj_id(p, obj)
    k = _bound_var(p)
    old = L.elems
    L.elems = z3.Lambda([k], z3.If(k < pos, z3.Select(old, k), z3.If(k == pos, x, z3.Select(old, k - 1))))
    L.length = L.length + 1


def lst_append(I, L, obj):
    lst_insert(I, L, L.length, obj) if False else _append(I, L, obj)


def _append(I, L, obj):
    p = I.p
    if L.schema is STR:
        obj = I.need(obj)
        if isinstance(obj, Opt) or not (isinstance(obj, str) or (isinstance(obj, Sym) and obj.kind == 'str')):
            raise Unsupported('append of a non-string to a symbolic list of strings')
        x = lift(obj)
    else:
        x = obj_id(p, obj)
    L.elems = z3.Store(L.elems, L.length, x)
    L.length = L.length + 1


def lst_delete(I, L: SymList, idx):
    p = I.p
    n = L.length
    if isinstance(idx, int) and not isinstance(idx, bool):
        if idx >= 0:
            inb = n > idx
            pos = z3.IntVal(idx)
        else:
            inb = n >= -idx
            pos = n + idx
    else:
        t = to_int(idx)
        inb = z3.And(t < n, t >= -n)
        pos = z3.If(t < 0, n + t, t)
    if not p.choose(inb):
        raise PyRaise(ExcVal(IndexError))
    pos = z3.simplify(pos)
    k = _bound_var(p)
    old = L.elems
    L.elems = z3.Lambda([k], z3.If(k < pos, z3.Select(old, k), z3.Select(old, k + 1)))
    L.length = n - 1


def lst_slice(I, L, lo, hi):
    n = L.length

    def norm(x, default):
        if x is None:
            return default
        if isinstance(x, int) and not isinstance(x, bool):
            if x >= 0:
                return z3.If(z3.IntVal(x) > n, n, z3.IntVal(x))
            return z3.If(n + x < 0, z3.IntVal(0), n + x)
        t = to_int(x)
        return z3.If(t < 0, z3.If(n + t < 0, z3.IntVal(0), n + t), z3.If(t > n, n, t))

    lo_t = z3.simplify(norm(lo, z3.IntVal(0)))
    hi_t = z3.simplify(norm(hi, n))
    hi_t = z3.If(hi_t < lo_t, lo_t, hi_t)
    return ListView(L, lo_t, z3.simplify(hi_t))
