"""What sidecar contract files import."""
from .target import Target, Clause, spec, inline, implies, now
from .symex import (Sym, Opt, Obj, SList, SDict, ExcVal, Model, Opaque, Unsupported, PyRaise, PathEnd, truth, lift,
                    eq_values, ite_value, is_sym, kind_of, mk_str)
import z3

REGISTRY = {}


def register(t):
    import sys
    t.sidecar = sys._getframe(1).f_globals.get('__name__')
    REGISTRY[t.name] = t
    return t
