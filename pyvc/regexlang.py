"""T1-regex: translate CPython's own parse tree of a regular expression (re._parser) node for node into a
z3 regular expression, and decide closed regular-language obligations (emptiness / inclusion / equivalence).

Character classes are not approximated: the set of code points a class matches under the pattern's flags
(IGNORECASE folding extras, Unicode \\d \\s \\w) is obtained by asking the running `re` module about every
code point of the solver alphabet (U+0000..U+2FFFF; larger code points are outside both solvers' character
sort - stated assumption) and emitted as a union of ranges.

Only the *language* is modelled (greedy/lazy choice and backtracking order are not regular-language facts).
"""
from __future__ import annotations

import re
import time
import z3

try:
    import re._parser as sre_parse
    import re._constants as sre_c
except ImportError:  # pragma: no cover
    import sre_parse
    import sre_constants as sre_c

MAXCP = 0x2FFFF
S = z3.StringSort()
RS = z3.ReSort(S)
ALLCHAR = z3.AllChar(RS)
FULL = z3.Full(RS)
EMPTY = z3.Empty(RS)
EPS = z3.Re(z3.StringVal(''))


class RegexUnsupported(Exception):
    pass


def mkchar(cp):
    if 32 <= cp < 127 and chr(cp) not in '\\"':
        return z3.StringVal(chr(cp))
    return z3.StringVal('\\u{%x}' % cp)


_CLASS_CACHE = {}
_ALL = None


def _all_chars():
    global _ALL
    if _ALL is None:
        _ALL = [chr(c) for c in range(MAXCP + 1)]
    return _ALL


def _class_pattern(items, negate):
    out = ['[']
    if negate:
        out.append('^')
    for op, av in items:
        if op is sre_c.LITERAL:
            out.append('\\U%08x' % av)
        elif op is sre_c.RANGE:
            out.append('\\U%08x-\\U%08x' % av)
        elif op is sre_c.CATEGORY:
            out.append({sre_c.CATEGORY_DIGIT: r'\d', sre_c.CATEGORY_NOT_DIGIT: r'\D', sre_c.CATEGORY_SPACE: r'\s', sre_c.CATEGORY_NOT_SPACE: r'\S',
                        sre_c.CATEGORY_WORD: r'\w', sre_c.CATEGORY_NOT_WORD: r'\W'}[av])
        else:
            raise RegexUnsupported(f'class item {op}')
    out.append(']')
    return ''.join(out)


def class_ranges(items, negate, flags):
    """exact set of code points (as sorted list of inclusive ranges) matched by a one-character class under flags"""
    fl = flags & (re.I | re.A | re.S)
    simple = all(op in (sre_c.LITERAL, sre_c.RANGE) for op, _ in items)
    if simple and not (flags & re.I):
        # no interpreter-dependent semantics: compute directly
        rs = []
        for op, av in items:
            rs.append((av, av) if op is sre_c.LITERAL else (av[0], av[1]))
        rs = _norm_ranges(rs)
        return _complement(rs) if negate else rs
    key = (_class_pattern(items, negate), fl)
    r = _CLASS_CACHE.get(key)
    if r is None:
        pat = re.compile(key[0], fl)
        m = pat.match
        cps = [i for i, ch in enumerate(_all_chars()) if m(ch)]
        r = _compress(cps)
        _CLASS_CACHE[key] = r
    return r


def _norm_ranges(rs):
    rs = sorted((max(0, a), min(MAXCP, b)) for a, b in rs if a <= MAXCP and b >= a)
    out = []
    for a, b in rs:
        if out and a <= out[-1][1] + 1:
            out[-1] = (out[-1][0], max(out[-1][1], b))
        else:
            out.append((a, b))
    return out


def _complement(rs):
    out = []
    last = 0
    for a, b in rs:
        if a > last:
            out.append((last, a - 1))
        last = b + 1
    if last <= MAXCP:
        out.append((last, MAXCP))
    return out


def _compress(cps):
    out = []
    for c in cps:
        if out and c == out[-1][1] + 1:
            out[-1][1] = c
        else:
            out.append([c, c])
    return [(a, b) for a, b in out]


def ranges_to_re(rs):
    if not rs:
        return EMPTY
    if rs == [(0, MAXCP)]:
        return ALLCHAR
    parts = []
    for a, b in rs:
        parts.append(z3.Re(mkchar(a)) if a == b else z3.Range(mkchar(a), mkchar(b)))
    return parts[0] if len(parts) == 1 else z3.Union(*parts)


class Translated:
    def __init__(self, body, anchored_start, end_anchor):
        self.body = body  # language of group(0)
        self.anchored_start = anchored_start
        self.end_anchor = end_anchor  # None | '$' | 'Z'
        self.lookahead_lemma = None

    def match_language(self):
        """strings on which pattern.match() succeeds"""
        if self.end_anchor == 'Z':
            return self.body
        if self.end_anchor == '$':
            return z3.Concat(self.body, z3.Option(z3.Re(z3.StringVal('\\u{a}'))))
        return z3.Concat(self.body, FULL)

    def fullmatch_language(self):
        return self.body


def translate(pattern, flags=0, modes=('full', 'match')):
    """pattern: str or compiled pattern -> Translated"""
    if hasattr(pattern, 'pattern'):
        flags = pattern.flags
        pattern = pattern.pattern
    if isinstance(pattern, bytes):
        raise RegexUnsupported('bytes pattern')
    tree = sre_parse.parse(pattern, flags)
    flags = tree.state.flags | flags
    items = list(tree)
    anchored = False
    end_anchor = None
    if items and items[0][0] is sre_c.AT and items[0][1] in (sre_c.AT_BEGINNING, sre_c.AT_BEGINNING_STRING):
        anchored = True
        items = items[1:]
    if items and items[-1][0] is sre_c.AT and items[-1][1] in (sre_c.AT_END, sre_c.AT_END_STRING):
        end_anchor = '$' if items[-1][1] is sre_c.AT_END else 'Z'
        if flags & re.M and end_anchor == '$':
            raise RegexUnsupported('$ with MULTILINE')
        items = items[:-1]
    lemma = None
    if '(?!' in pattern:
        # negative look-ahead is outside the SMT regular-expression theories: the automata back end decides (completely) that
        # removing the look-aheads changes neither the full-match language nor the match-at-start language, else unsupported
        from . import automata
        lemma = automata.lookahead_drop_lemma(pattern, flags, modes)
        if lemma['status'] == 'sat':
            raise RegexUnsupported(f'negative look-ahead that is not redundant for the language: witness {lemma["witness"]!r}')
    t = Translated(_seq(items, flags), anchored, end_anchor)
    t.lookahead_lemma = lemma
    return t


def _seq(items, flags):
    parts = [_item(op, av, flags) for op, av in items]
    parts = [p for p in parts if p is not EPS]
    if not parts:
        return EPS
    return parts[0] if len(parts) == 1 else z3.Concat(*parts)


def _item(op, av, flags):
    if op is sre_c.LITERAL:
        if flags & re.I:
            return ranges_to_re(class_ranges([(sre_c.LITERAL, av)], False, flags))
        if av > MAXCP:
            return EMPTY
        return z3.Re(mkchar(av))
    if op is sre_c.NOT_LITERAL:
        return ranges_to_re(class_ranges([(sre_c.LITERAL, av)], True, flags))
    if op is sre_c.ANY:
        if flags & re.S:
            return ALLCHAR
        return ranges_to_re(_complement([(10, 10)]))
    if op is sre_c.IN:
        items = list(av)
        negate = False
        if items and items[0][0] is sre_c.NEGATE:
            negate = True
            items = items[1:]
        return ranges_to_re(class_ranges(items, negate, flags))
    if op is sre_c.BRANCH:
        alts = [_seq(list(a), flags) for a in av[1]]
        return alts[0] if len(alts) == 1 else z3.Union(*alts)
    if op is sre_c.SUBPATTERN:
        group, add, dele, p = av
        return _seq(list(p), (flags | add) & ~dele)
    if op in (sre_c.MAX_REPEAT, sre_c.MIN_REPEAT) or getattr(sre_c, 'POSSESSIVE_REPEAT', None) is op:
        lo, hi, p = av
        r = _seq(list(p), flags)
        if hi is sre_c.MAXREPEAT or hi == sre_c.MAXREPEAT:
            if lo == 0:
                return z3.Star(r)
            if lo == 1:
                return z3.Plus(r)
            return z3.Concat(z3.Loop(r, lo, lo), z3.Star(r))
        if lo == 0 and hi == 1:
            return z3.Option(r)
        return z3.Loop(r, lo, hi)
    if op is sre_c.CATEGORY:
        return ranges_to_re(class_ranges([(sre_c.CATEGORY, av)], False, flags))
    if op is sre_c.AT:
        raise RegexUnsupported(f'anchor {av} in inner position')
    if op is sre_c.ASSERT_NOT and av[0] == 1:
        return EPS  # licensed by the look-ahead lemma checked in translate()
    if getattr(sre_c, 'ATOMIC_GROUP', None) is op:
        return _seq(list(av), flags)
    raise RegexUnsupported(f'regex node {op}')


# --------------------------------------------------------------------------- deciding


def decide_empty(r, timeout_ms=20000, want_witness=True):
    """is L(r) empty?  -> (status, witness, seconds) with status 'unsat' (empty) | 'sat' | 'unknown'"""
    t0 = time.time()
    s = z3.Solver()
    s.set('timeout', timeout_ms)
    w = z3.String('w')
    s.add(z3.InRe(w, r))
    res = s.check()
    dt = time.time() - t0
    if res == z3.unsat:
        return 'unsat', None, dt
    if res == z3.sat:
        from .target import z3str_to_py
        return 'sat', z3str_to_py(s.model().eval(w, model_completion=True)), dt
    return 'unknown', None, dt


def included(a, b, **kw):
    """L(a) subset of L(b)?  'unsat' means yes; 'sat' comes with a witness in L(a) minus L(b)"""
    return decide_empty(z3.Intersect(a, z3.Complement(b)), **kw)


def equivalent(a, b, **kw):
    st1, w1, t1 = included(a, b, **kw)
    if st1 != 'unsat':
        return st1, ('only-left', w1), t1
    st2, w2, t2 = included(b, a, **kw)
    if st2 != 'unsat':
        return st2, ('only-right', w2), t1 + t2
    return 'unsat', None, t1 + t2


def lit(s):
    from .symex import mk_str
    return z3.Re(mk_str(s))
