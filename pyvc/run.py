"""Dynamic work distribution: a global queue of (target, path-prefix) items over a process pool.
Each work item explores a bounded number of paths depth-first and hands the unexplored prefixes back."""
from __future__ import annotations

import importlib
import multiprocessing as mp
import os
import sys
import time
from concurrent.futures import ProcessPoolExecutor, wait, FIRST_COMPLETED

_MODS = {}


def _work(modname, tname, prefixes, budget, seed):
    try:
        mod = _MODS.get(modname)
        if mod is None:
            mod = importlib.import_module(modname)
            _MODS[modname] = mod
        from .api import REGISTRY
        from .target import verify
        t = REGISTRY[tname]
        return modname, tname, verify(t, seed=seed, prefixes=prefixes, budget=budget, budget_s=3.0)
    except BaseException as e:  # checker crash -> reported, never a violation
        import traceback
        return modname, tname, {'crash': f'{type(e).__name__}: {e}', 'trace': traceback.format_exc()[-2000:]}


def _child(tx, modname, tname, prefixes, budget, seed):
    try:
        tx.send(_work(modname, tname, prefixes, budget, seed))
    finally:
        tx.close()


def merge(a, b):
    if a is None:
        return b
    for k in ('obligations', 'undecided', 'violations'):
        a[k].extend(b.get(k, []))
    for k in ('paths', 'covers', 'solver_s'):
        a[k] += b.get(k, 0)
    for k, v in b.get('by_backend', {}).items():
        a['by_backend'][k] = a['by_backend'].get(k, 0) + v
    a['assumptions'] = sorted(set(a['assumptions']) | set(b.get('assumptions', [])))
    for k, v in b.get('stats', {}).items():
        a.setdefault('stats', {})[k] = a.get('stats', {}).get(k, 0) + v
    a['wall_s'] = round(a.get('wall_s', 0) + b.get('wall_s', 0), 3)
    return a


def run_targets(items, jobs=None, budget=12, seed=0, progress=False):
    """items: list of (sidecar module name, target name). Returns {target name: merged result}."""
    jobs = jobs or min(16, os.cpu_count() or 4)
    results = {}
    crashes = {}
    pending = [(m, t, [[]]) for m, t in items]
    ctx = mp.get_context('spawn')
    t0 = time.time()
    # one fresh interpreter per work item: z3 keeps process-wide state (AST ids, name counters) and a quantified obligation that takes
    # milliseconds in a fresh process was seen to take minutes - or end `unknown` - in a worker that had served another target before.
    # (Own scheduler over multiprocessing.Process + Pipe: ProcessPoolExecutor(max_tasks_per_child=1) can deadlock on CPython 3.12.1.)
    from multiprocessing.connection import wait as _wait
    running = {}  # parent end of the pipe -> (process, module, target)
    while pending or running:
        while pending and len(running) < jobs:
            m, t, pf = pending.pop()
            rx, tx = ctx.Pipe(duplex=False)
            pr = ctx.Process(target=_child, args=(tx, m, t, pf, budget, seed), daemon=True)
            pr.start()
            tx.close()
            running[rx] = (pr, m, t)
        for rx in _wait(list(running), timeout=5.0):
            pr, m, t = running.pop(rx)
            try:
                m, t, r = rx.recv()
            except (EOFError, OSError) as e:
                r = {'crash': f'worker process ended without a result ({type(e).__name__}, exit code {pr.exitcode})', 'trace': ''}
            rx.close()
            pr.join(timeout=10)
            if 'crash' in r:
                crashes[t] = r
                continue
            left = r.pop('leftover', [])
            results[t] = merge(results.get(t), r)
            # split leftover prefixes into separate items so other workers can take them
            for pf in left:
                pending.append((m, t, [pf]))
        if progress:
            print(f'[{time.time()-t0:6.1f}s] running={len(running)} pending={len(pending)}', file=sys.stderr)
    # modular loop cuts: every path of the entry phase and the representative path of the body phase must have reached the loop
    # head with the same (non-havocked) state; otherwise the body phase proved something about the wrong state: undecided
    import re as _re
    groups = {}
    for t, r in results.items():
        for ob in r.get('obligations', []):
            m = _re.match(r'(.*)\.state_at_loop_head_is_path_independent\[([0-9a-f]+)\]$', ob['name'])
            if m:
                base = _re.sub(r'\[loop (entry|body)\]$', '', t)
                groups.setdefault((base, m.group(1)), {}).setdefault(m.group(2), set()).add(t)
    for (base, loop), fps in groups.items():
        phases = set().union(*fps.values())
        if len(fps) != 1:
            for t in phases:
                results[t]['undecided'].append(f'modular cut of {loop}: the state at the loop head differs between paths ({len(fps)} fingerprints) - body phase not representative')
        elif len(phases) < 2 and any(_re.search(r'\[loop (entry|body)\]$', t) for t in phases):
            for t in phases:
                results[t]['undecided'].append(f'modular cut of {loop}: only one phase was run ({sorted(phases)})')
    for t, c in crashes.items():
        results.setdefault(t, {'target': t, 'obligations': [], 'undecided': [], 'violations': [], 'paths': 0, 'covers': 0,
                               'solver_s': 0, 'by_backend': {}, 'assumptions': [], 'props': []})
        results[t]['crash'] = c
    return results
