"""T1-regex, automata back end.

CPython's own parse tree of a regular expression (re._parser) -> epsilon-NFA whose edges carry exact code-point classes
(the same class computation as pyvc.regexlang) and *single-character negative look-ahead* edges `(?![class])`, which the
z3 / cvc5 regular-expression theories cannot express.  The NFA is determinised lazily over the coarsest partition of
U+0000..U+2FFFF that all classes respect; equivalence / inclusion of two automata is decided by a product search, which
is complete (finite state space) and returns a shortest distinguishing word.

Used for one lemma family: "dropping the negative look-aheads of pattern P does not change its language" (full-match
language and match-at-start language), which licenses handing the look-ahead free pattern to the SMT back ends.

Guard on every run: `selftest()` compares the automaton with re.fullmatch / re.match on every word of length <= k over one
representative per alphabet class.
"""
from __future__ import annotations

import itertools
import re
import time
from collections import deque

from . import regexlang as R
from .regexlang import sre_c, sre_parse, RegexUnsupported, MAXCP


class NFA:
    def __init__(self):
        self.edges = []  # per state: list of (kind, ranges, dst);  kind in 'eps' | 'chars' | 'nla'
        self.start = None
        self.final = None
        self.sink = None
        self.n_lookahead = 0

    def new(self):
        self.edges.append([])
        return len(self.edges) - 1

    def add(self, a, kind, ranges, b):
        self.edges[a].append((kind, tuple(ranges) if ranges is not None else None, b))


def _single_class(items, flags):
    """ranges of a sub-pattern that is exactly one one-character item, else None"""
    items = list(items)
    if len(items) != 1:
        return None
    op, av = items[0]
    if op is sre_c.LITERAL:
        return R.class_ranges([(sre_c.LITERAL, av)], False, flags) if flags & re.I else ([(av, av)] if av <= MAXCP else [])
    if op is sre_c.NOT_LITERAL:
        return R.class_ranges([(sre_c.LITERAL, av)], True, flags)
    if op is sre_c.ANY:
        return [(0, MAXCP)] if flags & re.S else R._complement([(10, 10)])
    if op is sre_c.IN:
        its = list(av)
        neg = False
        if its and its[0][0] is sre_c.NEGATE:
            neg = True
            its = its[1:]
        return R.class_ranges(its, neg, flags)
    if op is sre_c.CATEGORY:
        return R.class_ranges([(sre_c.CATEGORY, av)], False, flags)
    if op is sre_c.SUBPATTERN:
        group, add, dele, p = av
        return _single_class(p, (flags | add) & ~dele)
    if op is sre_c.BRANCH:
        out = []
        for a in av[1]:
            r = _single_class(a, flags)
            if r is None:
                return None
            out.extend(r)
        return R._norm_ranges(out)
    return None


def _frag(n, items, flags, keep_lookahead):
    s = n.new()
    cur = s
    for op, av in items:
        a, b = _item(n, op, av, flags, keep_lookahead)
        n.add(cur, 'eps', None, a)
        cur = b
    return s, cur


def _item(n, op, av, flags, keep):
    rs = _single_class([(op, av)], flags) if op in (sre_c.LITERAL, sre_c.NOT_LITERAL, sre_c.ANY, sre_c.IN, sre_c.CATEGORY) else None
    if rs is not None:
        a, b = n.new(), n.new()
        n.add(a, 'chars', rs, b)
        return a, b
    if op is sre_c.BRANCH:
        a, b = n.new(), n.new()
        for alt in av[1]:
            x, y = _frag(n, list(alt), flags, keep)
            n.add(a, 'eps', None, x)
            n.add(y, 'eps', None, b)
        return a, b
    if op is sre_c.SUBPATTERN:
        group, add, dele, p = av
        return _frag(n, list(p), (flags | add) & ~dele, keep)
    if op in (sre_c.MAX_REPEAT, sre_c.MIN_REPEAT):
        lo, hi, p = av
        p = list(p)
        a = n.new()
        cur = a
        for _ in range(lo):
            x, y = _frag(n, p, flags, keep)
            n.add(cur, 'eps', None, x)
            cur = y
        if hi is sre_c.MAXREPEAT or hi == sre_c.MAXREPEAT:
            x, y = _frag(n, p, flags, keep)
            hub = n.new()
            n.add(cur, 'eps', None, hub)
            n.add(hub, 'eps', None, x)
            n.add(y, 'eps', None, hub)
            return a, hub
        if hi - lo > 64:
            raise RegexUnsupported('bounded repeat wider than 64 in the automata back end')
        end = n.new()
        n.add(cur, 'eps', None, end)
        for _ in range(hi - lo):
            x, y = _frag(n, p, flags, keep)
            n.add(cur, 'eps', None, x)
            n.add(y, 'eps', None, end)
            cur = y
        return a, end
    if op is sre_c.ASSERT_NOT:
        direction, p = av
        if direction != 1:
            raise RegexUnsupported('look-behind')
        rs = _single_class(p, flags)
        if rs is None:
            raise RegexUnsupported('negative look-ahead of more than one character class')
        a, b = n.new(), n.new()
        n.n_lookahead += 1
        if keep:
            n.add(a, 'nla', rs, b)
        else:
            n.add(a, 'eps', None, b)
        return a, b
    raise RegexUnsupported(f'regex node {op} in the automata back end')


def build(pattern, flags=0, mode='full', keep_lookahead=True):
    """mode 'full': the language of group(0) taken alone (== re.fullmatch when there is no end anchor issue);
    mode 'match': the strings on which pattern.match() succeeds."""
    if hasattr(pattern, 'pattern'):
        flags = pattern.flags
        pattern = pattern.pattern
    if isinstance(pattern, bytes):
        raise RegexUnsupported('bytes pattern')
    tree = sre_parse.parse(pattern, flags)
    flags = tree.state.flags | flags
    items = list(tree)
    end_anchor = None
    if items and items[0][0] is sre_c.AT and items[0][1] in (sre_c.AT_BEGINNING, sre_c.AT_BEGINNING_STRING):
        items = items[1:]
    if items and items[-1][0] is sre_c.AT and items[-1][1] in (sre_c.AT_END, sre_c.AT_END_STRING):
        end_anchor = '$' if items[-1][1] is sre_c.AT_END else 'Z'
        if flags & re.M and end_anchor == '$':
            raise RegexUnsupported('$ with MULTILINE')
        items = items[:-1]
    n = NFA()
    n.start, body_end = _frag(n, items, flags, keep_lookahead)
    n.final = n.new()
    n.add(body_end, 'eps', None, n.final)
    n.accepting = {n.final}
    if mode == 'match':
        if end_anchor is None:
            sink = n.new()
            n.add(n.final, 'chars', [(0, MAXCP)], sink)
            n.add(sink, 'chars', [(0, MAXCP)], sink)
            n.accepting.add(sink)
        elif end_anchor == '$':
            nl = n.new()
            n.add(n.final, 'chars', [(10, 10)], nl)
            n.accepting.add(nl)
    elif mode != 'full':
        raise ValueError(mode)
    return n


def boundaries(*nfas):
    pts = {0, MAXCP + 1}
    for n in nfas:
        for es in n.edges:
            for kind, rs, _ in es:
                if rs:
                    for a, b in rs:
                        pts.add(a)
                        pts.add(b + 1)
    pts = sorted(p for p in pts if 0 <= p <= MAXCP + 1)
    return [(pts[i], pts[i + 1] - 1) for i in range(len(pts) - 1)]


def _in(rs, c):
    for a, b in rs:
        if a <= c <= b:
            return True
        if a > c:
            return False
    return False


def _union(f, rs):
    return tuple(R._norm_ranges(list(f) + list(rs)))


class DFA:
    """lazy subset construction; a DFA state is a frozenset of (nfa state, forbidden-next-character ranges)"""

    def __init__(self, nfa):
        self.n = nfa
        self.cache = {}
        self.start = self.closure({(nfa.start, ())})

    def closure(self, items):
        seen = set(items)
        work = list(items)
        while work:
            q, f = work.pop()
            for kind, rs, d in self.n.edges[q]:
                if kind == 'eps':
                    it = (d, f)
                elif kind == 'nla':
                    it = (d, _union(f, rs))
                else:
                    continue
                if it not in seen:
                    seen.add(it)
                    work.append(it)
        return frozenset(seen)

    def step(self, S, c):
        """successor on the character c (callers pass one representative per alphabet class)"""
        key = (S, c)
        r = self.cache.get(key)
        if r is None:
            nxt = set()
            for q, f in S:
                if f and _in(f, c):
                    continue
                for kind, rs, d in self.n.edges[q]:
                    if kind == 'chars' and _in(rs, c):
                        nxt.add((d, ()))
            r = self.closure(nxt) if nxt else frozenset()
            self.cache[key] = r
        return r

    def accepts_state(self, S):
        # at the end of the input every pending negative look-ahead holds
        return any(q in self.n.accepting for q, _ in S)

    def accepts(self, word):
        S = self.start
        for ch in word:
            if ord(ch) > MAXCP:
                return None
            S = self.step(S, ord(ch))
            if not S:
                return False
        return self.accepts_state(S)


def compare(na, nb, want='equal'):
    """decide L(na) == L(nb) ('equal') or L(na) subset of L(nb) ('subset').
    -> ('unsat', None, states, seconds) when it holds, ('sat', (word, in_a, in_b), states, seconds) otherwise"""
    t0 = time.time()
    atoms = boundaries(na, nb)
    reps = [a for a, _ in atoms]
    A, B = DFA(na), DFA(nb)
    start = (A.start, B.start)
    parent = {start: None}
    q = deque([start])
    while q:
        cur = q.popleft()
        sa, sb = cur
        ia, ib = A.accepts_state(sa) if sa else False, B.accepts_state(sb) if sb else False
        if (ia != ib) if want == 'equal' else (ia and not ib):
            w = []
            x = cur
            while parent[x] is not None:
                x, c = parent[x]
                w.append(chr(c))
            return 'sat', (''.join(reversed(w)), ia, ib), len(parent), time.time() - t0
        for c in reps:
            ta = A.step(sa, c) if sa else sa
            tb = B.step(sb, c) if sb else sb
            if not ta and not tb:
                continue
            if want == 'subset' and not ta:
                continue
            nx = (ta, tb)
            if nx not in parent:
                parent[nx] = (cur, c)
                q.append(nx)
    return 'unsat', None, len(parent), time.time() - t0


def selftest(pattern, flags=0, maxlen=3, extra=()):
    """automaton (with look-aheads) against CPython on every word of length <= maxlen over one representative per alphabet
    class (at most 40 classes are enumerated exhaustively; the rest only at length 1) -> (number compared, mismatches)"""
    p = re.compile(pattern, flags) if not hasattr(pattern, 'pattern') else pattern
    nf, nm = build(p, mode='full'), build(p, mode='match')
    anchored_end = p.pattern.endswith('$') or p.pattern.endswith('\\Z')
    atoms = boundaries(nf, nm)
    reps = [chr(a) for a, _ in atoms]
    core = reps[:40]
    F, M = DFA(nf), DFA(nm)
    bad = []
    n = 0
    words = [''] + reps
    for k in range(2, maxlen + 1):
        words.extend(''.join(t) for t in itertools.product(core, repeat=k))
    words.extend(extra)
    for w in words:
        n += 1
        if not anchored_end:
            real_f = p.fullmatch(w) is not None
            if F.accepts(w) != real_f:
                bad.append(('fullmatch', w, real_f))
        real_m = p.match(w) is not None
        if M.accepts(w) != real_m:
            bad.append(('match', w, real_m))
    return n, bad


_DROP_CACHE = {}


def lookahead_drop_lemma(pattern, flags=0, modes=('full', 'match')):
    """decide: the pattern and the pattern with every negative look-ahead removed have the same language (per mode).
    -> dict(status='unsat'|'sat'|'none', lookaheads, witness, states, seconds, selftest)"""
    if hasattr(pattern, 'pattern'):
        flags = pattern.flags
        pattern = pattern.pattern
    key = (pattern, flags, tuple(modes))
    r = _DROP_CACHE.get(key)
    if r is not None:
        return r
    out = {'status': 'unsat', 'lookaheads': 0, 'witness': None, 'states': 0, 'seconds': 0.0, 'selftest': 0}
    for mode in modes:
        real = build(pattern, flags, mode, True)
        out['lookaheads'] = real.n_lookahead
        if not real.n_lookahead:
            out['status'] = 'none'
            break
        dropped = build(pattern, flags, mode, False)
        st, w, states, dt = compare(real, dropped)
        out['states'] += states
        out['seconds'] += dt
        if st != 'unsat':
            out['status'] = 'sat'
            out['witness'] = (mode,) + w
            break
    if out['status'] != 'none':
        n, bad = selftest(pattern, flags, maxlen=3)
        out['selftest'] = n
        if bad:
            raise RuntimeError(f'automata back end disagrees with CPython re on {len(bad)} of {n} words for {pattern!r}: {bad[:3]!r}')
    _DROP_CACHE[key] = out
    return out
