"""Builtin functions and methods of str/bytes/list/dict/tuple for the symbolic executor.

Exact definitions where z3 has the operator; uninterpreted functions (listed in the evidence
as assumptions) for str.lower/upper/replace/strip-family on symbolic strings.
"""
from __future__ import annotations

import builtins as _b
import types
import z3

from .symex import (Sym, Opt, Obj, SList, SDict, ExcVal, Func, BoundMethod, BuiltinMethod, Model, Opaque, Unsupported,
                    PyRaise, is_sym, lift, kind_of, truth, eq_values, to_int, mk_str, z3_and, z3_or, _has_sym, _Items)

S = z3.StringSort()
UF_LOWER = z3.Function('py_lower', S, S)
UF_UPPER = z3.Function('py_upper', S, S)
UF_REPLACE = z3.Function('py_replace', S, S, S, S)
UF_STRIP = z3.Function('py_strip', S, S, S)
UF_LSTRIP = z3.Function('py_lstrip', S, S, S)
UF_RSTRIP = z3.Function('py_rstrip', S, S, S)
WS = ' \t\n\r\x0b\x0c'


def _strlike(v):
    return kind_of(v) in ('str', 'bytes')


def _mk(kind, t):
    return Sym(kind, t)


def call_method(I, recv, name, args, kwargs):
    p = I.p
    if isinstance(recv, Opt):
        recv = I.unwrap(recv, AttributeError)
    k = kind_of(recv)
    concrete = not is_sym(recv) and not _has_sym(tuple(args)) and not any(isinstance(a, (Obj, SList, SDict, Opaque)) for a in args) \
        and not any(type(a).__name__ == '_CharSeq' for a in args)
    if k in ('str', 'bytes'):
        if concrete and not kwargs:
            try:
                m = getattr(recv, name)
            except AttributeError:
                raise PyRaise(ExcVal(AttributeError))
            try:
                return m(*args)
            except ValueError:
                raise PyRaise(ExcVal(ValueError))
            except TypeError:
                raise PyRaise(ExcVal(TypeError))
            except (UnicodeDecodeError, UnicodeEncodeError) as e:
                raise PyRaise(ExcVal(type(e)))
            except LookupError:
                raise PyRaise(ExcVal(LookupError))
        return str_method(I, recv, k, name, args, kwargs)
    if type(recv).__name__ == '_LazyGen':
        if name == 'count':
            r = p.fresh('int', 'count')
            p.assume(r.t >= 0)
            p.note_assumption('count() over a filtered symbolic list is abstracted to an arbitrary non-negative integer')
            return r
        raise Unsupported(f'method {name} on a comprehension over a symbolic list')
    if type(recv).__name__ == 'SymList':
        from . import heap as H
        if name == 'append' and args and recv.schema is not H.STR and type(args[0]).__name__ != 'SymObj' and not isinstance(args[0], (Obj,)) \
                and not (isinstance(args[0], Opt) and type(args[0].val).__name__ == 'SymObj'):
            raise Unsupported('append of a non-object to a symbolic list')
        if name == 'insert':
            return H.lst_insert(I, recv, args[0], args[1])
        if name == 'append':
            return H._append(I, recv, args[0])
        if name == 'pop' and not args:
            if recv.heap is not None:
                raise Unsupported('pop from a snapshot')
            if not I.p.choose(recv.length > 0):
                raise PyRaise(ExcVal(IndexError))
            last = recv.at(z3.simplify(recv.length - 1))
            recv.length = recv.length - 1
            return last
        if name == 'remove' and len(args) == 1 and recv.schema is not H.STR:
            # list.remove(x): the FIRST element equal (here: identical - rule objects define no __eq__) to x goes; ValueError if there is none
            if recv.heap is not None:
                raise Unsupported('remove from a snapshot')
            p = I.p
            p.use_quantifier_mode()
            x = H.obj_id(p, args[0])
            k = H._bound_var(p)
            if not p.choose(z3.Exists([k], z3.And(k >= 0, k < recv.length, z3.Select(recv.elems, k) == x))):
                raise PyRaise(ExcVal(ValueError))
            k0 = H._bound_var(p, 'first')
            j = H._bound_var(p)
            p.assume(z3.And(k0 >= 0, k0 < recv.length, z3.Select(recv.elems, k0) == x,
                            z3.ForAll([j], z3.Implies(z3.And(j >= 0, j < k0), z3.Select(recv.elems, j) != x))))
            H.lst_delete(I, recv, Sym('int', k0))
            return None
        mm = I.p.engine.models.get(('method', 'SymList', name))
        if mm is not None:
            return mm.fn(I, [recv] + list(args), kwargs)
        raise Unsupported(f'method {name} on a symbolic list')
    if isinstance(recv, SList):
        return list_method(I, recv, name, args, kwargs)
    if isinstance(recv, SDict):
        return dict_method(I, recv, name, args, kwargs)
    if isinstance(recv, (tuple, frozenset, dict, list, int, float)):
        if concrete:
            try:
                return _wrap_native(getattr(recv, name)(*args, **kwargs))
            except ValueError:
                raise PyRaise(ExcVal(ValueError))
            except KeyError:
                raise PyRaise(ExcVal(KeyError))
        if isinstance(recv, dict) and name == 'get':
            key = args[0]
            default = args[1] if len(args) > 1 else None
            for kk in recv:
                if kind_of(kk) == kind_of(key) or (is_sym(key)):
                    try:
                        c = eq_values(key, kk)
                    except Unsupported:
                        continue
                    if p.choose(c):
                        return _wrap_native(recv[kk])
            return default
        if isinstance(recv, tuple) and name == 'index':
            for i, x in enumerate(recv):
                if p.choose(eq_values(args[0], x)):
                    return i
            raise PyRaise(ExcVal(ValueError))
        if isinstance(recv, tuple) and name == 'count':
            n = 0
            for x in recv:
                if p.choose(eq_values(args[0], x)):
                    n += 1
            return n
    raise Unsupported(f'method {name} on {k}')


def _wrap_native(v):
    if isinstance(v, list):
        return SList([_wrap_native(x) for x in v])
    if isinstance(v, (type({}.keys()), type({}.values()), type({}.items()))):
        return SList([_wrap_native(x) for x in v])
    return v


def str_method(I, recv, k, name, args, kwargs):
    p = I.p
    s = lift(recv)
    a = [I.unwrap(x, TypeError) if isinstance(x, Opt) else x for x in args]

    def need_str(x):
        if kind_of(x) != k:
            raise PyRaise(ExcVal(TypeError))
        return lift(x)

    if name == 'startswith':
        if isinstance(a[0], tuple):
            r = z3_or(*[z3.PrefixOf(need_str(x), s) for x in a[0]])
            return r if isinstance(r, bool) else Sym('bool', r)
        if len(a) > 1:
            raise Unsupported('startswith with start')
        return Sym('bool', z3.PrefixOf(need_str(a[0]), s))
    if name == 'endswith':
        if isinstance(a[0], tuple):
            r = z3_or(*[z3.SuffixOf(need_str(x), s) for x in a[0]])
            return r if isinstance(r, bool) else Sym('bool', r)
        return Sym('bool', z3.SuffixOf(need_str(a[0]), s))
    if name in ('find', 'index'):
        sub = need_str(a[0])
        start = a[1] if len(a) > 1 else 0
        if len(a) > 2:
            raise Unsupported('find with end')
        if isinstance(start, int) and start < 0:
            raise Unsupported('find with negative start')
        st = to_int(start)
        if not isinstance(start, int):
            # python clamps negative start to max(len+start,0); require non-negative
            if I.spec:
                pass
            elif not p.choose(st >= 0):
                raise Unsupported('find with possibly negative start')
        r = z3.IndexOf(s, sub, st)
        # z3: if start > len -> -1 ; python: same (empty sub at start==len gives len in both)
        res = Sym('int', r)
        if name == 'index':
            if I.spec:
                return res
            if p.choose(r < 0):
                raise PyRaise(ExcVal(ValueError))
        return res
    if name == 'rfind':
        m = p.engine.models.get(('strmethod', 'rfind'))
        if m is not None:
            return m.fn(I, [recv] + a, kwargs)
        raise Unsupported('rfind on symbolic string')
    if name == 'lower':
        return Sym(k, UF_LOWER(s)) if not _note(p, 'str.lower') else None
    if name == 'upper':
        _note(p, 'str.upper')
        return Sym(k, UF_UPPER(s))
    if name == 'replace':
        if len(a) != 2:
            raise Unsupported('replace with count')
        _note(p, 'str.replace')
        return Sym(k, UF_REPLACE(s, need_str(a[0]), need_str(a[1])))
    if name in ('strip', 'lstrip', 'rstrip'):
        chars = a[0] if a and a[0] is not None else WS
        if isinstance(chars, str) and len(chars) == 1 and name in ('rstrip', 'lstrip'):
            # exact: the unique decomposition  s == r ++ t (rstrip) / t ++ r (lstrip), t in c*, r not ending/starting with c
            r = p.fresh(k, name + '_kept')
            t = p.fresh(k, name + '_cut')
            c = mk_str(chars)
            p.assume(z3.InRe(t.t, z3.Star(z3.Re(c))))
            if name == 'rstrip':
                p.assume(s == z3.Concat(r.t, t.t))
                p.assume(z3.Not(z3.SuffixOf(c, r.t)))
            else:
                p.assume(s == z3.Concat(t.t, r.t))
                p.assume(z3.Not(z3.PrefixOf(c, r.t)))
            return r
        uf = {'strip': UF_STRIP, 'lstrip': UF_LSTRIP, 'rstrip': UF_RSTRIP}[name]
        _note(p, 'str.' + name)
        return Sym(k, uf(s, need_str(chars)))
    if name == 'join':
        if type(a[0]).__name__ == '_CharSeq':
            if not (isinstance(recv, str) and recv == ''):
                raise Unsupported('join of a character sequence with a non-empty separator')
            return Sym('str', a[0].t)
        items = I.iter_items(a[0])
        parts = []
        for i, it in enumerate(items):
            if i:
                parts.append(recv)
            if isinstance(it, Opt):
                it = I.unwrap(it, TypeError)
            if kind_of(it) != k:
                raise PyRaise(ExcVal(TypeError))
            parts.append(it)
        if not parts:
            return '' if k == 'str' else b''
        ts = [lift(x) for x in parts]
        return Sym(k, z3.Concat(*ts)) if len(ts) > 1 else Sym(k, ts[0])
    if name == 'decode' and k == 'bytes':
        m = p.engine.models.get('bytes.decode')
        if m is not None:
            return m.fn(I, [recv] + a, kwargs)
    if name == 'encode' and k == 'str':
        m = p.engine.models.get('str.encode')
        if m is not None:
            return m.fn(I, [recv] + a, kwargs)
    if name == 'tobytes':
        raise PyRaise(ExcVal(AttributeError))
    if name == 'count':
        m = p.engine.models.get('str.count')
        if m is not None:
            return m.fn(I, [recv] + a, kwargs)
    if name == 'format':
        return Opaque('format')
    if name in ('isdigit', 'isalpha', 'isspace', 'split', 'splitlines', 'partition', 'rpartition', 'rsplit', 'title', 'capitalize', 'zfill', 'center'):
        m = p.engine.models.get('str.' + name)
        if m is not None:
            return m.fn(I, [recv] + a, kwargs)
        raise Unsupported(f'str.{name} on symbolic string')
    if not hasattr(str if k == 'str' else bytes, name):
        raise PyRaise(ExcVal(AttributeError))
    raise Unsupported(f'str method {name}')


def _note(p, what):
    p.note_assumption(f'{what} on symbolic strings is an uninterpreted function (same symbol in code and spec)')
    return False


def list_method(I, recv, name, args, kwargs):
    p = I.p
    items = recv.items
    if name == 'append':
        items.append(args[0])
        return None
    if name == 'extend':
        items.extend(I.iter_items(args[0]))
        return None
    if name == 'insert':
        if not isinstance(args[0], int):
            raise Unsupported('list.insert symbolic index')
        items.insert(args[0], args[1])
        return None
    if name == 'pop':
        if not items:
            raise PyRaise(ExcVal(IndexError))
        i = args[0] if args else -1
        if not isinstance(i, int):
            raise Unsupported('list.pop symbolic index')
        if -len(items) <= i < len(items):
            return items.pop(i)
        raise PyRaise(ExcVal(IndexError))
    if name == 'index':
        for i, x in enumerate(items):
            if p.choose(eq_values(args[0], x)):
                return i
        raise PyRaise(ExcVal(ValueError))
    if name == 'count':
        n = 0
        for x in items:
            if p.choose(eq_values(args[0], x)):
                n += 1
        return n
    if name == 'remove':
        for i, x in enumerate(items):
            if p.choose(eq_values(args[0], x)):
                del items[i]
                return None
        raise PyRaise(ExcVal(ValueError))
    if name == 'reverse':
        items.reverse()
        return None
    if name == 'copy':
        return SList(items)
    if name == 'clear':
        del items[:]
        return None
    raise Unsupported(f'list.{name}')


def dict_method(I, recv, name, args, kwargs):
    p = I.p
    d = recv.items
    if name == 'get':
        key = args[0]
        default = args[1] if len(args) > 1 else None
        if _has_sym(key):
            for kk in d:
                if p.choose(eq_values(key, kk)):
                    return d[kk]
            return default
        return d.get(I.dict_key(key), default)
    if name == 'keys':
        return SList(list(d.keys()))
    if name == 'values':
        return SList(list(d.values()))
    if name == 'items':
        return SList([(k, v) for k, v in d.items()])
    if name == 'copy':
        return SDict(d)
    if name == 'clear':
        d.clear()
        return None
    if name == 'update':
        o = args[0] if args else SDict()
        if isinstance(o, SDict):
            d.update(o.items)
        elif isinstance(o, dict):
            d.update(o)
        else:
            raise Unsupported('dict.update arg')
        d.update(kwargs)
        return None
    if name == 'pop':
        k = I.dict_key(args[0])
        if k in d:
            return d.pop(k)
        if len(args) > 1:
            return args[1]
        raise PyRaise(ExcVal(KeyError))
    if name == 'setdefault':
        k = I.dict_key(args[0])
        if k not in d:
            d[k] = args[1] if len(args) > 1 else None
        return d[k]
    raise Unsupported(f'dict.{name}')


# --------------------------------------------------------------------------- native callables


def py_isinstance(I, v, cls):
    classes = cls if isinstance(cls, tuple) else (cls,)
    for c in classes:
        if not isinstance(c, type):
            raise Unsupported(f'isinstance arg {c!r}')
    if isinstance(v, Opt):
        inner = py_isinstance(I, v.val, cls)
        if type(None) in classes:
            r = z3_or(v.isnone, inner if not isinstance(inner, Sym) else inner.t)
        else:
            r = z3_and(z3.Not(v.isnone), inner if not isinstance(inner, Sym) else inner.t)
        return r if isinstance(r, bool) else Sym('bool', r)
    if isinstance(v, Sym):
        pyt = {'int': int, 'bool': bool, 'str': str, 'bytes': bytes}[v.kind]
        return any(issubclass(pyt, c) for c in classes)
    if type(v).__name__ == 'SymObj':
        cbt = getattr(v.schema, 'class_by_type', None)
        if cbt is not None:
            # the dynamic class of a rule object is determined by its (immutable) type constant
            from . import heap as H
            tt = H.read_field(I, v, getattr(v.schema, 'class_field', 'type')).t
            hits = [tt == tv for tv, k in cbt.items() if any(issubclass(k, c) for c in classes)]
            if len(hits) == len(cbt):
                return True  # every dynamic class the schema allows is an instance
            if not hits:
                return False
            r = z3_or(*hits)
            return r if isinstance(r, bool) else Sym('bool', r)
        if isinstance(v.schema.cls, type):
            return any(issubclass(v.schema.cls, c) for c in classes)
        raise Unsupported('isinstance on a schema without class')
    if type(v).__name__ in ('SymList', 'ListView'):
        return any(issubclass(list, c) for c in classes) and not any(c.__name__ == 'CSSRuleList' for c in classes if c is not list and c is not object)
    if isinstance(v, Obj):
        if isinstance(v.cls, type):
            return any(issubclass(v.cls, c) for c in classes)
        raise Unsupported('isinstance on untyped object')
    if isinstance(v, ExcVal):
        return any(issubclass(v.cls, c) for c in classes)
    if isinstance(v, SList):
        return any(issubclass(list, c) for c in classes)
    if isinstance(v, SDict):
        return any(issubclass(dict, c) for c in classes)
    if isinstance(v, (Func, BoundMethod, BuiltinMethod, Model)):
        return any(issubclass(types.FunctionType, c) for c in classes)
    if isinstance(v, Opaque):
        return any(issubclass(str, c) for c in classes)
    return isinstance(v, classes)


def py_len(I, v):
    if isinstance(v, Opt):
        v = I.unwrap(v, TypeError)
    if type(v).__name__ == 'SymList':
        return Sym('int', v.length)
    if type(v).__name__ == 'ListView':
        return Sym('int', v.count())
    if isinstance(v, Sym) and v.kind in ('str', 'bytes'):
        return Sym('int', z3.Length(v.t))
    if isinstance(v, SList):
        return len(v.items)
    if isinstance(v, SDict):
        return len(v.items)
    if isinstance(v, Obj):
        return I.call_special(v, '__len__', [])
    if isinstance(v, Sym) or v is None or isinstance(v, (int, float)):
        raise PyRaise(ExcVal(TypeError))
    return len(v)


def py_str(I, v=''):
    if isinstance(v, Opt):
        if I.p.choose(v.isnone):
            return 'None'
        v = v.val
    if isinstance(v, Sym) and v.kind == 'str':
        return v
    if isinstance(v, Sym) and v.kind == 'int':
        if I.p.choose(v.t >= 0):
            return Sym('str', z3.IntToStr(v.t))
        return Sym('str', z3.Concat(z3.StringVal('-'), z3.IntToStr(-v.t)))
    if isinstance(v, Opaque):
        return v
    if isinstance(v, Obj):
        m = I.p.engine.models.get(('method', v.cls, '__str__'))
        if m is not None:
            return m.fn(I, [v], {})
    if isinstance(v, (Obj, ExcVal)):
        return Opaque('str(obj)')
    if is_sym(v):
        raise Unsupported(f'str() of {kind_of(v)}')
    return str(v)


def py_bool(I, v=False):
    t = truth(v)
    return t if isinstance(t, bool) else Sym('bool', t)


def py_int(I, v=0, base=10):
    if isinstance(v, Obj):
        m = I.p.engine.models.get(('method', v.cls, '__int__'))
        if m is not None:
            return m.fn(I, [v], {})
    if isinstance(v, Sym) and v.kind == 'int':
        return v
    if isinstance(v, Sym) and v.kind == 'bool':
        return Sym('int', to_int(v))
    if is_sym(v):
        m = I.p.engine.models.get('int')
        if m is not None:
            return m.fn(I, [v, base], {})
        raise Unsupported('int() of symbolic string')
    try:
        return int(v, base) if isinstance(v, (str, bytes)) else int(v)
    except ValueError:
        raise PyRaise(ExcVal(ValueError))
    except TypeError:
        raise PyRaise(ExcVal(TypeError))


def py_chr(I, v):
    if isinstance(v, Sym):
        return Sym('str', z3.StrFromCode(v.t))
    return chr(v)


def py_ord(I, v):
    if isinstance(v, Sym):
        return Sym('int', z3.StrToCode(v.t))
    return ord(v)


def py_min(I, *a):
    return _minmax(I, a, True)


def py_max(I, *a):
    return _minmax(I, a, False)


def _minmax(I, a, is_min):
    if len(a) == 1:
        a = I.iter_items(a[0])
    if not _has_sym(tuple(a)):
        return min(a) if is_min else max(a)
    cur = a[0]
    for x in a[1:]:
        c = (to_int(x) < to_int(cur)) if is_min else (to_int(x) > to_int(cur))
        cur = Sym('int', z3.If(c, to_int(x), to_int(cur)))
    return cur


def py_getattr(I, o, name, *default):
    try:
        return I.getattr(o, name)
    except PyRaise as pr:
        if default and issubclass(pr.exc.cls, AttributeError):
            return default[0]
        raise


def py_hasattr(I, o, name):
    try:
        I.getattr(o, name)
        return True
    except PyRaise as pr:
        if issubclass(pr.exc.cls, AttributeError):
            return False
        raise


def py_type(I, o):
    if isinstance(o, Obj):
        return o.cls
    if isinstance(o, Sym):
        return {'int': int, 'bool': bool, 'str': str, 'bytes': bytes}[o.kind]
    if isinstance(o, ExcVal):
        return o.cls
    if is_sym(o):
        raise Unsupported('type() of optional')
    return type(o)


def py_list(I, v=()):
    w = I.resolve_iterable(v) if not isinstance(v, (tuple, list, str, bytes)) else v
    if type(w).__name__ in ('SymList', 'ListView'):
        # list(L) / list(reversed(L)) of a symbolic list: a COPY (the array term is a value, so the copy is free); a view stays a view
        from . import heap as H
        vw = H.view_of(w)
        if vw.enum:
            raise Unsupported('list(enumerate(symbolic list))')
        base = H.SymList(vw.base.elems, vw.base.length, vw.base.schema, vw.base.heap)
        if type(w).__name__ == 'SymList':
            return base
        return H.ListView(base, vw.lo, vw.hi, vw.rev, False)
    return SList(list(I.iter_items(v)))


def py_tuple(I, v=()):
    return tuple(I.iter_items(v))


def py_enumerate(I, v, start=0):
    v = I.resolve_iterable(v)
    if type(v).__name__ in ('SymList', 'ListView'):
        from . import heap as H
        w = H.view_of(v)
        return H.ListView(w.base, w.lo, w.hi, w.rev, True, start)
    return SList([(i + start, x) for i, x in enumerate(I.iter_items(v))])


def py_reversed(I, v):
    v = I.resolve_iterable(v)
    if type(v).__name__ in ('SymList', 'ListView'):
        from . import heap as H
        w = H.view_of(v)
        if w.enum:
            raise Unsupported('reversed(enumerate(..))')
        return H.ListView(w.base, w.lo, w.hi, not w.rev, False)
    return SList(list(I.iter_items(v))[::-1])


def py_zip(I, *vs):
    return SList(list(zip(*[list(I.iter_items(v)) for v in vs])))


def py_any(I, v):
    ts = [truth(x) for x in I.iter_items(v)]
    if I.spec:
        r = z3_or(*ts)
        return r if isinstance(r, bool) else Sym('bool', r)
    for t in ts:
        if I.p.choose(t):
            return True
    return False


def py_all(I, v):
    ts = [truth(x) for x in I.iter_items(v)]
    if I.spec:
        r = z3_and(*ts)
        return r if isinstance(r, bool) else Sym('bool', r)
    for t in ts:
        if not I.p.choose(t):
            return False
    return True


def py_sum(I, v, start=0):
    acc = start
    import ast as _ast
    for x in I.iter_items(v):
        acc = I.binop(_ast.Add(), acc, x)
    return acc


def py_print(I, *a, **k):
    return None


def py_repr(I, v):
    if is_sym(v) or isinstance(v, (Obj, SList, SDict)):
        return Opaque('repr')
    return repr(v)


def py_iter(I, v):
    return SList(list(I.iter_items(v)))


def py_sorted(I, v, **kw):
    items = list(I.iter_items(v))
    if _has_sym(tuple(items)) or kw:
        raise Unsupported('sorted on symbolic')
    return SList(sorted(items))


def py_dict(I, *a, **kw):
    d = SDict()
    if a:
        src = a[0]
        if isinstance(src, SDict):
            d.items.update(src.items)
        elif isinstance(src, dict):
            d.items.update(src)
        else:
            for kv in I.iter_items(src):
                k, v = I.unpack(kv, 2)
                d.items[I.dict_key(k)] = v
    d.items.update(kw)
    return d


def py_abs(I, v):
    if isinstance(v, Sym):
        return Sym('int', z3.If(v.t < 0, -v.t, v.t))
    return abs(v)


NATIVE = {
    _b.isinstance: py_isinstance, _b.len: py_len, _b.str: py_str, _b.bool: py_bool, _b.int: py_int, _b.chr: py_chr,
    _b.ord: py_ord, _b.min: py_min, _b.max: py_max, _b.getattr: py_getattr, _b.hasattr: py_hasattr, _b.type: py_type,
    _b.list: py_list, _b.tuple: py_tuple, _b.enumerate: py_enumerate, _b.reversed: py_reversed, _b.zip: py_zip,
    _b.any: py_any, _b.all: py_all, _b.sum: py_sum, _b.print: py_print, _b.repr: py_repr, _b.iter: py_iter,
    _b.sorted: py_sorted, _b.dict: py_dict, _b.abs: py_abs,
}


def _regex_match(I, pattern, flags, text, pos, mode):
    """the assumed contract of `re`: match succeeds iff some prefix of text[pos:] is in L(p); then group(0) is
    that prefix.  Which admissible prefix the backtracking matcher picks is not modelled (found is any of them)."""
    from . import regexlang as R
    import re as _re
    p = I.p
    key = (pattern, flags)
    tr = p.engine.func_cache.get(('regex', key))
    if tr is None:
        tr = R.translate(pattern, flags)
        p.engine.func_cache[('regex', key)] = tr
    p.note_assumption('re: match() is truthy iff a prefix of the subject is in L(pattern); group(0) is such a prefix (choice among prefixes not modelled)')
    text = I.need(text)
    t = lift(text)
    posv = to_int(pos)
    rest = z3.SubString(t, posv, z3.Length(t) - posv) if not (isinstance(pos, int) and pos == 0) else t
    lits = _finite_literals(pattern, flags)
    if lits is not None and mode == 'match':
        # a production that is a choice of literal strings, none a prefix of another: the match is decided by prefix tests
        for lt_ in lits:
            if I.p.choose(z3.PrefixOf(mk_str(lt_), rest)):
                I.p.assume(z3.SubString(t, posv, z3.IntVal(len(lt_))) == mk_str(lt_))
                return Obj(MatchStub, {'found': lt_, 'start_': pos, 'subject': text})
        return None
    if mode == 'match':
        lang = tr.match_language()
    elif mode == 'fullmatch':
        lang = tr.body
    else:
        lang = tr.match_language() if tr.anchored_start else z3.Concat(R.FULL, tr.match_language())
    if getattr(p.engine, 'regex_forget_nonmatch', False) and mode == 'match':
        # over-approximation chosen by the target: a failed match tells nothing (the path keeps no negated regular-expression
        # constraint); sound for universally quantified postconditions, which then hold for a superset of the reachable states
        fc = p.engine.func_cache.get(('regex-firstchar', key), 0)
        if fc == 0:
            fc = _decided_by_first_char(pattern, flags, lang)
            p.engine.func_cache[('regex-firstchar', key)] = fc
        if fc is not None:
            # lemma (decided once per pattern): the match succeeds iff the subject is non-empty and starts with a character of the
            # class fc - both outcomes are then cheap, exact first-character constraints (this keeps e.g. "CHAR or INVALID always
            # match", the progress argument)
            first = z3.SubString(rest, 0, 1)
            hit = p.choose(z3.And(z3.Length(rest) > 0, z3.InRe(first, R.ranges_to_re(fc))))
        else:
            p.counter += 1
            hit = p.choose(z3.Bool(f'matched!{p.counter}'))
        if hit:
            p.assume(z3.InRe(rest, lang))
    else:
        hit = I.p.choose(z3.InRe(rest, lang))
    if hit:
        found = p.fresh('str', 'found')
        p.assume(z3.InRe(found.t, tr.body))
        if mode == 'search' and not tr.anchored_start:
            start = p.fresh('int', 'mstart')
            p.assume(z3.And(start.t >= posv, start.t + z3.Length(found.t) <= z3.Length(t)))
            p.assume(z3.SubString(t, start.t, z3.Length(found.t)) == found.t)
            st = start
        else:
            p.assume(posv + z3.Length(found.t) <= z3.Length(t))
            p.assume(z3.SubString(t, posv, z3.Length(found.t)) == found.t)
            st = pos
            if mode == 'fullmatch':
                p.assume(found.t == rest)
        return Obj(MatchStub, {'found': found, 'start_': st, 'subject': text})
    return None


def _decided_by_first_char(pattern, flags, lang):
    """ranges C with  match_language == C . Sigma*  (not nullable), else None; C from the automaton, the equation by the solver"""
    from . import regexlang as R
    from . import automata as A
    try:
        nfa = A.build(pattern, flags, mode='match')
        atoms = A.boundaries(nfa)
        dfa = A.DFA(nfa)
        if dfa.accepts_state(dfa.start):
            return None
        C = R._norm_ranges([(a, b) for a, b in atoms if dfa.step(dfa.start, a)])
        if not C:
            return None
        st_, _w, _dt = R.included(z3.Concat(R.ranges_to_re(C), R.FULL), lang, timeout_ms=20000, want_witness=False)
        return C if st_ == 'unsat' else None
    except Exception:
        return None


_FL_CACHE = {}


def _finite_literals(pattern, flags):
    key = (pattern, flags)
    if key in _FL_CACHE:
        return _FL_CACHE[key]
    res = None
    try:
        import re._parser as sp
        import re._constants as sc
        if not (flags & _re_mod.I):
            tree = list(sp.parse(pattern, flags))
            while len(tree) == 1 and tree[0][0] is sc.SUBPATTERN:
                tree = list(tree[0][1][3])
            alts = None
            if len(tree) == 1 and tree[0][0] is sc.BRANCH:
                alts = [list(a) for a in tree[0][1][1]]
            elif tree and all(op is sc.LITERAL for op, _ in tree):
                alts = [tree]
            if alts and all(all(op is sc.LITERAL for op, _ in a) and a for a in alts) and len(alts) <= 4:
                lits = [''.join(chr(av) for _, av in a) for a in alts]
                if not any(x != y and y.startswith(x) for x in lits for y in lits):
                    res = lits
    except Exception:
        res = None
    _FL_CACHE[key] = res
    return res


class MatchStub:
    """stands for re.Match in symbolic runs"""


def _m_group(I, args, kw):
    m = args[0]
    g = args[1] if len(args) > 1 else 0
    if g == 0:
        return m.fields['found']
    gm = I.p.engine.models.get('re.Match.group')
    if gm is not None:
        return gm.fn(I, args, kw)
    raise Unsupported(f'match.group({g!r})')


def _m_end(I, args, kw):
    m = args[0]
    import ast as _ast
    return I.binop(_ast.Add(), m.fields['start_'], py_len(I, m.fields['found']))


def _m_start(I, args, kw):
    return args[0].fields['start_']


MATCH_MODELS = {'group': _m_group, 'end': _m_end, 'start': _m_start}


import re as _re_mod
PURE_NATIVE = {_re_mod.compile, _re_mod.escape}


def call_native(I, f, args, kwargs):
    eng = I.p.engine
    import re as _re
    slf = getattr(f, '__self__', None)
    if isinstance(slf, _re.Pattern) and f.__name__ in ('match', 'search', 'fullmatch') and eng.model_for(f) is None:
        if ('pattern', slf.pattern, f.__name__) in eng.models:
            return eng.models[('pattern', slf.pattern, f.__name__)].fn(I, args, kwargs)
        pos = args[1] if len(args) > 1 else kwargs.get('pos', 0)
        return _regex_match(I, slf.pattern, slf.flags, args[0], pos, f.__name__)
    if f in (_re.match, _re.search, _re.fullmatch) and eng.model_for(f) is None:
        pat = args[0]
        fl = args[2] if len(args) > 2 else kwargs.get('flags', 0)
        if is_sym(pat) or is_sym(fl):
            raise Unsupported('re with symbolic pattern')
        return _regex_match(I, pat, int(fl), args[1], 0, f.__name__)
    m = eng.model_for(f)
    if m is not None:
        return m.fn(I, args, kwargs)
    h = None
    try:
        h = NATIVE.get(f)
    except TypeError:
        h = None
    if h is not None:
        return h(I, *args, **kwargs)
    if isinstance(f, type) and issubclass(f, BaseException):
        ev = ExcVal(f, args)
        for (k, n), v in I.p.ghost.get('class_attrs', {}).items():
            if issubclass(f, k):
                ev.fields[n] = v
        return ev
    if f in PURE_NATIVE and not _has_sym(tuple(args)) and not _has_sym(tuple(kwargs.values())):
        return f(*args, **kwargs)
    if isinstance(f, types.FunctionType):
        if f in eng.inline or getattr(f, '__pyvc_inline__', False):
            return I.call_pyfunc(f, args, kwargs)
        if getattr(f, '__pyvc_native__', False):
            return f(I, *args, **kwargs)
        raise Unsupported(f'call to {f.__module__}.{f.__qualname__} without contract')
    if f is range:
        if _has_sym(tuple(args)):
            from .symex import _SymRange
            if len(args) == 1:
                return _SymRange(z3.IntVal(0), to_int(args[0]))
            if len(args) == 2:
                return _SymRange(to_int(args[0]), to_int(args[1]))
            raise Unsupported('range with symbolic step')
        return range(*args)
    if f in (frozenset, set):
        items = list(I.iter_items(args[0])) if args else []
        if _has_sym(tuple(items)):
            raise Unsupported('set() of symbolic members')
        return frozenset(items)
    if isinstance(f, types.BuiltinFunctionType) or isinstance(f, type) and f in (float, bytes, object, slice):
        if not _has_sym(tuple(args)) and not _has_sym(tuple(kwargs.values())) and not any(isinstance(a, (Obj, SList, SDict, Opaque)) for a in args):
            try:
                return f(*args, **kwargs)
            except Exception as e:  # concrete evaluation of a pure builtin
                raise PyRaise(ExcVal(type(e)))
    if isinstance(f, type):
        m = eng.models.get(('new', f))
        if m is not None:
            return m.fn(I, args, kwargs)
        init = f.__dict__.get('__init__') or getattr(f, '__init__', None)
        if f in eng.inline and isinstance(init, types.FunctionType):
            o = Obj(f)
            o.plain_setattr = True
            eng.inline.add(init)
            I.call_pyfunc(init, [o] + list(args), kwargs)
            return o
        raise Unsupported(f'constructor {f.__module__}.{f.__qualname__} without contract')
    raise Unsupported(f'call of {f!r}')
