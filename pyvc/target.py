"""Targets (a repo function + its sidecar contract) and the verification driver for one target.

verify(target) explores every path of the real function's AST, evaluates the contract clauses
symbolically (spec mode) on each path outcome, and discharges `pc => clause` with z3, falling
back to cvc5 for z3's unknowns.  A `sat` answer is concretised and replayed on the real function
under CPython with the same clause evaluated natively.
"""
from __future__ import annotations

import ast
import importlib
import inspect
import os
import re
import subprocess
import sys
import tempfile
import time
import traceback
import z3

from . import symex as SX
from .symex import (Sym, Opt, Obj, SList, SDict, ExcVal, Func, Model, Opaque, Unsupported, PathEnd, PyRaise, Path, Engine,
                    Interp, Frame, truth, lift, is_sym, kind_of)

REPO = os.environ.get('VERIF_REPO', '/repo')


def spec(fn):
    """Mark a sidecar function as a spec function: interpreted symbolically in spec mode (no forking)."""
    fn.__pyvc_inline__ = True
    fn.__pyvc_spec__ = True
    return fn


def inline(fn):
    fn.__pyvc_inline__ = True
    return fn


def now(x):
    """in a postcondition: the object `x` (taken from the pre-state snapshot) as it is in the post-state"""
    return x


def _m_now(I, args, kw):
    x = args[0]
    if type(x).__name__ == 'SymObj':
        from . import heap as H
        return H.SymObj(x.id, x.schema, None)
    if isinstance(x, Obj) and getattr(x, 'snapshot_of', None) is not None:
        return x.snapshot_of
    return x


@spec
def implies(a, b):
    return (not a) or b


class Clause:
    def __init__(self, name, fn, props=None, known=None):
        self.name = name
        self.fn = fn
        self.props = props
        self.known = known  # (id, K predicate fn) -> obligation becomes  not K => clause


class Target:
    def __init__(self, file, qualname, props, name=None, module=None, note=''):
        self.file = file
        self.qualname = qualname
        self.props = list(props)
        self.name = name or f'{file}::{qualname}'
        self.module = module or file[:-3].replace('/', '.').replace('.__init__', '')
        self.note = note
        self.setup = None
        self.ensures = []
        self.requires = []
        self.raises = []  # (exc class, [Clause])
        self.models = {}
        self.inline = set()
        self.loops = {}
        self.assumptions = []
        self.concretise = None
        self.native_call = None
        self.max_paths = 20000
        self.timeout_ms = 30000  # per obligation; sized so that verdicts do not flip to `unknown` when all cores are busy (typical: milliseconds)
        self.cvc5_ms = None
        self.cover = []
        self.exc_any_ok = False
        self.post_state = None
        self.instances = None

    # decorators
    def inputs(self, fn):
        self.setup = fn
        return fn

    def require(self, fn):
        """precondition (code- or domain-derived); assumed at entry, reported in the evidence"""
        self.requires.append(Clause(fn.__name__, fn))
        return fn

    def ensure(self, fn=None, *, name=None, props=None, known=None):
        def deco(f):
            self.ensures.append(Clause(name or f.__name__, f, props, known))
            return f
        return deco(fn) if fn is not None else deco

    def on_raise(self, exc_cls, name=None, props=None):
        def deco(f):
            for c, lst in self.raises:
                if c is exc_cls:
                    lst.append(Clause(name or f.__name__, f, props))
                    return f
            self.raises.append((exc_cls, [Clause(name or f.__name__, f, props)]))
            return f
        return deco

    def allow_raise(self, exc_cls):
        for c, lst in self.raises:
            if c is exc_cls:
                return
        self.raises.append((exc_cls, []))

    def model(self, key, assumed=True, name=None):
        def deco(f):
            self.models[key] = Model(f, name or getattr(key, '__qualname__', str(key)), assumed)
            return f
        return deco


# --------------------------------------------------------------------------- solving

CVC5 = '/usr/bin/cvc5'


def _has_quantifier(assertions):
    for a in assertions:
        if 'forall' in a.sexpr()[:200000] or 'exists' in a.sexpr()[:200000] or 'lambda' in a.sexpr()[:200000]:
            return True
    return False


def check_unsat(assertions, timeout_ms=10000, want_model=True, seed=0, cvc5_ms=None, quantified=None):
    """returns (status, backend, model_or_None, seconds); status in unsat|sat|unknown.
    Quantified obligations: first E-matching only (MBQI off; only its `unsat` is used), then the default configuration."""
    t0 = time.time()
    if quantified is None:
        quantified = _has_quantifier(assertions)
    if quantified:
        s = z3.Solver()
        s.set('auto_config', False)
        s.set('mbqi', False)
        s.set('timeout', min(timeout_ms, 15000))
        s.set('random_seed', seed)
        for a in assertions:
            s.add(a)
        if s.check() == z3.unsat:
            return 'unsat', 'smt-z3', None, time.time() - t0
    s = z3.Solver()
    s.set('timeout', timeout_ms)
    s.set('random_seed', seed)
    for a in assertions:
        s.add(a)
    r = s.check()
    dt = time.time() - t0
    if r == z3.unsat:
        return 'unsat', 'smt-z3', None, dt
    if r == z3.sat:
        return 'sat', 'smt-z3', s.model(), dt
    if quantified:
        # quantifier instantiation is sensitive to the solver's random choices: an `unknown` is retried with other seeds (E-matching only,
        # then default) before the obligation is given up as undecided; only `unsat` answers are used from the retries
        for k in (1, 2, 3):
            for em_only in (True, False):
                s3 = z3.Solver()
                if em_only:
                    s3.set('auto_config', False)
                    s3.set('mbqi', False)
                s3.set('timeout', timeout_ms)
                s3.set('random_seed', seed + 17 * k)
                s3.set('smt.random_seed', seed + 17 * k) if False else None
                for a in assertions:
                    s3.add(a)
                if s3.check() == z3.unsat:
                    return 'unsat', 'smt-z3', None, time.time() - t0
        return 'unknown', 'none', None, time.time() - t0  # lambdas/quantified arrays are not portable to the cvc5 text interface
    # fallback: cvc5 on the same SMT-LIB text
    try:
        txt = s.to_smt2()
        st = run_cvc5(txt, cvc5_ms or timeout_ms * 6)
    except Exception as e:  # pragma: no cover
        st = 'unknown'
    dt = time.time() - t0
    if st == 'unsat':
        return 'unsat', 'smt-cvc5', None, dt
    if st == 'sat':
        # ask z3 again, longer, for a model
        s2 = z3.Solver()
        s2.set('timeout', timeout_ms * 3)
        for a in assertions:
            s2.add(a)
        if s2.check() == z3.sat:
            return 'sat', 'smt-z3', s2.model(), time.time() - t0
        return 'sat', 'smt-cvc5', None, time.time() - t0
    return 'unknown', 'none', None, dt


def run_cvc5(smt2_text, timeout_ms):
    txt = '(set-logic ALL)\n' + smt2_text
    with tempfile.NamedTemporaryFile('w', suffix='.smt2', delete=False, dir='/var/tmp') as f:
        f.write(txt)
        fn = f.name
    try:
        pr = subprocess.run([CVC5, '--strings-exp', f'--tlimit={int(timeout_ms)}', fn], capture_output=True, text=True, timeout=timeout_ms / 1000 + 10)
        out = pr.stdout.strip().splitlines()
        return out[0].strip() if out else 'unknown'
    except Exception:
        return 'unknown'
    finally:
        try:
            os.unlink(fn)
        except OSError:
            pass


# --------------------------------------------------------------------------- model -> python

_ESC = re.compile(r'\\u\{([0-9a-fA-F]+)\}|\\u([0-9a-fA-F]{4})|\\x([0-9a-fA-F]{2})')


def z3str_to_py(v):
    s = v.as_string()
    return _ESC.sub(lambda m: chr(int(m.group(1) or m.group(2) or m.group(3), 16)), s)


def concretise_value(v, model):
    if isinstance(v, Sym):
        e = model.eval(v.t, model_completion=True)
        if v.kind == 'int':
            return e.as_long()
        if v.kind == 'bool':
            return z3.is_true(e)
        if v.kind == 'str':
            return z3str_to_py(e)
        if v.kind == 'bytes':
            return bytes(ord(c) & 0xFF for c in z3str_to_py(e))
    if isinstance(v, Opt):
        if z3.is_true(model.eval(v.isnone, model_completion=True)):
            return None
        return concretise_value(v.val, model)
    if isinstance(v, tuple):
        return tuple(concretise_value(x, model) for x in v)
    if isinstance(v, SList):
        return [concretise_value(x, model) for x in v.items]
    if isinstance(v, SDict):
        return {k: concretise_value(x, model) for k, x in v.items.items()}
    tn = type(v).__name__
    if tn == 'SymObj':
        return _conc_symobj(v, model)
    if tn == 'SymList':
        n = model.eval(v.length, model_completion=True).as_long()
        from . import heap as H
        return {'__symlist__': [_conc_symobj(H.SymObj(z3.Select(v.elems, k), v.schema, v.heap), model) for k in range(min(n, 40))], 'length': n}
    if tn == 'SymIter':
        return {'__symiter__': concretise_value(v.base, model), 'cursor': model.eval(v.cursor, model_completion=True).as_long()}
    if isinstance(v, Obj):
        return {'__obj__': v.name, 'fields': {k: concretise_value(x, model) for k, x in v.fields.items() if not callable(x)}}
    return v


def _conc_symobj(o, model):
    from . import heap as H
    out = {'__symobj__': o.schema.name, 'id': model.eval(o.id, model_completion=True).as_long()}
    for f, k in o.schema.fields.items():
        arr = (o.heap or {}).get((o.schema.name, f))
        if arr is None:
            arr = z3.Array(f'heap0_{o.schema.name}_{f}', z3.IntSort(), o.schema.sort_of(f))
        val = model.eval(z3.Select(arr, o.id), model_completion=True)
        if k == 'int' or isinstance(k, tuple):
            out[f] = val.as_long()
        elif k == 'bool':
            out[f] = z3.is_true(val)
        else:
            out[f] = z3str_to_py(val)
    return out


# --------------------------------------------------------------------------- verification of one target


def get_target_func(t: Target):
    path = t.file if os.path.isabs(t.file) else os.path.join(REPO, t.file)
    src, tree = SX.load_module_ast(path)
    node = SX.find_def(tree, t.qualname)
    mod = importlib.import_module(t.module)
    return node, mod


def eval_clause(I: Interp, clause_fn, env):
    f = SX.func_from_pyfunc(clause_fn, spec=True)
    names = [a.arg for a in f.node.args.args + f.node.args.kwonlyargs]
    kwargs = {}
    for n in names:
        if n not in env:
            raise Unsupported(f'clause {clause_fn.__name__} wants unknown name {n}')
        kwargs[n] = env[n]
    sub = Interp(I.p, spec=True)
    v = sub.call_func(f, [], kwargs)
    return truth(v)


def native_clause(clause_fn, env):
    names = list(inspect.signature(clause_fn).parameters)
    return bool(clause_fn(**{n: env[n] for n in names}))


def path_sig(p: Path):
    return ''.join(('T' if d else 'F') for _, d in p.trace)


def verify(t: Target, seed=0, prefixes=None, budget=None, budget_s=None):
    """Returns a JSON-able dict with obligations, violations, undecided."""
    t0 = time.time()
    res = {'target': t.name, 'props': t.props, 'obligations': [], 'paths': 0, 'undecided': [], 'violations': [],
           'assumptions': list(t.assumptions), 'covers': 0, 'solver_s': 0.0, 'by_backend': {}, 'error': None, 'known': []}
    try:
        node, mod = get_target_func(t)
    except Exception as e:
        res['undecided'].append(f'stale sidecar: {e}')
        return res
    eng = Engine(models=dict(t.models), inline=set(t.inline))
    eng.models[now] = Model(_m_now, 'now', assumed=False)
    eng.loop_specs = dict(t.loops)
    eng.loop_phase = getattr(t, 'loop_phase', None)
    eng.regex_forget_nonmatch = getattr(t, 'regex_forget_nonmatch', False)
    globs = vars(mod)
    target_func = Func(node, None, globs, name=t.qualname)
    eng.target_func = target_func
    # loops are addressed by their ordinal within the function (pre-order over For/While, nested defs excluded)
    ords = {}
    def _walk(nodes, k=[0]):
        for n in nodes:
            if isinstance(n, (ast.FunctionDef, ast.Lambda, ast.ClassDef)):
                continue
            if isinstance(n, (ast.For, ast.While)):
                k[0] += 1
                ords[id(n)] = k[0]
            _walk(list(ast.iter_child_nodes(n)), k)
    _walk(node.body)
    eng.loop_ordinals = ords
    missing = [k for k in t.loops if isinstance(k, tuple) and k[0] == 'loop' and k[1] not in ords.values()]
    if missing:
        res['undecided'].append(f'stale sidecar: loop ordinals {missing} do not exist in {t.qualname}')
        return res
    worklist = [list(x) for x in (prefixes if prefixes is not None else [[]])]
    npaths = 0
    res['leftover'] = []
    while worklist:
        if (budget is not None and npaths >= budget) or (budget_s is not None and npaths >= 1 and time.time() - t0 > budget_s):
            res['leftover'] = worklist
            break
        prefix = worklist.pop()
        npaths += 1
        if npaths > t.max_paths:
            res['undecided'].append(f'path limit {t.max_paths} exceeded')
            break
        p = Path(eng, prefix)
        I = Interp(p)
        outcome = None
        env = None
        try:
            env = t.setup(I)  # dict name -> value ; special keys: __args__ (list) optional
            args = env.pop('__args__', None)
            kwargs = env.pop('__kwargs__', {})
            clos = env.pop('__closure__', None)
            if clos is not None:
                # the target is a nested function: the names it takes from the enclosing function's scope
                target_func = Func(node, SX.Frame(dict(clos), None, globs, t.qualname + '<enclosing scope>'), globs, name=t.qualname)
                eng.target_func = target_func
            if args is None:
                a = node.args
                names = [x.arg for x in a.posonlyargs + a.args]
                args = [env[n] for n in names if n in env]
            for rq in t.requires:
                p.assume(eval_clause(I, rq.fn, env))
            p.n_input_pc = len(p.pc)
            p.no_fork = eng.loop_phase == 'body'
            old = snapshot(env, p)
            env['old'] = old
            p.env_for_replay = env  # obligations raised inside the function (loop invariants, call preconditions) replay with the same inputs
            env['ghost'] = p.ghost
            try:
                r = I.call_func(target_func, list(args), dict(kwargs))
                outcome = ('return', r)
            except PyRaise as pr:
                outcome = ('raise', pr.exc)
            # postconditions
            if outcome[0] == 'return':
                env['result'] = outcome[1]
                for cl in t.ensures:
                    goal = eval_clause(I, cl.fn, env)
                    kn = None
                    if cl.known and known_active(cl.known[0]):
                        kk = eval_clause(I, cl.known[1], env)
                        goal = z3.Or(SX.as_bool_term(kk), SX.as_bool_term(goal))
                        kn = cl.known[0]
                    p.oblige(f'post.{cl.name}', goal, info={'clause': cl, 'env': env, 'outcome': outcome})
            else:
                exc = outcome[1]
                env['exc'] = exc
                entry = match_raises(t, exc.cls)
                if entry is not None:
                    c, clauses = entry
                    for cl in clauses:
                        goal = eval_clause(I, cl.fn, env)
                        p.oblige(f'raises.{c.__name__}.{cl.name}', goal, info={'clause': cl, 'env': env, 'outcome': outcome})
                    if not clauses:
                        p.oblige(f'raises.{c.__name__}.allowed', True, info={'clause': None, 'env': env, 'outcome': outcome})
                else:
                    p.oblige(f'noexc.{exc.cls.__name__}@{p.line}', False, info={'clause': None, 'env': env, 'outcome': outcome})
        except PathEnd:
            # the path was cut (loop head / infeasible assumption): obligations collected so far still count
            pass
        except Unsupported as u:
            res['undecided'].append(f'unsupported: {u} (line {p.line})')
            worklist.extend(p.alternatives)
            continue
        except PyRaise as pr:
            res['undecided'].append(f'exception {pr.exc.cls.__name__} while evaluating contract (line {p.line})')
            worklist.extend(p.alternatives)
            continue
        worklist.extend(p.alternatives)
        res['paths'] += 1
        # cover: the path condition is satisfiable
        if p.last_model is None:
            t1 = time.time()
            p.solver.set('timeout', 3000)
            st = p.solver.check()
            res['solver_s'] += time.time() - t1
            if st == z3.unsat:
                continue  # unreachable path (pruning was inconclusive earlier)
        res['covers'] += 1
        sig = path_sig(p)
        obligs = []
        for ob in p.obligs:
            parts = _flatten_and(ob.goal)
            if len(parts) == 1:
                obligs.append(ob)
            else:
                for i, g in enumerate(parts):
                    obligs.append(SX.Obligation(f'{ob.name}#{i + 1}', ob.pc, g, ob.line, ob.info))
        for ob in obligs:
            st, be, model, dt = check_unsat(ob.pc + [z3.Not(ob.goal)], t.timeout_ms, seed=seed, cvc5_ms=t.cvc5_ms)
            res['solver_s'] += dt
            rec = {'name': ob.name, 'path': sig, 'line': ob.line, 'status': {'unsat': 'discharged', 'sat': 'violated', 'unknown': 'unknown'}[st],
                   'backend': be, 's': round(dt, 4)}
            res['by_backend'][be] = res['by_backend'].get(be, 0) + 1
            if st == 'sat':
                model = refine_bytes_model(p, ob, model, t.timeout_ms)
                model = refine_uf_model(p, ob, model, t.timeout_ms)
                rec['witness'] = replay(t, ob, model, mod)
                if (ob.info or {}).get('internal') and not rec['witness'].get('replayed'):
                    # a PROOF obligation (loop invariant, variant, call precondition) no longer holds, but no input was found on which the
                    # real function breaks its postconditions: the proof is broken, the property is not shown to be - undecided, not an
                    # alarm (a harmless restructuring of a loop must not be reported as a violation of the property)
                    rec['status'] = 'unproved'
                    res['undecided'].append(f'proof obligation {ob.name} no longer holds on path {sig} (solver counter-model; no failing input found on the real code)')
                    res['obligations'].append(rec)
                    continue
                res['violations'].append(rec)
            elif st == 'unknown':
                cand = None
                if t.native_call is not None:
                    try:
                        cand = find_counterexample(ob.pc, ob.goal)
                    except z3.Z3Exception:
                        cand = None
                    if cand is None and getattr(t, 'battery_on_unknown', False):
                        # no bounded instantiation either: give the target's native scenario battery a chance, starting from the
                        # all-defaults input (only an input on which the REAL function breaks the clause is ever reported)
                        s0 = z3.Solver()
                        s0.check()
                        cand = s0.model()
                if cand is not None:
                    w = replay(t, ob, cand, mod)
                    if not w.get('replayed'):
                        try:
                            cand2 = find_counterexample(ob.pc, ob.goal, diversify=True)
                        except z3.Z3Exception:
                            cand2 = None
                        if cand2 is not None:
                            w2 = replay(t, ob, cand2, mod)
                            if w2.get('replayed'):
                                w = w2
                    if w.get('replayed'):
                        # the prover left the obligation open; a bounded search produced an input on which the real
                        # function violates the clause: this is a violation with a replayed input
                        w['found_by'] = 'bounded counterexample search after solver unknown'
                        rec['status'] = 'violated'
                        rec['witness'] = w
                        res['violations'].append(rec)
                        res['obligations'].append(rec)
                        continue
                res['undecided'].append(f'solver unknown on {ob.name} path {sig}')
            res['obligations'].append(rec)
    res['assumptions'] = sorted(set(res['assumptions']) | eng.assumptions | {f'assumed callee contract: {m.name}' for m in t.models.values() if m.assumed})
    res['stats'] = eng.stats
    res['wall_s'] = round(time.time() - t0, 3)
    return res


def refine_bytes_model(p, ob, model, timeout_ms):
    """symbolic byte strings are z3 Strings; make the counter-model use code points <= 255 only"""
    if not p.bytes_syms or model is None:
        return model
    extra = []
    for b in p.bytes_syms:
        try:
            n = model.eval(z3.Length(b), model_completion=True).as_long()
        except Exception:
            continue
        if n > 200:
            continue
        extra.append(z3.Length(b) == n)
        for i in range(n):
            extra.append(z3.StrToCode(z3.SubString(b, i, 1)) <= 255)
    st, be, m2, dt = check_unsat(ob.pc + [z3.Not(ob.goal)] + extra, timeout_ms)
    if st == 'sat' and m2 is not None:
        return m2
    extra = [SX.bytes_wf(b) for b in p.bytes_syms]
    st, be, m2, dt = check_unsat(ob.pc + [z3.Not(ob.goal)] + extra, timeout_ms)
    if st == 'sat' and m2 is not None:
        return m2
    return model


_KNOWN = None


def known_active(kid):
    """a recorded known-finding class only weakens a clause while it is listed (status known) in known_findings.json"""
    global _KNOWN
    if _KNOWN is None:
        from .check import load_known
        _KNOWN = {k for k, e in load_known().items() if e.get('status') == 'known'}
    return kid in _KNOWN


def _int_consts(exprs, limit=60):
    seen, out, stack = set(), [], list(exprs)
    while stack and len(out) < limit:
        e = stack.pop()
        if not z3.is_expr(e) or e.get_id() in seen:
            continue
        seen.add(e.get_id())
        if z3.is_quantifier(e):
            stack.append(e.body())
            continue
        if z3.is_const(e) and e.decl().kind() == z3.Z3_OP_UNINTERPRETED and e.sort() == z3.IntSort():
            out.append(e)
        elif z3.is_app(e):
            stack.extend(e.children())
    return out


def _arrays(exprs):
    seen, out, stack = set(), [], list(exprs)
    while stack:
        e = stack.pop()
        if not z3.is_expr(e) or e.get_id() in seen:
            continue
        seen.add(e.get_id())
        if z3.is_quantifier(e):
            stack.append(e.body())
            continue
        if z3.is_const(e) and e.decl().kind() == z3.Z3_OP_UNINTERPRETED and z3.is_array(e) and e.sort().domain() == z3.IntSort() and e.sort().range() == z3.IntSort():
            out.append(e)
        elif z3.is_app(e):
            stack.extend(e.children())
    return out


def _string_selects(fs, limit=14):
    """ground string-valued array reads occurring in the formulas (used to ask for a candidate in which they all differ)"""
    seen, out = set(), []

    def walk(e, bound_depth=0):
        if z3.is_quantifier(e):
            return
        k = e.get_id()
        if k in seen:
            return
        seen.add(k)
        if z3.is_app(e):
            if e.decl().kind() == z3.Z3_OP_SELECT and e.sort() == z3.StringSort():
                out.append(e)
            for c in e.children():
                walk(c)

    for f in fs:
        walk(f)
    return out[:limit]


def find_counterexample(pc, goal, timeout_ms=20000, bound=3, diversify=False):
    """Counterexample SEARCH for a quantified obligation the prover left open: hypotheses' quantifiers are replaced by their
    instances over a small set of ground terms and the initial list lengths are bounded.  This weakens the hypotheses, so a
    model found here proves nothing by itself - it is only a candidate that the caller replays on the real code."""
    base, quants = [], []
    flat = []
    for c in pc:
        flat.extend(_flatten_and(c))
    for c in flat:
        if z3.is_quantifier(c) and c.is_forall():
            quants.append(c)
        elif z3.is_not(c) and z3.is_quantifier(c.arg(0)) and c.arg(0).is_exists():
            q = c.arg(0)
            quants.append(z3.ForAll([z3.Const(q.var_name(i) + '!cx', q.var_sort(i)) for i in range(q.num_vars())],
                                    z3.Not(z3.substitute_vars(q.body(), *reversed([z3.Const(q.var_name(i) + '!cx', q.var_sort(i)) for i in range(q.num_vars())])))))
        else:
            base.append(c)
    consts = _int_consts(list(pc) + [goal])
    arrs = _arrays(list(pc) + [goal])
    terms = [z3.IntVal(v) for v in range(-1, bound + 2)] + consts[:12]
    for a in arrs[:3]:
        terms += [z3.Select(a, z3.IntVal(k)) for k in range(0, bound + 1)]
    inst = []
    import itertools
    for q in quants:
        nv = q.num_vars()
        if any(q.var_sort(i) != z3.IntSort() for i in range(nv)) or nv > 2:
            continue
        dom = terms if nv == 1 else terms[:bound + 3 + 6]
        for tup in itertools.product(dom, repeat=nv):
            inst.append(z3.substitute_vars(q.body(), *reversed(tup)))
    limits = [c <= bound for c in consts if str(c).startswith('nrules0') or str(c).startswith('len0')]
    s = z3.Solver()
    s.set('timeout', timeout_ms)
    for a in base + inst + limits:
        s.add(a)
    s.add(z3.Not(goal))
    if diversify:
        # second attempt: a candidate in which all string fields read anywhere differ and are non-empty (defects that only show when
        # two fields that usually coincide - name / literal name - differ are masked by the solver's habit of reusing one value)
        sel = _string_selects(base + inst + [goal], limit=40)
        by_index = {}
        for e in sel:
            by_index.setdefault(e.arg(1).get_id(), []).append(e)
        for grp in by_index.values():
            arrs_seen, uniq = set(), []
            for e in grp:
                if e.arg(0).get_id() not in arrs_seen:
                    arrs_seen.add(e.arg(0).get_id())
                    uniq.append(e)
            if len(uniq) >= 2:
                s.add(z3.Distinct(*uniq))  # different string fields of one object differ
            for e in uniq:
                s.add(z3.Length(e) > 0)
    if s.check() == z3.sat:
        return s.model()
    return None


def _flatten_and(g):
    if z3.is_and(g):
        out = []
        for c in g.children():
            out.extend(_flatten_and(c))
        return out
    if z3.is_implies(g):
        parts = _flatten_and(g.arg(1))
        if len(parts) > 1:
            return [z3.Implies(g.arg(0), c) for c in parts]
    if z3.is_or(g) and g.num_args() == 2 and z3.is_not(g.arg(0)):
        # (not a) or (b and c)
        parts = _flatten_and(g.arg(1))
        if len(parts) > 1:
            return [z3.Or(g.arg(0), c) for c in parts]
    return [g]


def match_raises(t, ecls):
    """most specific declared exception class matching ecls"""
    best = None
    for c, clauses in t.raises:
        if issubclass(ecls, c):
            if best is None or issubclass(c, best[0]):
                best = (c, clauses)
    return best


NATIVE_UFS = {
    'py_lower': lambda s: s.lower(), 'py_upper': lambda s: s.upper(), 'py_replace': lambda s, a, b: s.replace(a, b),
    'py_strip': lambda s, c: s.strip(c), 'py_lstrip': lambda s, c: s.lstrip(c), 'py_rstrip': lambda s, c: s.rstrip(c),
}


def _uf_apps(exprs):
    seen = set()
    out = []
    stack = list(exprs)
    while stack:
        e = stack.pop()
        if not z3.is_expr(e) or e.get_id() in seen:
            continue
        seen.add(e.get_id())
        if z3.is_quantifier(e):
            stack.append(e.body())
            continue
        if z3.is_app(e):
            if e.decl().kind() == z3.Z3_OP_UNINTERPRETED and e.num_args() > 0 and e.decl().name() in NATIVE_UFS:
                out.append(e)
            stack.extend(e.children())
    return out


def refine_uf_model(p, ob, model, timeout_ms, rounds=5):
    """Make the counter-model agree with CPython on the uninterpreted string functions (lower/replace/strip...):
    evaluate their arguments in the model, compute the real value natively, add it as a ground fact, re-solve."""
    if model is None:
        return model
    base = ob.pc + [z3.Not(ob.goal)]
    apps = _uf_apps(base)
    if not apps:
        return model
    facts = []
    cur = model
    for _ in range(rounds):
        new = []
        for a in apps:
            try:
                args = [z3str_to_py(cur.eval(x, model_completion=True)) for x in a.children()]
                want = NATIVE_UFS[a.decl().name()](*args)
                got = z3str_to_py(cur.eval(a, model_completion=True))
            except Exception:
                continue
            if got != want:
                new.append(a.decl()(*[SX.mk_str(x) for x in args]) == SX.mk_str(want))
        if not new:
            return cur
        facts.extend(new)
        st, be, m2, dt = check_unsat(base + facts, timeout_ms)
        if st != 'sat' or m2 is None:
            return cur if st != 'unsat' else model
        cur = m2
    return cur


def snapshot(env, p=None):
    out = {}
    hs = dict(p.heap) if p is not None else None
    if p is not None:
        # materialise the initial arrays of every declared field so that snapshot and live heap share them
        from . import heap as H
        for sch in H.SCHEMAS.values():
            for f in sch.fields:
                H.heap_array(p, sch, f)
                if sch.fields[f] == 'optstr':
                    H.heap_array(p, H.Schema(sch.name, {f + '?': 'bool'}), f + '?')
        hs = dict(p.heap)
    for k, v in env.items():
        out[k] = snap_value(v, 0, hs)
    return out


def snap_value(v, depth=0, hs=None):
    tn = type(v).__name__
    if tn == 'SymList':
        return v.frozen(hs)
    if tn == 'SymObj':
        from . import heap as H
        return H.SymObj(v.id, v.schema, hs)
    if tn == 'SymIter':
        from . import heap as H
        return H.SymIter(v.base.frozen(hs), v.cursor)
    if isinstance(v, Obj):
        o = Obj(v.cls, {}, v.name)
        o.snapshot_of = v
        if depth < 3:
            o.fields = {k: snap_value(x, depth + 1, hs) for k, x in v.fields.items()}
        else:
            o.fields = dict(v.fields)
        return o
    if isinstance(v, SList):
        return SList([snap_value(x, depth + 1, hs) if depth < 3 else x for x in v.items])
    if isinstance(v, SDict):
        return SDict({k: snap_value(x, depth + 1, hs) if depth < 3 else x for k, x in v.items.items()})
    return v


def replay(t: Target, ob, model, mod):
    """Concretise the model and run the real function natively with the clause evaluated natively."""
    w = {'replayed': False}
    if model is None:
        w['reason'] = 'no model from solver'
        return w
    try:
        info = ob.info or {}
        env = info.get('env') or {}
        conc = {k: concretise_value(v, model) for k, v in env.get('old', {}).items() if k not in ('old', 'ghost')}
        w['inputs'] = {k: repr(v)[:400] for k, v in conc.items()}
        if t.native_call is None:
            w['reason'] = 'no native replay defined for this target'
            return w
        t.current_clause = getattr(info.get('clause'), 'name', None)  # (a native scenario battery may look for a failure of THIS clause)
        out = t.native_call(mod, conc, model)
        w['observed'] = repr(out)[:400]
        cl = info.get('clause')
        sym_outcome = (info.get('outcome') or ('?',))[0]
        nenv = dict(conc)
        nenv.update(out[2] if len(out) > 2 and out[2] else {})
        nenv['old'] = (out[2] or {}).get('old', conc) if len(out) > 2 else conc  # (a native scenario may hand back real pre-state objects)
        if getattr(t, 'replay_state_only', False) and cl is not None:
            # the clause speaks about state only (same on every exit): evaluate it on whatever exit the native scenario took
            try:
                ok = native_clause(cl.fn, nenv)
            except Exception as ex:
                w['reason'] = f'clause not evaluable natively: {type(ex).__name__}: {ex}'
                return w
            w['replayed'] = not ok
            w['reason'] = 'clause false on the real function (scenario battery)' if not ok else 'clause holds on every native scenario tried'
            return w
        if out[0] == 'raise':
            e = out[1]
            entry = match_raises(t, type(e))
            if entry is None:
                w['replayed'] = True
                w['reason'] = f'real function raised {type(e).__name__}, which the contract does not allow'
                return w
            nenv['exc'] = e
            for rc in entry[1]:
                try:
                    if not native_clause(rc.fn, nenv):
                        w['replayed'] = True
                        w['reason'] = f'real function raised {type(e).__name__} and clause {rc.name} is false'
                        return w
                except Exception as ex:
                    w['reason'] = f'clause {rc.name} not evaluable natively: {type(ex).__name__}: {ex}'
                    return w
            w['reason'] = f'real function raised {type(e).__name__} as the contract allows (model relies on an assumed callee outcome)'
            return w
        # native return
        nenv['result'] = out[1]
        if cl is None and info.get('internal'):
            # an obligation raised inside the function (loop invariant, variant, call precondition) failed: the solver's input is
            # run on the real function and judged by the target's own postconditions
            bad = []
            for pc in t.ensures:
                try:
                    if native_clause(pc.fn, nenv) is False:
                        bad.append(pc.name)
                except NotImplementedError:
                    continue
                except Exception as ex:
                    w['reason'] = f'clause {pc.name} not evaluable natively: {type(ex).__name__}: {ex}'
                    return w
            if bad:
                w['replayed'] = True
                w['reason'] = 'postcondition(s) false on the real function for the input of the failed internal obligation: ' + ', '.join(bad)
            else:
                w['reason'] = 'the postconditions hold on the real function for this input (the internal obligation fails for a state the model reaches, not shown as an end-to-end failure)'
            return w
        if sym_outcome != 'return' or cl is None:
            w['reason'] = 'real function returned normally on the concretised input (symbolic path took an assumed callee exception)'
            return w
        try:
            ok = native_clause(cl.fn, nenv)
            if ok is False and cl.known:
                try:
                    if native_clause(cl.known[1], nenv):
                        ok = True
                except Exception:
                    pass
        except Exception as e:
            w['reason'] = f'clause not evaluable natively: {type(e).__name__}: {e}'
            return w
        if not ok:
            w['replayed'] = True
            w['reason'] = 'clause false on the real function'
        else:
            w['reason'] = 'clause holds natively on the concretised input (model relies on an uninterpreted/assumed callee)'
    except Exception as e:
        w['reason'] = f'replay error: {type(e).__name__}: {e}'
        w['trace'] = traceback.format_exc()[-800:]
    return w


# --------------------------------------------------------------------------- callee contracts from type descriptors


def fresh_of(I, ty, hint='r'):
    """fresh symbolic value of a type descriptor: 'int'|'bool'|'str'|'bytes'|('opt',T)|('tuple',[T..])|('const',v)"""
    p = I.p
    if isinstance(ty, str):
        return p.fresh(ty, hint)
    if ty[0] == 'opt':
        p.counter += 1
        return Opt(z3.Bool(f'{hint}!isnone!{p.counter}'), fresh_of(I, ty[1], hint))
    if ty[0] == 'tuple':
        return tuple(fresh_of(I, x, f'{hint}{i}') for i, x in enumerate(ty[1]))
    if ty[0] == 'const':
        return ty[1]
    raise Unsupported(f'type descriptor {ty!r}')


def contract_model(callee: 'Target', result_type, argnames, raises=()):
    """Callee contract as a model: havoc the result, assume the callee's ensures clauses (modular call:
    the caller sees only the contract). `raises`: exception classes the callee may raise (each forks)."""

    def fn(I, args, kwargs):
        env = dict(zip(argnames, args))
        env.update(kwargs)
        for n in argnames:
            if n not in env:
                raise Unsupported(f'contract_model({callee.name}): missing argument {n}')
        for ec in raises:
            I.p.counter += 1
            if I.p.choose(z3.Bool(f'callee_raises!{ec.__name__}!{I.p.counter}')):
                raise PyRaise(ExcVal(ec))
        for rq in callee.requires:
            f = SX.func_from_pyfunc(rq.fn, spec=True)
            if all(a.arg in env for a in f.node.args.args):
                I.p.oblige(f'call.{callee.qualname}.requires.{rq.name}', eval_clause(I, rq.fn, env), info={'clause': None, 'env': {}, 'outcome': ('call',)})
        r = fresh_of(I, result_type, 'ret_' + callee.qualname.split('.')[-1])
        env['result'] = r
        env['old'] = dict(env)
        for cl in callee.ensures:
            f = SX.func_from_pyfunc(cl.fn, spec=True)
            names = [a.arg for a in f.node.args.args]
            if any(n not in env for n in names):
                continue  # clause talks about ghost/universal inputs the caller does not have
            g = eval_clause(I, cl.fn, env)
            if cl.known and known_active(cl.known[0]):
                kk = eval_clause(I, cl.known[1], env)
                g = SX.z3_or(kk, g)
            I.p.assume(g)
        return r

    return Model(fn, f'{callee.name} (own contract, proved as its own target)', assumed=False)
