"""PyVC symbolic executor: runs the *real* source of a repo function (read with ast from the
current working tree) on symbolic inputs, one path per run, paths enumerated by re-execution
under a decision prefix.  Every point where Python could go two ways on a symbolic value
(branch, short-circuit, implicit exception, None-check) calls Path.choose().

Values
  concrete Python values (int, bool, str, bytes, None, float, tuple, frozenset) are kept native;
  Sym(kind, term)    symbolic scalar, kind in int|bool|str|bytes (bytes = z3 String, chars<=255)
  Opt(isnone, val)   value that may be None
  Obj(cls, fields)   heap object with concrete identity, symbolic field contents
  SList(items)       list of concrete length (items symbolic)
  SDict(items)       dict with concrete keys
  Func / BoundMethod / BuiltinMethod / Native   callables

Calls never inline repo code except (a) nested defs/lambdas lexically inside the target,
(b) spec functions from the sidecar, (c) callables the sidecar marks `inline`.
Everything else needs a model (callee contract) or the target is *undecided* (Unsupported).
"""
from __future__ import annotations

import ast
import builtins as _py_builtins
import inspect
import types
import z3

# --------------------------------------------------------------------------- exceptions


class Unsupported(Exception):
    """Construct outside the supported subset: the target is undecided (exit 2)."""


class PathEnd(Exception):
    """Path cut (assume false, loop cut point)."""


class PyRaise(Exception):
    """A Python exception raised by the analysed code."""

    def __init__(self, exc):
        super().__init__(getattr(exc, 'cls', exc))
        self.exc = exc  # ExcVal


class _Return(Exception):
    def __init__(self, v):
        self.v = v


class _Break(Exception):
    pass


class _Continue(Exception):
    pass


# --------------------------------------------------------------------------- values


class Sym:
    __slots__ = ('kind', 't')

    def __init__(self, kind, t):
        self.kind = kind
        self.t = t

    def __repr__(self):
        return f'Sym({self.kind},{self.t})'


class Opt:
    __slots__ = ('isnone', 'val')

    def __init__(self, isnone, val):
        self.isnone = isnone
        self.val = val

    def __repr__(self):
        return f'Opt({self.isnone},{self.val})'


class Obj:
    def __init__(self, cls, fields=None, name=None):
        self.cls = cls
        self.fields = dict(fields or {})
        self.name = name or getattr(cls, '__name__', str(cls))

    def __repr__(self):
        return f'<Obj {self.name}>'


class SList:
    def __init__(self, items=()):
        self.items = list(items)

    def __repr__(self):
        return f'SList({self.items})'


class SDict:
    def __init__(self, items=None):
        self.items = dict(items or {})


class ExcVal:
    """An exception instance in the analysed program."""

    def __init__(self, cls, args=(), fields=None):
        self.cls = cls
        self.args = tuple(args)
        self.fields = dict(fields or {})

    def __repr__(self):
        return f'ExcVal({self.cls.__name__})'


class Func:
    def __init__(self, node, closure, globs, name=None, defaults=None, kwdefaults=None, spec=False):
        self.node = node
        self.closure = closure  # Frame or None
        self.globs = globs
        self.name = name or getattr(node, 'name', '<lambda>')
        self.defaults = defaults or []
        self.kwdefaults = kwdefaults or {}
        self.spec = spec
        self.owner = None
        if name and '.' in name:
            parts = name.split('.')
            if len(parts) >= 2 and parts[-2] != '<locals>':
                self.owner = parts[-2]


class BoundMethod:
    def __init__(self, recv, fn, name=None):
        self.recv = recv
        self.fn = fn
        self.name = name


class BuiltinMethod:
    def __init__(self, recv, name):
        self.recv = recv
        self.name = name


class Model:
    """A callee contract written against the Path API: fn(path, args, kwargs) -> value."""

    def __init__(self, fn, name=None, assumed=True):
        self.fn = fn
        self.name = name or fn.__name__
        self.assumed = assumed


class Opaque:
    """An opaque value (e.g. formatted log message)."""

    def __init__(self, what='opaque'):
        self.what = what


# --------------------------------------------------------------------------- z3 helpers


def mk_str(s):
    if isinstance(s, (bytes, bytearray)):
        s = ''.join(chr(b) for b in s)
    out = []
    for ch in s:
        o = ord(ch)
        if 32 <= o < 127 and ch not in '\\"':
            out.append(ch)
        else:
            out.append('\\u{%x}' % o)
    return z3.StringVal(''.join(out))


def is_sym(v):
    return isinstance(v, (Sym, Opt))


def lift(v):
    """value -> z3 term (scalars only)"""
    if isinstance(v, Sym):
        return v.t
    if isinstance(v, bool):
        return z3.BoolVal(v)
    if isinstance(v, int):
        return z3.IntVal(v)
    if isinstance(v, (str, bytes)):
        return mk_str(v)
    raise Unsupported(f'cannot lift {type(v).__name__} {v!r}')


def kind_of(v):
    if isinstance(v, Sym):
        return v.kind
    if isinstance(v, bool):
        return 'bool'
    if isinstance(v, int):
        return 'int'
    if isinstance(v, str):
        return 'str'
    if isinstance(v, bytes):
        return 'bytes'
    if v is None:
        return 'none'
    if isinstance(v, tuple):
        return 'tuple'
    if isinstance(v, float):
        return 'float'
    if isinstance(v, Opt):
        return 'opt'
    if isinstance(v, Obj):
        return 'obj'
    if isinstance(v, SList):
        return 'list'
    if isinstance(v, SDict):
        return 'dict'
    return type(v).__name__


def z3_and(*xs):
    xs = [x for x in xs if not (isinstance(x, bool) and x)]
    if any(isinstance(x, bool) and not x for x in xs):
        return False
    if not xs:
        return True
    if len(xs) == 1:
        return xs[0]
    return z3.And(*xs)


def z3_or(*xs):
    xs = [x for x in xs if not (isinstance(x, bool) and not x)]
    if any(isinstance(x, bool) and x for x in xs):
        return True
    if not xs:
        return False
    if len(xs) == 1:
        return xs[0]
    return z3.Or(*xs)


def z3_not(x):
    if isinstance(x, bool):
        return not x
    return z3.Not(x)


def as_bool_term(c):
    if isinstance(c, bool):
        return z3.BoolVal(c)
    return c


# --------------------------------------------------------------------------- frames


class Frame:
    def __init__(self, locals_, parent, globs, fname='', owner=None):
        self.locals = locals_
        self.parent = parent
        self.globs = globs
        self.fname = fname
        self.nonlocals = set()
        # class whose body lexically contains the code (private name mangling)
        self.owner = owner if owner is not None else (parent.owner if parent is not None else None)

    def mangle(self, name):
        if self.owner and name.startswith('__') and not name.endswith('__'):
            return '_' + self.owner.lstrip('_') + name
        return name

    def lookup(self, name):
        f = self
        while f is not None:
            if name in f.locals:
                return f.locals[name]
            f = f.parent
        if name in self.globs:
            return self.globs[name]
        if hasattr(_py_builtins, name):
            return getattr(_py_builtins, name)
        raise Unsupported(f'unbound name {name}')

    def store(self, name, v):
        if name in self.nonlocals:
            f = self.parent
            while f is not None:
                if name in f.locals:
                    f.locals[name] = v
                    return
                f = f.parent
        self.locals[name] = v


# --------------------------------------------------------------------------- the path


class Obligation:
    __slots__ = ('name', 'pc', 'goal', 'line', 'info')

    def __init__(self, name, pc, goal, line=0, info=None):
        self.name = name
        self.pc = pc
        self.goal = goal
        self.line = line
        self.info = info


class Engine:
    """Holds what is shared between the path runs of one target."""

    def __init__(self, models=None, inline=None, branch_timeout_ms=2000, spec_globs=None):
        self.models = models or {}  # python object id / dotted name -> Model
        self.inline = inline or set()  # python function objects that may be interpreted
        self.branch_timeout_ms = branch_timeout_ms
        self.assumptions = set()
        self.stats = {'branch_checks': 0, 'paths': 0, 'forced': 0}
        self.func_cache = {}
        self.loop_specs = {}
        self.scan_loops = 0

    def model_for(self, obj):
        try:
            m = self.models.get(obj)
        except TypeError:
            m = None
        if m is None:
            q = getattr(obj, '__module__', None), getattr(obj, '__qualname__', None)
            if q[0] and q[1]:
                m = self.models.get(f'{q[0]}.{q[1]}')
        return m


class Path:
    def __init__(self, engine, prefix):
        self.engine = engine
        self.prefix = list(prefix)
        self.taken = []
        self.alternatives = []
        self.pc = []
        self.solver = z3.Solver()
        self.solver.set('timeout', engine.branch_timeout_ms)
        self.obligs = []
        self.counter = 0
        self.ghost = {}
        self.trace = []  # (line, decision) for path signature
        self.line = 0
        self.out = []  # yielded values
        self.notes = []
        self.last_model = None
        self.pending_model = None
        self.heap = {}
        self.heap0 = {}
        self.obj_ids = {}
        self.obj_keep = []
        self.bytes_syms = []  # symbolic byte strings: chars <= 255 is imposed per read and at concretisation
        self.no_fork = False  # body phase of a modular loop cut: the code before the loop runs along one feasible path only
        self.n_input_pc = None  # length of pc when the target function starts (input assumptions and preconditions only)

    # -- symbols
    def fresh(self, kind, hint='v'):
        self.counter += 1
        name = f'{hint}!{self.counter}'
        if kind == 'int':
            return Sym('int', z3.Int(name))
        if kind == 'bool':
            return Sym('bool', z3.Bool(name))
        if kind in ('str', 'bytes'):
            s = Sym(kind, z3.String(name))
            if kind == 'bytes':
                self.bytes_syms.append(s.t)
            return s
        raise Unsupported(f'fresh {kind}')

    def fresh_opt(self, kind, hint='v'):
        self.counter += 1
        isn = z3.Bool(f'{hint}!isnone!{self.counter}')
        return Opt(isn, self.fresh(kind, hint))

    # -- logic
    def assume(self, c):
        if isinstance(c, bool):
            if not c:
                raise PathEnd('assume false')
            return
        self.pc.append(c)
        self.solver.add(c)
        m = self.last_model
        if m is not None:
            try:
                if not z3.is_true(m.eval(c, model_completion=True)):
                    self.last_model = None
            except z3.Z3Exception:
                self.last_model = None

    def reset_to_inputs(self):
        """forget every decision and assumption made since the target function started (modular loop cut: the state at the loop
        head is described by the invariant alone)"""
        self.pc = list(self.pc[:self.n_input_pc])
        s2 = z3.Solver()
        if getattr(self, 'has_quant', False):
            s2.set('auto_config', False)
            s2.set('mbqi', False)
        s2.set('timeout', self.engine.branch_timeout_ms)
        for c in self.pc:
            s2.add(c)
        self.solver = s2
        self.last_model = None
        self.pending_model = None

    def use_quantifier_mode(self):
        """path conditions with quantifiers: decide branch feasibility by E-matching only (MBQI off): `unsat` answers stay
        sound, `unknown` keeps the branch; this keeps the per-branch cost at milliseconds"""
        if getattr(self, 'has_quant', False):
            return
        self.has_quant = True
        s2 = z3.Solver()
        s2.set('auto_config', False)
        s2.set('mbqi', False)
        s2.set('timeout', self.engine.branch_timeout_ms)
        for c in self.pc:
            s2.add(c)
        self.solver = s2
        self.last_model = None

    def _feasible(self, c):
        # model-guided: if the last model of this path's pc already satisfies c, no solver call
        m = self.last_model
        if m is not None:
            try:
                if z3.is_true(m.eval(c, model_completion=True)):
                    return True
            except z3.Z3Exception:
                pass
        self.engine.stats['branch_checks'] += 1
        self.solver.push()
        self.solver.add(c)
        r = self.solver.check()
        if r == z3.sat:
            try:
                self.pending_model = (c, self.solver.model())
            except z3.Z3Exception:
                self.pending_model = None
        self.solver.pop()
        return r != z3.unsat

    def choose(self, cond, why=''):
        """Decide a symbolic condition on this path. Returns a Python bool.
        Every symbolic choose is a recorded decision (forced ones too), so that a
        prefix replays without solver calls."""
        if isinstance(cond, bool):
            return cond
        if isinstance(cond, Sym):
            cond = cond.t
        cond = z3.simplify(cond)
        if z3.is_true(cond):
            return True
        if z3.is_false(cond):
            return False
        i = len(self.taken)
        if i < len(self.prefix):
            d = self.prefix[i]
        else:
            ff = self._feasible(z3.Not(cond))
            ft = self._feasible(cond)
            if ft and ff:
                d = True
                if not self.no_fork:
                    self.alternatives.append(self.taken + [False])
            elif ft:
                d = True
                self.engine.stats['forced'] += 1
            elif ff:
                d = False
                self.engine.stats['forced'] += 1
            else:
                raise PathEnd('infeasible')
        self.taken.append(d)
        self.trace.append((self.line, d))
        chosen = cond if d else z3.Not(cond)
        # keep a model of the whole pc when we have one
        m = self.last_model
        ok = False
        if m is not None:
            try:
                ok = z3.is_true(m.eval(chosen, model_completion=True))
            except z3.Z3Exception:
                ok = False
        if not ok:
            pm = self.pending_model
            self.last_model = pm[1] if (pm is not None and pm[0] is not None and pm[0].eq(chosen)) else None
        self.pending_model = None
        self.assume(chosen)
        return d

    def oblige(self, name, goal, info=None):
        if isinstance(goal, Sym):
            goal = goal.t
        if isinstance(goal, bool):
            goal = z3.BoolVal(goal)
        if info is None and getattr(self, 'env_for_replay', None) is not None:
            info = {'env': self.env_for_replay, 'clause': None, 'outcome': None, 'internal': True}
        self.obligs.append(Obligation(name, list(self.pc), goal, self.line, info))

    def note_assumption(self, text):
        self.engine.assumptions.add(text)


def bytes_wf(t):
    i = z3.Int('__bi')
    return z3.ForAll([i], z3.Implies(z3.And(i >= 0, i < z3.Length(t)), z3.StrToCode(z3.SubString(t, i, 1)) <= 255))


# --------------------------------------------------------------------------- generic value ops


def ite_value(c, a, b):
    """merge two values under condition c (z3 Bool or python bool)"""
    if isinstance(c, bool):
        return a if c else b
    if a is b:
        return a
    ka, kb = kind_of(a), kind_of(b)
    if not is_sym(a) and not is_sym(b) and ka == kb and ka in ('int', 'bool', 'str', 'bytes', 'none') and a == b:
        return a
    if ka == 'tuple' and kb == 'tuple' and len(a) == len(b):
        return tuple(ite_value(c, x, y) for x, y in zip(a, b))
    if ka == 'none' and kb == 'none':
        return None
    if ka == 'none':
        if kb == 'opt':
            return Opt(z3.Or(c, b.isnone), b.val)
        return Opt(c, b)
    if kb == 'none':
        if ka == 'opt':
            return Opt(z3.Or(z3.Not(c), a.isnone), a.val)
        return Opt(z3.Not(c), a)
    if ka == 'opt' or kb == 'opt':
        ai, av = (a.isnone, a.val) if ka == 'opt' else (z3.BoolVal(False), a)
        bi, bv = (b.isnone, b.val) if kb == 'opt' else (z3.BoolVal(False), b)
        return Opt(z3.If(c, ai, bi), ite_value(c, av, bv))
    if ka == kb and ka in ('int', 'bool', 'str', 'bytes'):
        return Sym(ka, z3.If(c, lift(a), lift(b)))
    if {ka, kb} == {'int', 'bool'}:
        return Sym('int', z3.If(c, to_int(a), to_int(b)))
    raise Unsupported(f'cannot merge {ka} with {kb}')


def to_int(v):
    if isinstance(v, bool):
        return z3.IntVal(int(v))
    if isinstance(v, int):
        return z3.IntVal(v)
    if isinstance(v, Sym):
        if v.kind == 'int':
            return v.t
        if v.kind == 'bool':
            return z3.If(v.t, z3.IntVal(1), z3.IntVal(0))
    raise Unsupported(f'to_int {v!r}')


def truth(v):
    """value -> python bool or z3 Bool (no forking)"""
    if isinstance(v, Sym):
        if v.kind == 'bool':
            return v.t
        if v.kind == 'int':
            return v.t != 0
        if v.kind in ('str', 'bytes'):
            return z3.Length(v.t) > 0
    if isinstance(v, Opt):
        return z3_and(z3.Not(v.isnone), as_bool_term(truth(v.val)))
    if isinstance(v, SList):
        return len(v.items) > 0
    if isinstance(v, SDict):
        return len(v.items) > 0
    if type(v).__name__ == 'SymList':
        return v.length > 0
    if type(v).__name__ in ('SymObj', 'SymIter', 'ListView'):
        return True
    if isinstance(v, Obj):
        c = v.cls
        if isinstance(c, type) and (hasattr(c, '__len__') or hasattr(c, '__bool__')):
            raise Unsupported(f'truthiness of {c.__name__} which defines __len__/__bool__')
        return True
    if isinstance(v, (Func, BoundMethod, BuiltinMethod, Model, ExcVal)):
        return True
    if isinstance(v, Opaque):
        raise Unsupported('truth of opaque value')
    return bool(v)


def eq_values(a, b):
    """a == b as python bool or z3 Bool"""
    if type(a).__name__ == 'SymObj' or type(b).__name__ == 'SymObj':
        return _ref_eq(a, b)
    if isinstance(a, Opt) or isinstance(b, Opt):
        if isinstance(a, Opt) and isinstance(b, Opt):
            return z3.Or(z3.And(a.isnone, b.isnone), z3.And(z3.Not(a.isnone), z3.Not(b.isnone), as_bool_term(eq_values(a.val, b.val))))
        o, x = (a, b) if isinstance(a, Opt) else (b, a)
        if x is None:
            return o.isnone
        return z3_and(z3.Not(o.isnone), as_bool_term(eq_values(o.val, x)))
    if not is_sym(a) and not is_sym(b):
        if isinstance(a, tuple) and isinstance(b, tuple):
            if len(a) != len(b):
                return False
            return z3_and(*[as_bool_term(eq_values(x, y)) if (is_sym(x) or is_sym(y) or isinstance(x, tuple)) else (x == y) for x, y in zip(a, b)]) if any(_has_sym(x) or _has_sym(y) for x, y in zip(a, b)) else a == b
        if isinstance(a, (Obj, SList, SDict)) or isinstance(b, (Obj, SList, SDict)):
            if isinstance(a, SList) and isinstance(b, SList):
                if len(a.items) != len(b.items):
                    return False
                return z3_and(*[as_bool_term(eq_values(x, y)) for x, y in zip(a.items, b.items)])
            return a is b
        return a == b
    ka, kb = kind_of(a), kind_of(b)
    if ka == 'none' or kb == 'none':
        return False
    if ka == 'tuple' or kb == 'tuple':
        if ka != kb or len(a) != len(b):
            return False
        return z3_and(*[as_bool_term(eq_values(x, y)) for x, y in zip(a, b)])
    num = ('int', 'bool')
    if ka in num and kb in num:
        if ka == 'bool' and kb == 'bool':
            return lift(a) == lift(b)
        return to_int(a) == to_int(b)
    if ka in ('str', 'bytes') and kb == ka:
        return lift(a) == lift(b)
    if ka in ('str', 'bytes', 'int', 'bool') and kb in ('str', 'bytes', 'int', 'bool'):
        return False  # different python types never equal (str vs bytes, str vs int)
    if isinstance(a, (Obj, SList, SDict)) or isinstance(b, (Obj, SList, SDict)):
        return False
    raise Unsupported(f'== between {ka} and {kb}')


_CUR_PATH = [None]


def _ref_eq(a, b):
    from . import heap as H
    p = _CUR_PATH[0]
    if isinstance(a, (Obj, H.SymObj, Opt)) or a is None:
        if isinstance(b, (Obj, H.SymObj, Opt)) or b is None:
            return H.obj_id(p, a) == H.obj_id(p, b)
    return False


def _has_sym(v):
    if is_sym(v):
        return True
    if isinstance(v, tuple):
        return any(_has_sym(x) for x in v)
    return False


# --------------------------------------------------------------------------- source access

_SRC_CACHE = {}


def load_module_ast(path):
    if path not in _SRC_CACHE:
        with open(path, encoding='utf-8') as f:
            src = f.read()
        _SRC_CACHE[path] = (src, ast.parse(src, filename=path))
    return _SRC_CACHE[path]


def find_def(tree, qualname):
    parts = qualname.split('.')
    node = tree
    for p in parts:
        found = None
        for ch in ast.iter_child_nodes(node):
            if isinstance(ch, (ast.FunctionDef, ast.ClassDef, ast.AsyncFunctionDef)) and ch.name == p:
                found = ch
            elif isinstance(ch, (ast.If, ast.Try)):
                for sub in ast.walk(ch):
                    if isinstance(sub, (ast.FunctionDef, ast.ClassDef)) and sub.name == p:
                        found = found or sub
        if found is None:
            raise KeyError(f'{qualname}: {p} not found')
        node = found
    return node


def func_from_pyfunc(pyfunc, spec=False):
    """Build a Func from a real python function (sidecar spec functions, nested helpers)."""
    fn = inspect.unwrap(pyfunc)
    path = inspect.getsourcefile(fn)
    _, tree = load_module_ast(path)
    node = None
    target_line = fn.__code__.co_firstlineno
    for n in ast.walk(tree):
        if isinstance(n, (ast.FunctionDef, ast.Lambda)) and getattr(n, 'name', '<lambda>') == fn.__name__:
            deco = [d.lineno for d in getattr(n, 'decorator_list', [])]
            if n.lineno == target_line or target_line in deco or (deco and min(deco) == target_line):
                node = n
                break
    if node is None:
        raise Unsupported(f'source of {fn.__qualname__} not found')
    f = Func(node, None, fn.__globals__, name=fn.__qualname__, spec=spec)
    f.pyfunc = fn
    f.defaults = list(fn.__defaults__ or ())
    f.kwdefaults = dict(fn.__kwdefaults__ or {})
    f.defaults_evaluated = True
    return f


_TRIVIAL = {}


def is_trivial_accessor(pyf):
    """one-line accessors `return self.<attr>` / `lambda self: self.<attr>` / `self._x = v` are read from the class
    body and interpreted (DESIGN 2.1): they carry no logic of their own"""
    r = _TRIVIAL.get(pyf)
    if r is not None:
        return r
    r = False
    try:
        f = func_from_pyfunc(pyf)
        node = f.node
        args = [a.arg for a in node.args.args]
        if isinstance(node, ast.Lambda):
            body = node.body
        else:
            stmts = [st for st in node.body if not (isinstance(st, ast.Expr) and isinstance(st.value, ast.Constant))]
            body = None
            if len(stmts) == 1 and isinstance(stmts[0], ast.Return):
                body = stmts[0].value
            elif len(stmts) == 1 and isinstance(stmts[0], ast.Assign) and len(args) == 2:
                t = stmts[0].targets[0]
                if (isinstance(t, ast.Attribute) and isinstance(t.value, ast.Name) and t.value.id == args[0]
                        and isinstance(stmts[0].value, ast.Name) and stmts[0].value.id == args[1]):
                    r = True
        if body is not None and len(args) == 1:
            if isinstance(body, ast.Attribute) and isinstance(body.value, ast.Name) and body.value.id == args[0]:
                r = True
            elif isinstance(body, ast.Constant):
                r = True
    except Exception:
        r = False
    _TRIVIAL[pyf] = r
    return r


# --------------------------------------------------------------------------- interpreter


class Interp:
    def __init__(self, path: Path, spec=False):
        self.p = path
        self.spec = spec  # spec mode: no forking, boolean connectives become terms
        _CUR_PATH[0] = path

    # ---- statements
    def exec_block(self, stmts, fr):
        for i, st in enumerate(stmts):
            if self.spec and isinstance(st, ast.If):
                # merge: value of the rest of the block under both branches
                c = truth(self.eval(st.test, fr))
                if isinstance(c, bool):
                    self.exec_block(st.body if c else st.orelse, fr)
                    continue
                rest = stmts[i + 1:]
                va = self._spec_branch(st.body + rest, fr)
                vb = self._spec_branch(st.orelse + rest, fr)
                raise _Return(ite_value(c, va, vb))
            self.exec_stmt(st, fr)

    def _spec_branch(self, stmts, fr):
        fr2 = Frame(dict(fr.locals), fr.parent, fr.globs, fr.fname)
        try:
            self.exec_block(stmts, fr2)
        except _Return as r:
            return r.v
        return None

    def exec_stmt(self, st, fr):
        self.p.line = getattr(st, 'lineno', self.p.line)
        m = getattr(self, 'st_' + type(st).__name__, None)
        if m is None:
            raise Unsupported(f'statement {type(st).__name__} at line {st.lineno}')
        return m(st, fr)

    def st_Expr(self, st, fr):
        if isinstance(st.value, ast.Constant):
            return  # docstring
        self.eval(st.value, fr)

    def st_Pass(self, st, fr):
        pass

    def st_Assign(self, st, fr):
        v = self.eval(st.value, fr)
        for t in st.targets:
            self.assign(t, v, fr)

    def st_AnnAssign(self, st, fr):
        if st.value is not None:
            self.assign(st.target, self.eval(st.value, fr), fr)

    def st_AugAssign(self, st, fr):
        cur = self.eval(_load(st.target), fr)
        v = self.binop(st.op, cur, self.eval(st.value, fr))
        self.assign(st.target, v, fr)

    def st_Return(self, st, fr):
        raise _Return(self.eval(st.value, fr) if st.value is not None else None)

    def st_If(self, st, fr):
        c = self.eval(st.test, fr)
        d = self.p.choose(truth(c))
        self.narrow(st.test, d, fr)
        if d:
            self.exec_block(st.body, fr)
        else:
            self.exec_block(st.orelse, fr)

    def narrow(self, test, outcome, fr):
        """after `x is None` / `x is not None` has been decided, an Optional local is replaced by None or its payload"""
        if isinstance(test, ast.Compare) and len(test.ops) == 1 and isinstance(test.left, ast.Name) and isinstance(test.comparators[0], ast.Constant) \
                and test.comparators[0].value is None and isinstance(test.ops[0], (ast.Is, ast.IsNot)):
            try:
                v = fr.lookup(test.left.id)
            except Unsupported:
                return
            if isinstance(v, Opt):
                is_none = outcome if isinstance(test.ops[0], ast.Is) else not outcome
                fr.store(test.left.id, None if is_none else v.val)

    def st_ImportFrom(self, st, fr):
        import importlib
        if st.level:
            raise Unsupported('relative import inside a function')
        mod = importlib.import_module(st.module)
        for a in st.names:
            fr.store(a.asname or a.name, getattr(mod, a.name))

    def st_Import(self, st, fr):
        import importlib
        for a in st.names:
            mod = importlib.import_module(a.name)
            fr.store(a.asname or a.name.split('.')[0], mod if a.asname else importlib.import_module(a.name.split('.')[0]))

    def st_Break(self, st, fr):
        raise _Break()

    def st_Continue(self, st, fr):
        raise _Continue()

    def st_Raise(self, st, fr):
        if st.exc is None:
            cur = fr.lookup('__current_exc__')
            raise PyRaise(cur)
        e = self.eval(st.exc, fr)
        raise PyRaise(self.make_exc(e))

    def make_exc(self, e):
        if isinstance(e, ExcVal):
            return e
        if isinstance(e, type) and issubclass(e, BaseException):
            return ExcVal(e)
        if isinstance(e, Obj) and isinstance(e.cls, type) and issubclass(e.cls, BaseException):
            return ExcVal(e.cls, fields=e.fields)
        raise Unsupported(f'raise of {e!r}')

    def st_Assert(self, st, fr):
        c = truth(self.eval(st.test, fr))
        if not self.p.choose(c):
            raise PyRaise(ExcVal(AssertionError))

    def st_Global(self, st, fr):
        raise Unsupported('global statement')

    def st_Nonlocal(self, st, fr):
        fr.nonlocals.update(st.names)

    def st_FunctionDef(self, st, fr):
        f = Func(st, fr, fr.globs, name=st.name)
        f.defaults = [self.eval(d, fr) for d in st.args.defaults]
        f.kwdefaults = {a.arg: self.eval(d, fr) for a, d in zip(st.args.kwonlyargs, st.args.kw_defaults) if d is not None}
        f.defaults_evaluated = True
        fr.store(st.name, f)

    def st_Delete(self, st, fr):
        for t in st.targets:
            if isinstance(t, ast.Subscript):
                base = self.eval(t.value, fr)
                self.del_subscript(base, t.slice, fr)
            elif isinstance(t, ast.Name):
                fr.locals.pop(t.id, None)
            else:
                raise Unsupported('del target')

    def st_Try(self, st, fr):
        try:
            self._try_core(st, fr)
        except (PathEnd, Unsupported):
            raise
        except BaseException:
            if st.finalbody:
                self.exec_block(st.finalbody, fr)
            raise
        if st.finalbody:
            self.exec_block(st.finalbody, fr)

    def _try_core(self, st, fr):
        try:
            self.exec_block(st.body, fr)
        except PyRaise as pr:
            for h in st.handlers:
                if self.exc_matches(pr.exc, h.type, fr):
                    if h.name:
                        fr.store(h.name, pr.exc)
                    saved = fr.locals.get('__current_exc__')
                    fr.locals['__current_exc__'] = pr.exc
                    try:
                        self.exec_block(h.body, fr)
                    finally:
                        if saved is None:
                            fr.locals.pop('__current_exc__', None)
                        else:
                            fr.locals['__current_exc__'] = saved
                    return
            raise
        else:
            self.exec_block(st.orelse, fr)

    def st_With(self, st, fr):
        # only contextlib.suppress(E...)
        if len(st.items) != 1:
            raise Unsupported('with (multi)')
        ce = st.items[0].context_expr
        import contextlib
        if isinstance(ce, ast.Call):
            f = self.eval(ce.func, fr)
            if f is contextlib.suppress:
                classes = [self.eval(a, fr) for a in ce.args]
                try:
                    self.exec_block(st.body, fr)
                except PyRaise as pr:
                    if not any(issubclass(pr.exc.cls, c) for c in classes):
                        raise
                return
        raise Unsupported('with statement other than contextlib.suppress')

    def exc_matches(self, exc, tnode, fr):
        if tnode is None:
            return True
        t = self.eval(tnode, fr)
        ts = t if isinstance(t, tuple) else (t,)
        for c in ts:
            if not (isinstance(c, type) and issubclass(c, BaseException)):
                raise Unsupported(f'except clause type {c!r}')
            if issubclass(exc.cls, c):
                return True
        return False

    def st_While(self, st, fr):
        spec = self.loop_spec(st, fr)
        if spec is not None:
            return self.loop_with_invariant(st, fr, spec, None)
        n = 0
        while True:
            c = self.eval(st.test, fr)
            tc = truth(c)
            if not isinstance(tc, bool):
                n += 1
                if n > self.p.engine.loop_specs.get('__unroll_limit__', 64):
                    raise Unsupported(f'while loop at line {st.lineno}: symbolic guard without invariant exceeds unroll limit')
            if not self.p.choose(tc):
                break
            try:
                self.exec_block(st.body, fr)
            except _Break:
                return
            except _Continue:
                continue
        self.exec_block(st.orelse, fr)

    def loop_spec(self, st, fr):
        eng = self.p.engine
        ls = eng.loop_specs
        k = getattr(eng, 'loop_ordinals', {}).get(id(st))
        if k is not None and ('loop', k) in ls:
            return ls[('loop', k)]
        return ls.get(('line', st.lineno))

    def st_For(self, st, fr):
        it = self.eval(st.iter, fr)
        it = self.resolve_iterable(it)
        if type(it).__name__ in ('SymList', 'ListView', 'SymIter'):
            spec = self.loop_spec(st, fr)
            if spec is not None:
                return self.loop_with_invariant(st, fr, spec, it)
            return self.scan_loop(st, fr, it)
        items = self.iter_items(it)
        broke = False
        for x in items:
            self.assign(st.target, x, fr)
            try:
                self.exec_block(st.body, fr)
            except _Break:
                broke = True
                break
            except _Continue:
                continue
        if not broke:
            self.exec_block(st.orelse, fr)

    def resolve_iterable(self, it):
        """objects iterate through their class' ('iter', cls) model (e.g. a sheet iterates its rule list)"""
        if isinstance(it, Opt):
            it = self.unwrap(it, TypeError)
        if isinstance(it, Obj):
            m = self.p.engine.models.get(('iter', it.cls))
            if m is not None:
                return self.resolve_iterable(m.fn(self, [it], {}))
        return it

    def scan_loop(self, st, fr, it):
        """`for x in L: [pure temps;] if c(x): S; <exit>` over a symbolic list that the body does not otherwise touch is
        summarised exactly: either a first index satisfying c exists (run S there), or no element satisfies c (run else)."""
        from . import heap as H
        v = H.view_of(it)
        body = list(st.body)
        temps = []
        while body and isinstance(body[0], ast.Assign) and len(body[0].targets) == 1 and isinstance(body[0].targets[0], ast.Name) and _is_pure(body[0].value):
            temps.append(body.pop(0))
        if not (len(body) == 1 and isinstance(body[0], ast.If) and not body[0].orelse and _ends_with_exit(body[0].body) and _is_pure(body[0].test)):
            raise Unsupported(f'for loop over a symbolic list at line {st.lineno} is not a scan loop and has no invariant')
        ifs = body[0]
        self.p.engine.scan_loops += 1
        p = self.p
        p.use_quantifier_mode()

        def bind(q, frame):
            # q is an absolute position in the underlying list (keeps quantifier triggers free of offset arithmetic)
            el = v.base.at(q)
            if v.enum:
                i = ((v.hi - 1 - q) if v.rev else (q - v.lo))
                if not (isinstance(v.start, int) and v.start == 0):
                    i = i + v.start
                self.assign(st.target, (Sym('int', z3.simplify(i) if z3.is_expr(i) else i), el), frame)
            else:
                self.assign(st.target, el, frame)
            for t in temps:
                sub.exec_stmt(t, frame)

        sub = Interp(p, spec=True)

        def cond_at(q):
            f2 = Frame(dict(fr.locals), fr.parent, fr.globs, fr.fname)
            bind(q, f2)
            return as_bool_term(truth(sub.eval(ifs.test, f2)))

        q = H._bound_var(p, 'q')
        exists = z3.Exists([q], z3.And(q >= v.lo, q < v.hi, cond_at(q)))
        if p.choose(exists):
            h = H._bound_var(p, 'hit')
            q2 = H._bound_var(p, 'q')
            p.assume(z3.And(h >= v.lo, h < v.hi, cond_at(h)))
            earlier = z3.And(q2 > h, q2 < v.hi) if v.rev else z3.And(q2 >= v.lo, q2 < h)
            p.assume(z3.ForAll([q2], z3.Implies(earlier, z3.Not(cond_at(q2)))))
            bind(h, fr)
            try:
                self.exec_block(ifs.body, fr)
            except _Break:
                return
            raise Unsupported('scan loop body fell through')
        else:
            # the negated existential is on the path condition: no element satisfies the test
            self.exec_block(st.orelse, fr)

    def iter_items(self, it):
        it = self.resolve_iterable(it)
        if type(it).__name__ in ('SymList', 'ListView'):
            raise Unsupported('materialising a symbolic list')
        if isinstance(it, SList):
            return _LiveIter(it)
        if isinstance(it, (tuple, list, range, str, bytes, frozenset, set)):
            return list(it)
        if isinstance(it, dict):
            return list(it)
        if isinstance(it, SDict):
            return list(it.items.keys())
        if isinstance(it, _Items):
            return it.lst
        if isinstance(it, types.GeneratorType):
            return list(it)
        if hasattr(it, '__iter__') and not is_sym(it) and not isinstance(it, (Obj,)):
            try:
                return list(it)
            except Exception:
                pass
        raise Unsupported(f'iteration over {kind_of(it)}')

    # ---- assignment
    def assign(self, t, v, fr):
        if isinstance(t, ast.Name):
            fr.store(t.id, v)
        elif isinstance(t, (ast.Tuple, ast.List)):
            vals = self.unpack(v, len(t.elts))
            for e, x in zip(t.elts, vals):
                self.assign(e, x, fr)
        elif isinstance(t, ast.Attribute):
            base = self.eval(t.value, fr)
            self.setattr(base, fr.mangle(t.attr), v)
        elif isinstance(t, ast.Subscript):
            base = self.eval(t.value, fr)
            idx = self.eval(t.slice, fr)
            self.setitem(base, idx, v)
        else:
            raise Unsupported(f'assign target {type(t).__name__}')

    def unpack(self, v, n):
        if isinstance(v, Opt):
            if self.p.choose(v.isnone):
                raise PyRaise(ExcVal(TypeError))
            v = v.val
        if isinstance(v, tuple):
            if len(v) != n:
                raise PyRaise(ExcVal(ValueError))
            return list(v)
        if isinstance(v, SList):
            if len(v.items) != n:
                raise PyRaise(ExcVal(ValueError))
            return list(v.items)
        if isinstance(v, list):
            if len(v) != n:
                raise PyRaise(ExcVal(ValueError))
            return list(v)
        if isinstance(v, str) and not is_sym(v):
            if len(v) != n:
                raise PyRaise(ExcVal(ValueError))
            return list(v)
        if isinstance(v, Sym) and v.kind in ('str', 'bytes'):
            if not self.p.choose(z3.Length(v.t) == n):
                raise PyRaise(ExcVal(ValueError))
            return [self.str_at(v, i) for i in range(n)]
        if v is None:
            raise PyRaise(ExcVal(TypeError))
        if type(v).__name__ == 'SymObj' and getattr(v.schema, 'tuple_fields', None):
            from . import heap as H
            tf = v.schema.tuple_fields
            if len(tf) != n:
                raise PyRaise(ExcVal(ValueError))
            return [H.read_field(self, v, f) for f in tf]
        raise Unsupported(f'unpack {kind_of(v)}')

    def setattr(self, base, name, v):
        if type(base).__name__ == 'SymObj':
            from . import heap as H
            sm = self.p.engine.models.get(('setattr', base.schema.name, name))
            if sm is not None:
                return sm.fn(self, [base, name, v], {})
            if name in base.schema.fields:
                return H.write_field(self, base, name, v)
            raise Unsupported(f'store to {base.schema.name}.{name} (not in schema)')
        if isinstance(base, Obj):
            om = self.p.engine.models.get(('setattr', id(base), name)) or self.p.engine.models.get(('setattr', base.cls, name))
            if om is not None:
                return om.fn(self, [base, name, v], {})
            # property setter?
            c = base.cls
            if isinstance(c, type):
                try:
                    raw = inspect.getattr_static(c, name)
                except AttributeError:
                    raw = None
                if isinstance(raw, property):
                    if raw.fset is None:
                        raise PyRaise(ExcVal(AttributeError))
                    return self.call_pyfunc(raw.fset, [base, v], {})
                if hasattr(c, '__setattr__') and c.__setattr__ is not object.__setattr__:
                    m = self.p.engine.model_for(c.__setattr__)
                    if m is not None:
                        return m.fn(self, [base, name, v], {})
                    if not getattr(base, 'plain_setattr', False):
                        raise Unsupported(f'{c.__name__} defines __setattr__')
            base.fields[name] = v
            return
        if isinstance(base, ExcVal):
            base.fields[name] = v
            return
        if isinstance(base, Opt):
            if self.p.choose(base.isnone):
                raise PyRaise(ExcVal(AttributeError))
            return self.setattr(base.val, name, v)
        if base is None:
            raise PyRaise(ExcVal(AttributeError))
        if isinstance(base, type) and issubclass(base, BaseException):
            # attributes stored on an exception CLASS (cssutils' error handler does this): kept as ghost class state
            self.p.ghost.setdefault('class_attrs', {})[(base, name)] = v
            return
        gm = self.p.engine.models.get(('setattr', id(base), name)) or self.p.engine.models.get(('setattr', getattr(base, '__name__', None), name))
        if gm is not None:
            return gm.fn(self, [base, name, v], {})
        raise Unsupported(f'setattr on {kind_of(base)}.{name}')

    def setitem(self, base, idx, v):
        if isinstance(base, SList):
            if isinstance(idx, int):
                if -len(base.items) <= idx < len(base.items):
                    base.items[idx] = v
                    return
                raise PyRaise(ExcVal(IndexError))
            raise Unsupported('list store with symbolic index')
        if isinstance(base, SDict):
            k = self.dict_key(idx)
            base.items[k] = v
            return
        if isinstance(base, Obj):
            return self.call_special(base, '__setitem__', [idx, v])
        raise Unsupported(f'setitem on {kind_of(base)}')

    def del_subscript(self, base, slc, fr):
        if type(base).__name__ == 'SymList':
            from . import heap as H
            if isinstance(slc, ast.Slice):
                if slc.lower is None and slc.upper is None and slc.step is None:
                    if base.heap is not None:
                        raise Unsupported('del on a snapshot')
                    base.length = z3.IntVal(0)  # del L[:]
                    return
                raise Unsupported('del of a slice of a symbolic list')
            return H.lst_delete(self, base, self.eval(slc, fr))
        if isinstance(base, SList):
            if isinstance(slc, ast.Slice):
                lo = self.eval(slc.lower, fr) if slc.lower else None
                hi = self.eval(slc.upper, fr) if slc.upper else None
                if all(x is None or isinstance(x, int) for x in (lo, hi)):
                    del base.items[lo:hi]
                    return
                raise Unsupported('del slice symbolic')
            idx = self.eval(slc, fr)
            if isinstance(idx, int):
                if -len(base.items) <= idx < len(base.items):
                    del base.items[idx]
                    return
                raise PyRaise(ExcVal(IndexError))
            raise Unsupported('del list[sym]')
        if isinstance(base, SDict):
            k = self.dict_key(self.eval(slc, fr))
            if k in base.items:
                del base.items[k]
                return
            raise PyRaise(ExcVal(KeyError))
        if isinstance(base, Obj):
            return self.call_special(base, '__delitem__', [self.eval(slc, fr)])
        raise Unsupported(f'del on {kind_of(base)}')

    def dict_key(self, k):
        if is_sym(k) or isinstance(k, (Obj, SList)):
            if isinstance(k, Obj):
                return ('obj', id(k))
            raise Unsupported('symbolic dict key')
        return k

    # ---- expressions
    def eval(self, e, fr):
        m = getattr(self, 'ex_' + type(e).__name__, None)
        if m is None:
            raise Unsupported(f'expression {type(e).__name__} at line {getattr(e, "lineno", "?")}')
        return m(e, fr)

    def ex_Constant(self, e, fr):
        return e.value

    def ex_Name(self, e, fr):
        return fr.lookup(e.id)

    def ex_Tuple(self, e, fr):
        return tuple(self.eval(x, fr) for x in e.elts)

    def ex_List(self, e, fr):
        return SList([self.eval(x, fr) for x in e.elts])

    def ex_Set(self, e, fr):
        vals = [self.eval(x, fr) for x in e.elts]
        if any(is_sym(v) for v in vals):
            raise Unsupported('set literal with symbolic members')
        return frozenset(vals)

    def ex_Dict(self, e, fr):
        d = SDict()
        for k, v in zip(e.keys, e.values):
            if k is None:
                raise Unsupported('dict unpacking')
            d.items[self.dict_key(self.eval(k, fr))] = self.eval(v, fr)
        return d

    def ex_JoinedStr(self, e, fr):
        parts = []
        for v in e.values:
            if isinstance(v, ast.Constant):
                parts.append(v.value)
            else:
                x = self.eval(v.value, fr)
                if v.conversion != -1 or v.format_spec is not None:
                    if not is_sym(x) and not isinstance(x, (Obj, SList, SDict, Opaque)):
                        fs = ''
                        if v.format_spec is not None:
                            fs = self.eval(v.format_spec, fr)
                        conv = {-1: lambda o: o, 115: str, 114: repr, 97: ascii}[v.conversion]
                        parts.append(format(conv(x), fs))
                        continue
                    return Opaque('fstring')
                parts.append(self.to_str(x))
        if any(isinstance(p_, Opaque) for p_ in parts):
            return Opaque('fstring')
        return self.concat_strs(parts)

    def to_str(self, x):
        if isinstance(x, str):
            return x
        if isinstance(x, Sym) and x.kind == 'str':
            return x
        if isinstance(x, (int, float, bool)) or x is None:
            return str(x)
        if isinstance(x, Sym) and x.kind == 'int':
            return Opaque('str(int)')
        return Opaque('str()')

    def concat_strs(self, parts):
        if all(isinstance(p_, str) for p_ in parts):
            return ''.join(parts)
        ts = [lift(p_) for p_ in parts if not (isinstance(p_, str) and p_ == '')]
        if len(ts) == 1:
            return Sym('str', ts[0])
        return Sym('str', z3.Concat(*ts))

    def ex_FormattedValue(self, e, fr):
        return self.ex_JoinedStr(ast.JoinedStr(values=[e]), fr)

    def ex_Lambda(self, e, fr):
        f = Func(e, fr, fr.globs, name='<lambda>')
        f.defaults = [self.eval(d, fr) for d in e.args.defaults]
        f.defaults_evaluated = True
        return f

    def ex_IfExp(self, e, fr):
        c = truth(self.eval(e.test, fr))
        if self.spec and not isinstance(c, bool):
            return ite_value(c, self.eval(e.body, fr), self.eval(e.orelse, fr))
        if self.p.choose(c):
            return self.eval(e.body, fr)
        return self.eval(e.orelse, fr)

    def ex_BoolOp(self, e, fr):
        is_and = isinstance(e.op, ast.And)
        if self.spec:
            vals = []
            for x in e.values:
                v = self.eval(x, fr)
                t = truth(v)
                if isinstance(t, bool):
                    if is_and and not t:
                        if not vals:
                            return v
                        vals.append(False)
                        break
                    if (not is_and) and t:
                        if not vals:
                            return v
                        vals.append(True)
                        break
                    if not vals and x is e.values[-1]:
                        return v
                    continue
                vals.append(t)
            if not vals:
                return is_and
            r = z3_and(*vals) if is_and else z3_or(*vals)
            return r if isinstance(r, bool) else Sym('bool', r)
        v = None
        for i, x in enumerate(e.values):
            v = self.eval(x, fr)
            if i == len(e.values) - 1:
                return v
            t = self.p.choose(truth(v))
            if is_and and not t:
                return self.falsy_of(v)
            if (not is_and) and t:
                return v
        return v

    def falsy_of(self, v):
        return v

    def ex_UnaryOp(self, e, fr):
        v = self.eval(e.operand, fr)
        if isinstance(e.op, ast.Not):
            t = truth(v)
            if isinstance(t, bool):
                return not t
            return Sym('bool', z3.Not(t))
        if isinstance(e.op, ast.USub):
            if isinstance(v, Sym) and v.kind == 'int':
                return Sym('int', -v.t)
            return -v
        if isinstance(e.op, ast.Invert):
            if is_sym(v):
                raise Unsupported('~ on symbolic int')
            return ~v
        if isinstance(e.op, ast.UAdd):
            return v
        raise Unsupported('unary op')

    def ex_BinOp(self, e, fr):
        a = self.eval(e.left, fr)
        b = self.eval(e.right, fr)
        return self.binop(e.op, a, b)

    def binop(self, op, a, b):
        if isinstance(a, Opt) or isinstance(b, Opt):
            a = self.unwrap(a, TypeError)
            b = self.unwrap(b, TypeError)
        if isinstance(op, ast.Mod) and (isinstance(a, str) or (isinstance(a, Sym) and a.kind == 'str')):
            return self.str_percent(a, b)
        if not is_sym(a) and not is_sym(b) and not isinstance(a, (SList, Obj, Opaque)) and not isinstance(b, (SList, Obj, Opaque)):
            try:
                return _CONCRETE_BINOPS[type(op)](a, b)
            except ZeroDivisionError:
                raise PyRaise(ExcVal(ZeroDivisionError))
            except TypeError:
                raise PyRaise(ExcVal(TypeError))
        if isinstance(a, Opaque) or isinstance(b, Opaque):
            return Opaque('binop')
        ka, kb = kind_of(a), kind_of(b)
        if isinstance(op, ast.Add):
            if ka in ('str', 'bytes') and kb == ka:
                if isinstance(a, (str, bytes)) and len(a) == 0:
                    return b
                if isinstance(b, (str, bytes)) and len(b) == 0:
                    return a
                return Sym(ka, z3.Concat(lift(a), lift(b)))
            if ka in ('int', 'bool') and kb in ('int', 'bool'):
                return Sym('int', to_int(a) + to_int(b))
            if ka == 'list' and kb == 'list':
                return SList(a.items + b.items)
            if ka == 'tuple' and kb == 'tuple':
                return a + b
            if {ka, kb} <= {'str', 'bytes', 'int', 'bool', 'none', 'list', 'tuple'}:
                raise PyRaise(ExcVal(TypeError))
        if isinstance(op, ast.Sub) and ka in ('int', 'bool') and kb in ('int', 'bool'):
            return Sym('int', to_int(a) - to_int(b))
        if isinstance(op, ast.Mult) and ka in ('int', 'bool') and kb in ('int', 'bool'):
            return Sym('int', to_int(a) * to_int(b))
        if isinstance(op, ast.Mult) and {ka, kb} == {'str', 'int'}:
            sv, n = (a, b) if ka == 'str' else (b, a)
            if isinstance(n, int):
                if n <= 0:
                    return ''
                return Sym('str', z3.Concat(*[lift(sv)] * n)) if n > 1 else sv
        if isinstance(op, ast.Mult) and ka == 'list' and isinstance(b, int):
            return SList(a.items * b)
        if isinstance(op, ast.FloorDiv) and ka == 'int' and isinstance(b, int) and b > 0:
            return Sym('int', to_int(a) / b)  # z3 int division floors for positive divisor
        if isinstance(op, ast.Mod) and ka == 'int' and isinstance(b, int) and b > 0:
            return Sym('int', to_int(a) % b)
        raise Unsupported(f'binop {type(op).__name__} on {ka},{kb}')

    def str_percent(self, fmt, arg):
        m = self.p.engine.models.get('str.__mod__')
        if m is not None:
            r = m.fn(self, [fmt, arg], {})
            if r is not NotImplemented:
                return r
        if isinstance(fmt, str) and '%' in fmt:
            import re as _re
            pieces = _re.split(r'(%s|%%)', fmt)
            argl = list(arg) if isinstance(arg, tuple) else [arg]
            if all(pc in ('%s', '%%') or '%' not in pc for pc in pieces) and sum(1 for pc in pieces if pc == '%s') == len(argl) \
                    and all(kind_of(a) == 'str' for a in argl) and _has_sym(tuple(argl)):
                parts, it = [], iter(argl)
                for pc in pieces:
                    if pc == '%s':
                        parts.append(next(it))
                    elif pc == '%%':
                        parts.append('%')
                    elif pc:
                        parts.append(pc)
                return self.concat_strs(parts)
        if isinstance(fmt, str) and not _has_sym(arg) and not isinstance(arg, (Obj, SList, Opaque, SDict)):
            try:
                return fmt % arg
            except TypeError:
                raise PyRaise(ExcVal(TypeError))
        return Opaque('%-format')

    def need(self, v, exc=TypeError):
        """a non-None value is required here (Python would raise `exc` on None)"""
        if isinstance(v, Opt):
            return self.unwrap(v, exc)
        if v is None and not self.spec:
            raise PyRaise(ExcVal(exc))
        return v

    def unwrap(self, v, exc=AttributeError):
        if isinstance(v, Opt):
            if self.spec:
                return v.val
            if self.p.choose(v.isnone):
                raise PyRaise(ExcVal(exc))
            return v.val
        return v

    def ex_Compare(self, e, fr):
        left = self.eval(e.left, fr)
        res = []
        for op, rn in zip(e.ops, e.comparators):
            right = self.eval(rn, fr)
            c = self.compare(op, left, right)
            left = right
            if len(e.ops) == 1:
                return c if isinstance(c, bool) else Sym('bool', c)
            if self.spec:
                res.append(c)
            else:
                if not self.p.choose(c):
                    return False
        if self.spec:
            r = z3_and(*res)
            return r if isinstance(r, bool) else Sym('bool', r)
        return True

    _DUNDER = {ast.Eq: '__eq__', ast.NotEq: '__ne__', ast.Lt: '__lt__', ast.LtE: '__le__', ast.Gt: '__gt__', ast.GtE: '__ge__'}
    _RDUNDER = {ast.Eq: '__eq__', ast.NotEq: '__ne__', ast.Lt: '__gt__', ast.LtE: '__ge__', ast.Gt: '__lt__', ast.GtE: '__le__'}

    def compare(self, op, a, b):
        if type(op) in self._DUNDER and (isinstance(a, Obj) or isinstance(b, Obj)):
            M = self.p.engine.models
            if isinstance(a, Obj) and ('method', a.cls, self._DUNDER[type(op)]) in M:
                return truth(M[('method', a.cls, self._DUNDER[type(op)])].fn(self, [a, b], {}))
            if isinstance(b, Obj) and ('method', b.cls, self._RDUNDER[type(op)]) in M:
                return truth(M[('method', b.cls, self._RDUNDER[type(op)])].fn(self, [b, a], {}))
        if isinstance(op, ast.Is) or isinstance(op, ast.IsNot):
            r = self.is_(a, b)
            return z3_not(r) if isinstance(op, ast.IsNot) else r
        if isinstance(op, ast.Eq):
            return eq_values(a, b)
        if isinstance(op, ast.NotEq):
            return z3_not(eq_values(a, b))
        if isinstance(op, (ast.In, ast.NotIn)):
            if isinstance(b, _LazyGen):
                q = self.quantify(b.node, b.frame, 'in', member=a)
                if q is None:
                    b = SList(Interp.comp(self, b.node, b.frame))
                    r = self.contains(b, a)
                else:
                    r = q.t
                return z3_not(r) if isinstance(op, ast.NotIn) else r
            r = self.contains(b, a)
            return z3_not(r) if isinstance(op, ast.NotIn) else r
        # orderings
        a = self.unwrap(a, TypeError)
        b = self.unwrap(b, TypeError)
        if not is_sym(a) and not is_sym(b):
            try:
                return _CONCRETE_CMPS[type(op)](a, b)
            except TypeError:
                raise PyRaise(ExcVal(TypeError))
        ka, kb = kind_of(a), kind_of(b)
        if ka in ('int', 'bool') and kb in ('int', 'bool'):
            x, y = to_int(a), to_int(b)
            return {ast.Lt: x < y, ast.LtE: x <= y, ast.Gt: x > y, ast.GtE: x >= y}[type(op)]
        if ka == 'none' or kb == 'none':
            raise PyRaise(ExcVal(TypeError))
        raise Unsupported(f'ordering on {ka},{kb}')

    def is_(self, a, b):
        if a is b:
            return True
        if type(a).__name__ == 'SymObj' or type(b).__name__ == 'SymObj' or (
                isinstance(a, Opt) and type(a.val).__name__ == 'SymObj' and b is not None) or (
                isinstance(b, Opt) and type(b.val).__name__ == 'SymObj' and a is not None):
            return _ref_eq(a, b)
        if isinstance(a, Opt) and b is None:
            return a.isnone
        if isinstance(b, Opt) and a is None:
            return b.isnone
        if a is None or b is None:
            return a is None and b is None
        if isinstance(a, Sym) and isinstance(b, bool) and a.kind == 'bool':
            return a.t == z3.BoolVal(b)
        if isinstance(a, (Obj, SList, SDict)) or isinstance(b, (Obj, SList, SDict)):
            if isinstance(a, Opt) or isinstance(b, Opt):
                o, x = (a, b) if isinstance(a, Opt) else (b, a)
                if o.val is x:
                    return z3.Not(o.isnone)
                return False
            return a is b
        if not is_sym(a) and not is_sym(b):
            return a is b
        raise Unsupported(f'is between {kind_of(a)} and {kind_of(b)}')

    def contains(self, cont, x):
        if isinstance(cont, Opt):
            cont = self.unwrap(cont, TypeError)
        if type(cont).__name__ in ('SymList', 'ListView'):
            from . import heap as H
            v = H.view_of(cont)
            k = H._bound_var(self.p)
            return z3.Exists([k], z3.And(k >= v.lo, k < v.hi, as_bool_term(eq_values(v.base.at(k), x))))
        if isinstance(cont, (tuple, list, frozenset, set)):
            cs = [eq_values(x, c) for c in cont]
            return z3_or(*cs)
        if isinstance(cont, SList):
            return z3_or(*[eq_values(x, c) for c in cont.items])
        if isinstance(cont, dict):
            if not is_sym(x):
                return x in cont
            return z3_or(*[eq_values(x, c) for c in cont.keys()])
        if isinstance(cont, SDict):
            if _has_sym(x):
                return z3_or(*[eq_values(x, c) for c in cont.items.keys()])
            return self.dict_key(x) in cont.items
        kc = kind_of(cont)
        if kc in ('str', 'bytes'):
            if isinstance(x, Opt):
                x = self.unwrap(x, TypeError)
            if not is_sym(cont) and not is_sym(x):
                return x in cont
            if kind_of(x) == 'int' and kc == 'bytes':
                raise Unsupported('int in bytes')
            return z3.Contains(lift(cont), lift(x))
        if isinstance(cont, Obj):
            r = self.call_special(cont, '__contains__', [x])
            return truth(r)
        raise Unsupported(f'in on {kc}')

    def ex_Attribute(self, e, fr):
        base = self.eval(e.value, fr)
        return self.getattr(base, fr.mangle(e.attr))

    def getattr(self, base, name):
        if isinstance(base, Opt):
            base = self.unwrap(base, AttributeError)
        if base is None:
            if self.spec:
                raise Unsupported(f'None.{name} in spec')
            raise PyRaise(ExcVal(AttributeError))
        tn = type(base).__name__
        if tn == 'SymObj':
            return self.getattr_symobj(base, name)
        if tn in ('SymList', 'ListView', '_LazyGen'):
            if name == 'length' and tn == 'SymList':
                return Sym('int', base.length)
            return BuiltinMethod(base, name)
        if isinstance(base, Obj):
            if name in base.fields:
                return base.fields[name]
            c = base.cls
            if name == '__class__':
                return c
            gm = self.p.engine.models.get(('getattr', c, name))
            if gm is not None:
                return gm.fn(self, [base], {})
            if getattr(c, '__name__', '') == 'MatchStub':
                from . import builtins as B
                if name in B.MATCH_MODELS:
                    return BoundMethod(base, Model(B.MATCH_MODELS[name], 're.Match.' + name, assumed=False), name)
            mm = self.p.engine.models.get(('method', c, name))
            if mm is not None:
                return BoundMethod(base, mm, name)
            if isinstance(c, type):
                try:
                    raw = inspect.getattr_static(c, name)
                except AttributeError:
                    if hasattr(c, '__getattr__'):
                        m = self.p.engine.model_for(c.__getattr__)
                        if m is not None:
                            return m.fn(self, [base, name], {})
                        raise Unsupported(f'{c.__name__}.__getattr__ for {name}')
                    lazy = getattr(base, 'lazy_field', None)
                    if lazy is not None:
                        v = lazy(self, base, name)
                        if v is not NotImplemented:
                            base.fields[name] = v
                            return v
                    raise PyRaise(ExcVal(AttributeError))
                if isinstance(raw, property):
                    return self.call_pyfunc(raw.fget, [base], {})
                if isinstance(raw, staticmethod):
                    return raw.__func__
                if isinstance(raw, classmethod):
                    return BoundMethod(c, raw.__func__, name)
                if isinstance(raw, types.FunctionType):
                    return BoundMethod(base, raw, name)
                return raw
            raise Unsupported(f'attribute {name} of untyped object')
        if isinstance(base, ExcVal):
            if name in base.fields:
                return base.fields[name]
            if name == 'args':
                return base.args
            raise Unsupported(f'exception attribute {name}')
        if isinstance(base, Sym) or isinstance(base, (str, bytes, int, float)) and not isinstance(base, bool):
            return BuiltinMethod(base, name)
        if isinstance(base, (SList, SDict, tuple, frozenset, dict, list)):
            return BuiltinMethod(base, name)
        if isinstance(base, (types.ModuleType, type)) or callable(base) or True:
            gm0 = self.p.engine.models.get(('getattr', id(base), name))
            if gm0 is not None:
                return gm0.fn(self, [base], {})
            if not isinstance(base, (types.ModuleType, type)):
                for k in type(base).__mro__:
                    mm = self.p.engine.models.get(('method', k, name))
                    if mm is not None:
                        return BoundMethod(base, mm, name)
            try:
                raw = inspect.getattr_static(base, name) if isinstance(base, type) else getattr(base, name)
            except AttributeError:
                if isinstance(base, types.ModuleType) or isinstance(base, type):
                    raise PyRaise(ExcVal(AttributeError))
                gm = self.p.engine.models.get(('getattr', type(base), name))
                if gm is not None:
                    return gm.fn(self, [base], {})
                raise Unsupported(f'getattr {base!r}.{name}')
            if isinstance(base, type):
                if isinstance(raw, staticmethod):
                    return raw.__func__
                if isinstance(raw, classmethod):
                    return BoundMethod(base, raw.__func__, name)
                if isinstance(raw, property):
                    return raw
            gm = self.p.engine.models.get(('getattr', id(base), name))
            if gm is not None:
                return gm.fn(self, [base], {})
            return raw

    def getattr_symobj(self, o, name):
        from . import heap as H
        sch = o.schema
        M = self.p.engine.models
        gm = M.get(('getattr', sch.name, name))
        if gm is not None:
            return gm.fn(self, [o], {})
        if name in sch.fields:
            return H.read_field(self, o, name)
        mm = M.get(('method', sch.name, name))
        if mm is not None:
            return BoundMethod(o, mm, name)
        c = sch.cls
        if c is not None:
            try:
                raw = inspect.getattr_static(c, name)
            except AttributeError:
                raise Unsupported(f'{sch.name}.{name}: not declared in the schema and not a class attribute')
            if isinstance(raw, property):
                return self.call_pyfunc(raw.fget, [o], {})
            if isinstance(raw, types.FunctionType):
                return BoundMethod(o, raw, name)
            if isinstance(raw, (staticmethod, classmethod)):
                return raw.__func__
            return raw
        raise Unsupported(f'{sch.name}.{name}')

    def ex_Subscript(self, e, fr):
        base = self.eval(e.value, fr)
        if isinstance(e.slice, ast.Slice):
            lo = self.eval(e.slice.lower, fr) if e.slice.lower is not None else None
            hi = self.eval(e.slice.upper, fr) if e.slice.upper is not None else None
            if e.slice.step is not None:
                st = self.eval(e.slice.step, fr)
                if not is_sym(base) and not _has_sym((lo, hi, st)) and not isinstance(base, (SList, Obj)):
                    return base[lo:hi:st]
                if isinstance(base, SList) and not _has_sym((lo, hi, st)):
                    return SList(base.items[lo:hi:st])
                raise Unsupported('slice step')
            return self.slice(base, lo, hi)
        idx = self.eval(e.slice, fr)
        return self.index(base, idx)

    def slice(self, base, lo, hi):
        if isinstance(base, Opt):
            base = self.unwrap(base, TypeError)
        if type(base).__name__ == 'SymList':
            from . import heap as H
            if lo is None and hi is None:
                # L[:] is a COPY (later mutation of L must not show through): the array term is a value, so the copy is free
                return H.SymList(base.elems, base.length, base.schema, base.heap)
            return H.lst_slice(self, base, lo, hi)
        if isinstance(lo, Opt) or isinstance(hi, Opt):
            raise Unsupported('optional slice bound')
        if not is_sym(base) and not is_sym(lo) and not is_sym(hi):
            if isinstance(base, SList):
                return SList(base.items[lo:hi])
            if isinstance(base, Obj):
                return self.call_special(base, '__getitem__', [slice(lo, hi)])
            return base[lo:hi]
        if isinstance(base, SList):
            raise Unsupported('list slice with symbolic bounds')
        k = kind_of(base)
        if k not in ('str', 'bytes'):
            raise Unsupported(f'slice of {k}')
        s = lift(base)
        L = z3.Length(s)

        def norm(x, default):
            if x is None:
                return default
            if isinstance(x, int) and not isinstance(x, bool):
                if x >= 0:
                    return z3.IntVal(x)
                return z3.If(L + x < 0, z3.IntVal(0), L + x)
            t = to_int(x)
            return z3.If(t < 0, z3.If(L + t < 0, z3.IntVal(0), L + t), t)

        lo_t = norm(lo, z3.IntVal(0))
        if hi is None:
            n = L - lo_t
        else:
            hi_t = norm(hi, L)
            n = hi_t - lo_t
        return Sym(k, z3.SubString(s, lo_t, n))

    def str_at(self, base, i):
        k = kind_of(base)
        s = lift(base)
        it = i if not isinstance(i, Sym) else i.t
        if k == 'bytes':
            code = z3.StrToCode(z3.SubString(s, it, 1))
            if is_sym(base):
                self.p.assume(code <= 255)
            return Sym('int', code)
        return Sym('str', z3.SubString(s, it, 1))

    def index(self, base, idx):
        if isinstance(base, Opt):
            base = self.unwrap(base, TypeError)
        if type(base).__name__ == 'SymList':
            from . import heap as H
            return H.lst_index(self, base, idx)
        if type(base).__name__ == 'ListView' and not base.enum:
            # indexing a (possibly reversed) read-only view: Python index semantics over its count()
            from . import heap as H
            n = base.count()
            t = H.to_int(idx)
            inb = z3.And(t < n, t >= -n)
            j = z3.If(t < 0, n + t, t)
            if not self.spec and not self.p.choose(inb):
                raise PyRaise(ExcVal(IndexError))
            return base.base.at(z3.simplify(base.pos(j)))
        if type(base).__name__ == 'SymObj' and getattr(base.schema, 'tuple_fields', None) and isinstance(idx, int):
            from . import heap as H
            tf = base.schema.tuple_fields
            if -len(tf) <= idx < len(tf):
                return H.read_field(self, base, tf[idx])
            raise PyRaise(ExcVal(IndexError))
        if base is None:
            raise PyRaise(ExcVal(TypeError))
        if isinstance(idx, Opt):
            raise Unsupported('optional index')
        if isinstance(base, SDict):
            if _has_sym(idx):
                # finite dispatch over concrete keys
                for k in base.items:
                    if self.p.choose(eq_values(idx, k)):
                        return base.items[k]
                raise PyRaise(ExcVal(KeyError))
            k = self.dict_key(idx)
            if k in base.items:
                return base.items[k]
            raise PyRaise(ExcVal(KeyError))
        if isinstance(base, dict):
            if is_sym(idx):
                for k in base:
                    if type(k) in (str, int, bytes) and kind_of(idx) == kind_of(k):
                        if self.p.choose(eq_values(idx, k)):
                            return base[k]
                raise PyRaise(ExcVal(KeyError))
            try:
                return base[idx]
            except KeyError:
                raise PyRaise(ExcVal(KeyError))
            except TypeError:
                raise Unsupported('dict key')
        if isinstance(base, Obj):
            return self.call_special(base, '__getitem__', [idx])
        if isinstance(base, (tuple, list, SList)):
            seq = base.items if isinstance(base, SList) else base
            if isinstance(idx, Sym):
                n = len(seq)
                for k in range(n):
                    if self.p.choose(z3.Or(idx.t == k, idx.t == k - n)):
                        return seq[k]
                raise PyRaise(ExcVal(IndexError))
            if isinstance(idx, slice):
                return SList(seq[idx]) if isinstance(base, SList) else seq[idx]
            if not isinstance(idx, int):
                raise PyRaise(ExcVal(TypeError))
            if -len(seq) <= idx < len(seq):
                return seq[idx]
            raise PyRaise(ExcVal(IndexError))
        k = kind_of(base)
        if k in ('str', 'bytes'):
            if not is_sym(base) and not is_sym(idx):
                try:
                    return base[idx]
                except IndexError:
                    raise PyRaise(ExcVal(IndexError))
                except TypeError:
                    raise PyRaise(ExcVal(TypeError))
            s = lift(base)
            L = z3.Length(s)
            if isinstance(idx, int):
                if idx >= 0:
                    inb = L > idx
                    pos = z3.IntVal(idx)
                else:
                    inb = L >= -idx
                    pos = L + idx
            else:
                t = to_int(idx)
                inb = z3.And(t < L, t >= -L)
                pos = z3.If(t < 0, L + t, t)
            if self.spec:
                return self.str_at(base, pos)
            if not self.p.choose(inb):
                raise PyRaise(ExcVal(IndexError))
            return self.str_at(base, pos)
        raise Unsupported(f'index into {k}')

    def quantify(self, gen, fr, mode, member=None):
        """all(...)/any(...)/x in (...) over a generator expression whose iterables are symbolic lists or ranges with
        symbolic bounds become quantified formulas; returns None when everything is concrete (ordinary expansion)"""
        from . import heap as H
        self.p.use_quantifier_mode()
        sub = Interp(self.p, spec=True)
        f2 = Frame(dict(), fr, fr.globs, fr.fname)
        bvars, guards = [], []
        symbolic = False
        for g in gen.generators:
            itv = sub.eval(g.iter, f2)
            itv = self.resolve_iterable(itv)
            v = H.view_of(itv)
            k = H._bound_var(self.p)
            if v is not None:
                symbolic = True
                bvars.append(k)
                guards.append(z3.And(k >= v.lo, k < v.hi))
                el = v.base.at(k)
                if v.enum:
                    i = (v.hi - 1 - k) if v.rev else (k - v.lo)
                    sub.assign(g.target, (Sym('int', i), el), f2)
                else:
                    sub.assign(g.target, el, f2)
            elif isinstance(itv, _SymRange):
                symbolic = True
                bvars.append(k)
                guards.append(z3.And(k >= itv.lo, k < itv.hi))
                sub.assign(g.target, Sym('int', k), f2)
            else:
                return None  # concrete iterable: let the caller expand (only supported as the single/outer generator)
            for c in g.ifs:
                guards.append(as_bool_term(truth(sub.eval(c, f2))))
        if not symbolic:
            return None
        body = sub.eval(gen.elt, f2)
        if mode == 'all':
            r = z3.ForAll(bvars, z3.Implies(z3.And(*guards), as_bool_term(truth(body))))
        elif mode == 'any':
            r = z3.Exists(bvars, z3.And(*(guards + [as_bool_term(truth(body))])))
        else:
            r = z3.Exists(bvars, z3.And(*(guards + [as_bool_term(eq_values(body, member))])))
        return Sym('bool', r)

    def ex_Call(self, e, fr):
        if isinstance(e.func, ast.Name) and e.func.id in ('all', 'any') and len(e.args) == 1 and isinstance(e.args[0], (ast.GeneratorExp, ast.ListComp)):
            fobj = fr.lookup(e.func.id)
            if fobj in (all, any):
                q = self.quantify(e.args[0], fr, e.func.id)
                if q is not None:
                    return q
        f = self.eval(e.func, fr)
        args = []
        for a in e.args:
            if isinstance(a, ast.Starred):
                v = self.eval(a.value, fr)
                args.extend(self.iter_items(v))
            else:
                args.append(self.eval(a, fr))
        kwargs = {}
        for k in e.keywords:
            if k.arg is None:
                v = self.eval(k.value, fr)
                if isinstance(v, SDict):
                    kwargs.update(v.items)
                else:
                    raise Unsupported('**kwargs of non-dict')
            else:
                kwargs[k.arg] = self.eval(k.value, fr)
        return self.call(f, args, kwargs)

    def call_special(self, obj, name, args):
        c = obj.cls
        mm = self.p.engine.models.get(('method', c, name))
        if mm is not None:
            return mm.fn(self, [obj] + list(args), {})
        raw = None
        if isinstance(c, type):
            try:
                raw = inspect.getattr_static(c, name)
            except AttributeError:
                raw = None
        if raw is None:
            raise PyRaise(ExcVal(TypeError))
        return self.call_pyfunc(raw, [obj] + list(args), {})

    def call_pyfunc(self, pyf, args, kwargs):
        """call a real python function object found on a class/module: model, inline, or unsupported"""
        eng = self.p.engine
        m = eng.model_for(pyf)
        if m is not None:
            return m.fn(self, args, kwargs)
        if pyf in eng.inline or getattr(pyf, '__pyvc_inline__', False) or is_trivial_accessor(pyf):
            f = eng.func_cache.get(pyf)
            if f is None:
                f = func_from_pyfunc(pyf, spec=getattr(pyf, '__pyvc_spec__', False))
                eng.func_cache[pyf] = f
            return self.call_func(f, args, kwargs)
        raise Unsupported(f'call to {getattr(pyf, "__module__", "?")}.{getattr(pyf, "__qualname__", pyf)} without contract')

    def call(self, f, args, kwargs):
        if isinstance(f, Func):
            return self.call_func(f, args, kwargs)
        if isinstance(f, Model):
            return f.fn(self, args, kwargs)
        if isinstance(f, BoundMethod):
            if isinstance(f.fn, Func):
                return self.call_func(f.fn, [f.recv] + args, kwargs)
            if isinstance(f.fn, Model):
                return f.fn.fn(self, [f.recv] + args, kwargs)
            return self.call_pyfunc(f.fn, [f.recv] + args, kwargs)
        if isinstance(f, BuiltinMethod):
            from . import builtins as B
            return B.call_method(self, f.recv, f.name, args, kwargs)
        if isinstance(f, Opt):
            f = self.unwrap(f, TypeError)
            return self.call(f, args, kwargs)
        if f is None:
            raise PyRaise(ExcVal(TypeError))
        if isinstance(f, Obj):
            return self.call_special(f, '__call__', args)
        from . import builtins as B
        return B.call_native(self, f, args, kwargs)

    def call_func(self, f: Func, args, kwargs):
        node = f.node
        a = node.args
        params = [x.arg for x in a.posonlyargs + a.args]
        loc = {}
        if len(args) > len(params) and a.vararg is None:
            raise PyRaise(ExcVal(TypeError))
        for n, v in zip(params, args):
            loc[n] = v
        if a.vararg is not None:
            loc[a.vararg.arg] = tuple(args[len(params):])
        defaults = f.defaults
        if not getattr(f, 'defaults_evaluated', False):
            defaults = [self.eval(d, Frame({}, f.closure, f.globs)) for d in a.defaults]
        dstart = len(params) - len(defaults)
        extra = {}
        for k, v in kwargs.items():
            if k in params or k in [x.arg for x in a.kwonlyargs]:
                if k in loc:
                    raise PyRaise(ExcVal(TypeError))
                loc[k] = v
            elif a.kwarg is not None:
                extra[k] = v
            else:
                raise PyRaise(ExcVal(TypeError))
        for i, n in enumerate(params):
            if n not in loc:
                if i >= dstart:
                    loc[n] = defaults[i - dstart]
                else:
                    raise PyRaise(ExcVal(TypeError))
        for x, d in zip(a.kwonlyargs, a.kw_defaults):
            if x.arg not in loc:
                if x.arg in f.kwdefaults:
                    loc[x.arg] = f.kwdefaults[x.arg]
                elif d is not None:
                    loc[x.arg] = self.eval(d, Frame({}, f.closure, f.globs))
                else:
                    raise PyRaise(ExcVal(TypeError))
        if a.kwarg is not None:
            loc[a.kwarg.arg] = SDict(extra)
        fr = Frame(loc, f.closure, f.globs, f.name, owner=getattr(f, 'owner', None))
        sub = self
        if f.spec and not self.spec:
            sub = Interp(self.p, spec=True)
        if isinstance(node, ast.Lambda):
            return sub.eval(node.body, fr)
        if _is_generator(node):
            saved = self.p.out
            self.p.out = []
            try:
                try:
                    sub.exec_block(node.body, fr)
                except _Return:
                    pass
                res = SList(self.p.out)
            finally:
                self.p.out = saved
            return res
        try:
            sub.exec_block(node.body, fr)
        except _Return as r:
            return r.v
        return None

    def ex_Yield(self, e, fr):
        v = self.eval(e.value, fr) if e.value is not None else None
        hook = getattr(self.p, 'yield_hook', None)
        if hook is not None:
            hook(self, fr, v)
        self.p.out.append(v)
        return None

    def ex_YieldFrom(self, e, fr):
        v = self.eval(e.value, fr)
        for x in self.iter_items(v):
            hook = getattr(self.p, 'yield_hook', None)
            if hook is not None:
                hook(self, fr, x)
            self.p.out.append(x)
        return None

    def ex_ListComp(self, e, fr):
        if self._gen_over_symbolic(e, fr):
            return _LazyGen(e, fr)
        return SList(self.comp(e, fr))

    def ex_GeneratorExp(self, e, fr):
        if self._gen_over_symbolic(e, fr):
            return _LazyGen(e, fr)
        cs = self._chars_of_bytes(e, fr)
        if cs is not None:
            return cs
        return SList(self.comp(e, fr))

    def _chars_of_bytes(self, e, fr):
        """`chr(b) for b in <bytes>` over a symbolic byte string: the character sequence with the same code points (bytes and str
        share one representation); consumed by ''.join(...)"""
        if len(e.generators) != 1 or e.generators[0].ifs or not isinstance(e.generators[0].target, ast.Name):
            return None
        elt = e.elt
        if not (isinstance(elt, ast.Call) and isinstance(elt.func, ast.Name) and elt.func.id == 'chr' and len(elt.args) == 1 and not elt.keywords
                and isinstance(elt.args[0], ast.Name) and elt.args[0].id == e.generators[0].target.id):
            return None
        try:
            if fr.lookup('chr') is not __import__('builtins').chr:
                return None
        except Unsupported:
            pass
        itv = self.eval(e.generators[0].iter, fr)
        if isinstance(itv, Sym) and itv.kind == 'bytes':
            return _CharSeq(itv.t)
        return None

    def _gen_over_symbolic(self, e, fr):
        try:
            itv = Interp(self.p, spec=True).eval(e.generators[0].iter, fr)
        except (Unsupported, PyRaise):
            return False
        itv = self.resolve_iterable(itv)
        return type(itv).__name__ in ('SymList', 'ListView', '_SymRange')

    def ex_SetComp(self, e, fr):
        vals = self.comp(e, fr)
        if any(is_sym(v) for v in vals):
            raise Unsupported('set comprehension with symbolic members')
        return frozenset(vals)

    def ex_DictComp(self, e, fr):
        out = SDict()
        sub = Frame({}, fr, fr.globs, fr.fname)

        def rec(gi):
            if gi == len(e.generators):
                out.items[self.dict_key(self.eval(e.key, sub))] = self.eval(e.value, sub)
                return
            g = e.generators[gi]
            for x in self.iter_items(self.eval(g.iter, sub)):
                self.assign(g.target, x, sub)
                if all(self.p.choose(truth(self.eval(c, sub))) for c in g.ifs):
                    rec(gi + 1)

        rec(0)
        return out

    def comp(self, e, fr):
        out = []
        sub = Frame({}, fr, fr.globs, fr.fname)

        def rec(gi):
            if gi == len(e.generators):
                out.append(self.eval(e.elt, sub))
                return
            g = e.generators[gi]
            for x in self.iter_items(self.eval(g.iter, sub)):
                self.assign(g.target, x, sub)
                ok = True
                for c in g.ifs:
                    t = truth(self.eval(c, sub))
                    if self.spec and not isinstance(t, bool):
                        raise Unsupported('symbolic filter in spec comprehension')
                    if not self.p.choose(t):
                        ok = False
                        break
                if ok:
                    rec(gi + 1)

        rec(0)
        return out

    def ex_NamedExpr(self, e, fr):
        v = self.eval(e.value, fr)
        self.assign(e.target, v, fr)
        return v

    def ex_Starred(self, e, fr):
        raise Unsupported('starred')

    def ex_Slice(self, e, fr):
        lo = self.eval(e.lower, fr) if e.lower is not None else None
        hi = self.eval(e.upper, fr) if e.upper is not None else None
        st = self.eval(e.step, fr) if e.step is not None else None
        if _has_sym((lo, hi, st)):
            raise Unsupported('symbolic slice object')
        return slice(lo, hi, st)

    # ---- loops with invariants
    def loop_with_invariant(self, st, fr, spec, it=None):
        """Classical cut at the loop head.  spec: {'inv': f(I, frame, itstate) -> z3 Bool, 'variant': f(I, frame) -> z3 Int (while loops),
        'havoc': [names] (default: names assigned in the body that are bound at entry)}.  `itstate` (for loops over a symbolic list):
        .q position of the element to be processed next, .view the ListView, .done(k) 'position k has been processed'."""
        from . import heap as H
        p = self.p
        if spec.get('quantified', True):
            p.use_quantifier_mode()
        name = spec.get('name', f'loop@{st.lineno}')
        is_for = isinstance(st, ast.For)
        view = H.view_of(it) if is_for else None
        state = _IterState(view, None)

        def inv_at(q):
            state.q = q
            g = spec['inv'](self, fr, state)
            return as_bool_term(g)

        hav = spec.get('havoc')
        if hav is None:
            hav = sorted({n.id for b in st.body for n in ast.walk(b) if isinstance(n, ast.Name) and isinstance(n.ctx, ast.Store)})
        phase = getattr(p.engine, 'loop_phase', None) if spec.get('modular') else None
        if phase is not None:
            # modular cut: the code before the loop (phase 'entry', all its paths, ends at the loop head) and one iteration plus the
            # code behind the loop (phase 'body', started from the invariant alone) are explored separately.  Sound if everything
            # the body can read at the loop head is either havocked/forgotten or the same on every path: checked by fingerprint.
            fp = frame_fingerprint(p, fr, set(hav) | set(spec.get('forget', [])))
            p.oblige(f'{name}.state_at_loop_head_is_path_independent[{fp}]', True)
        if phase != 'body':
            if 'before_entry' in spec:
                spec['before_entry'](self, fr)
            if is_for:
                q0 = (view.hi - 1) if view.rev else view.lo
                p.oblige(f'{name}.invariant_holds_on_entry', inv_at(q0))
            else:
                p.oblige(f'{name}.invariant_holds_on_entry', inv_at(None))
        if phase == 'entry':
            raise PathEnd('modular loop cut: entry phase ends at the loop head')
        if phase == 'body':
            keep = [ob for ob in p.obligs if '.state_at_loop_head_is_path_independent[' in ob.name]
            p.obligs[:] = keep  # (what the code before the loop owes is checked in the entry phase)
            p.reset_to_inputs()
            p.no_fork = False
        for n_ in spec.get('forget', []):
            fr.locals.pop(n_, None)
        # havoc
        for n_ in hav:
            try:
                cur = fr.lookup(n_)
            except Unsupported:
                continue
            fr.store(n_, self.havoc_like(cur, n_))
        for hk in spec.get('havoc_extra', []):
            hk(self, fr)
        if is_for:
            q = H._bound_var(p, 'q')
            lo_r = (view.lo - 1) if view.rev else view.lo
            hi_r = (view.hi - 1) if view.rev else view.hi
            p.assume(z3.And(q >= lo_r, q <= hi_r))
            p.assume(inv_at(q))
            exhausted = (q == view.lo - 1) if view.rev else (q == view.hi)
            if p.choose(z3.Not(exhausted)):
                el = view.base.at(q)
                if view.enum:
                    i = (view.hi - 1 - q) if view.rev else (q - view.lo)
                    self.assign(st.target, (Sym('int', z3.simplify(i)), el), fr)
                else:
                    self.assign(st.target, el, fr)
                try:
                    self.exec_block(st.body, fr)
                except _Break:
                    if type(it).__name__ == 'SymIter':
                        it.cursor = q + 1  # the element at q has been consumed
                    return
                except _Continue:
                    pass
                qn = (q - 1) if view.rev else (q + 1)
                p.oblige(f'{name}.invariant_is_preserved', inv_at(qn))
                raise PathEnd('loop cut')
            else:
                if type(it).__name__ == 'SymIter':
                    it.cursor = view.hi  # exhausted
                self.exec_block(st.orelse, fr)
            return
        # while
        p.assume(inv_at(None))
        v0 = spec['variant'](self, fr) if 'variant' in spec else None
        c = self.eval(st.test, fr)
        if p.choose(truth(c)):
            if 'at_start' in spec:
                spec['at_start'](self, fr)
            try:
                self.exec_block(st.body, fr)
            except _Break:
                return
            except _Continue:
                pass
            if 'at_end' in spec:
                spec['at_end'](self, fr)
            p.oblige(f'{name}.invariant_is_preserved', inv_at(None))
            if v0 is not None:
                v1 = spec['variant'](self, fr)
                p.oblige(f'{name}.variant_decreases_and_stays_non_negative', z3.And(v1 < v0, v0 >= 0))
            raise PathEnd('loop cut')
        else:
            self.exec_block(st.orelse, fr)

    def havoc_like(self, cur, hint):
        from . import heap as H
        p = self.p
        if isinstance(cur, bool):
            return p.fresh('bool', hint)
        if isinstance(cur, int):
            return p.fresh('int', hint)
        if isinstance(cur, str):
            return p.fresh('str', hint)
        if isinstance(cur, Sym):
            return p.fresh(cur.kind, hint)
        if cur is None:
            return cur  # unknown later type: the sidecar must list it in havoc_extra
        if isinstance(cur, Opt):
            p.counter += 1
            inner = self.havoc_like(cur.val, hint)
            return Opt(z3.Bool(f'{hint}!isnone!{p.counter}'), inner)
        if type(cur).__name__ == 'SymObj':
            p.counter += 1
            return H.SymObj(z3.Int(f'{hint}!ref!{p.counter}'), cur.schema)
        if isinstance(cur, tuple):
            return tuple(self.havoc_like(x, f'{hint}{i}') for i, x in enumerate(cur))
        raise Unsupported(f'cannot havoc loop variable {hint} of kind {kind_of(cur)}')


def frame_fingerprint(p, fr, exclude):
    """hash of everything a loop body can read from the frame at the loop head, apart from the names in `exclude`"""
    import hashlib

    def fpv(v, d=0):
        if isinstance(v, Sym):
            return f'{v.kind}:{z3.simplify(v.t).sexpr()}'
        if isinstance(v, Opt):
            return f'opt({z3.simplify(v.isnone).sexpr() if z3.is_expr(v.isnone) else v.isnone},{fpv(v.val, d)})'
        if v is None or isinstance(v, (bool, int, str, bytes, float)):
            return repr(v)
        if isinstance(v, (tuple, list)):
            return '(' + ','.join(fpv(x, d + 1) for x in v) + ')' if d < 4 else '(...)'
        if isinstance(v, SList):
            return 'SList[' + ','.join(fpv(x, d + 1) for x in v.items) + ']' if d < 4 else 'SList[...]'
        if isinstance(v, SDict):
            return 'SDict{' + ','.join(f'{fpv(k, d + 1)}:{fpv(x, d + 1)}' for k, x in v.items.items()) + '}' if d < 4 else 'SDict{...}'
        if isinstance(v, Obj):
            if d >= 2:
                return f'Obj:{v.name}'
            return f'Obj:{v.name}{{' + ','.join(f'{k}={fpv(x, d + 1)}' for k, x in sorted(v.fields.items())) + '}'
        if isinstance(v, Func):
            return f'Func:{v.name}'
        if isinstance(v, BoundMethod):
            return f'BoundMethod:{v.name}:{fpv(v.recv, d + 1)}'
        if type(v).__name__ == 'SymObj':
            return f'SymObj:{z3.simplify(v.id).sexpr()}'
        if type(v).__name__ == 'SymList':
            return f'SymList:{v.elems.sexpr()}:{z3.simplify(v.length).sexpr()}'
        pat = getattr(getattr(v, '__self__', None), 'pattern', None)
        if pat is not None:
            return f'{type(v).__name__}:{getattr(v, "__name__", "")}:{pat!r}'
        return f'{type(v).__name__}:{getattr(v, "__qualname__", getattr(v, "__name__", ""))}'

    parts = [f'{k}={fpv(v)}' for k, v in sorted(fr.locals.items()) if k not in exclude]
    parts.append('heap=' + ';'.join(f'{k}:{a.sexpr()}' for k, a in sorted(p.heap.items(), key=lambda kv: str(kv[0]))))
    return hashlib.sha1('|'.join(parts).encode('utf-8', 'replace')).hexdigest()[:16]


class _IterState:
    def __init__(self, view, q):
        self.view = view
        self.q = q

    def done(self, k):
        v = self.view
        if v.rev:
            return z3.And(k > self.q, k < v.hi)
        return z3.And(k >= v.lo, k < self.q)


class _CharSeq:
    """the characters chr(b) for the bytes b of a symbolic byte string"""

    def __init__(self, t):
        self.t = t


class _LazyGen:
    """a generator expression over a symbolic list, consumed by `in` / all / any as a quantifier"""

    def __init__(self, node, frame):
        self.node = node
        self.frame = frame


class _SymRange:
    def __init__(self, lo, hi):
        self.lo = lo
        self.hi = hi


class _Items:
    def __init__(self, lst):
        self.lst = lst


class _LiveIter:
    """CPython list-iterator semantics: index loop over the current length."""

    def __init__(self, sl):
        self.sl = sl
        self.i = 0

    def __iter__(self):
        return self

    def __next__(self):
        if self.i < len(self.sl.items):
            v = self.sl.items[self.i]
            self.i += 1
            return v
        raise StopIteration


# functions / methods that a scan-loop test may call: they have no side effects (builtins, and repo helpers under a pure contract)
PURE_CALL_NAMES = {'isinstance', 'len', 'hasattr', 'getattr', 'normalize'}
PURE_METHOD_NAMES = {'startswith', 'endswith', 'lower', '_normalize'}


def _is_pure(e):
    """syntactic purity: no calls except attribute reads / comparisons / constant containers / isinstance"""
    for n in ast.walk(e):
        if isinstance(n, ast.Call):
            f = n.func
            if isinstance(f, ast.Name) and f.id in PURE_CALL_NAMES:
                continue
            if isinstance(f, ast.Attribute) and f.attr in PURE_METHOD_NAMES:
                continue
            return False
        if isinstance(n, (ast.Yield, ast.YieldFrom, ast.Await, ast.NamedExpr, ast.Lambda)):
            return False
    return True


def _ends_with_exit(stmts):
    if not stmts:
        return False
    last = stmts[-1]
    return isinstance(last, (ast.Break, ast.Return, ast.Raise))


def _load(t):
    import copy
    t2 = copy.copy(t)
    t2.ctx = ast.Load()
    return t2


def _is_generator(node):
    for n in ast.walk(node):
        if isinstance(n, (ast.Yield, ast.YieldFrom)) and _owns(node, n):
            return True
    return False


def _owns(fn, target):
    stack = list(ast.iter_child_nodes(fn))
    while stack:
        n = stack.pop()
        if n is target:
            return True
        if isinstance(n, (ast.FunctionDef, ast.Lambda, ast.ClassDef)):
            continue
        stack.extend(ast.iter_child_nodes(n))
    return False


import operator as _op

_CONCRETE_BINOPS = {
    ast.Add: _op.add, ast.Sub: _op.sub, ast.Mult: _op.mul, ast.Div: _op.truediv, ast.FloorDiv: _op.floordiv,
    ast.Mod: _op.mod, ast.Pow: _op.pow, ast.LShift: _op.lshift, ast.RShift: _op.rshift, ast.BitOr: _op.or_,
    ast.BitAnd: _op.and_, ast.BitXor: _op.xor,
}
_CONCRETE_CMPS = {ast.Lt: _op.lt, ast.LtE: _op.le, ast.Gt: _op.gt, ast.GtE: _op.ge}
