"""Property check driver: runs the T1 targets (PyVC), the T1-regex/T1-finite lemma functions and the
bounded stand-in (T2) of one property plan (props/<id>.py), writes evidence/<id>.json and replay files,
prints VIOLATION / KNOWN-FINDING lines and returns the exit code (0 held, 1 violation, 2 undecided, 3 crash).
"""
from __future__ import annotations

import importlib
import json
import os
import sys
import time
import traceback

HERE = os.path.dirname(os.path.dirname(os.path.abspath(__file__)))
REPO = os.environ.get('VERIF_REPO', '/repo')

PYTHON_SEMANTICS = [
    'PyVC (the symbolic executor in /verif/pyvc, unverified) encodes Python as: left-to-right evaluation, unbounded ints as SMT Int, '
    'str as SMT String (code points above U+2FFFF outside the solver alphabet), bytes as String with chars<=255, static attribute lookup, '
    'no threads/signals/finalisers, object == is identity',
    'z3 5.1 / cvc5 1.0.3 are sound; unknown/timeouts are never counted as discharged',
    'contract clauses in /verif/contracts are the intended reading of the property statement',
]


def load_known():
    """known_findings.json plus known/*.json (one file per property), all committed, never written at run time"""
    import glob
    out = {}
    files = [os.path.join(HERE, 'known_findings.json')] + sorted(glob.glob(os.path.join(HERE, 'known', '*.json')))
    for fn in files:
        if not os.path.exists(fn):
            continue
        with open(fn) as f:
            data = json.load(f)
        for e in data.get('findings', []):
            out[e['id']] = e
    return out


class Ctx:
    """what a plan's finite()/bounded() functions get"""

    def __init__(self, pid, tier, seed):
        self.pid = pid
        self.tier = tier
        self.seed = seed
        self.jobs = int(os.environ.get('VERIF_JOBS', '0')) or min(16, os.cpu_count() or 4)
        self.known = {k: v for k, v in load_known().items() if v.get('property') == pid and v.get('status') == 'known'}
        self.known_hit = {}  # id -> description (printed as KNOWN-FINDING)
        self.violations = []  # dicts: clause/what, detail, replayed(bool), input
        self.lemmas = []  # T1-regex / T1-finite obligations: dict(name,status,backend,s)
        self.bounded = []  # dicts: name, evaluations, distinct_nontrivial, rule, samples, bound
        self.assumptions = set()
        self.functions = set()
        self.undecided = []

    # -- helpers for plans
    def lemma(self, name, status, backend, seconds=0.0, detail=None):
        self.lemmas.append({'name': name, 'status': status, 'backend': backend, 's': round(seconds, 4), 'detail': detail})
        if status == 'unknown':
            self.undecided.append(f'lemma {name}: solver unknown')

    def violation(self, what, detail, replayed=True, inputs=None, known_id=None):
        if known_id and known_id in self.known:
            self.known_hit.setdefault(known_id, self.known[known_id].get('what', what))
            return
        self.violations.append({'what': what, 'detail': detail, 'replayed': bool(replayed), 'inputs': inputs})

    def known_finding(self, known_id, still_fails):
        """a recorded finding: print KNOWN-FINDING only while it still reproduces"""
        if known_id in self.known and still_fails:
            self.known_hit.setdefault(known_id, self.known[known_id].get('what', known_id))


def run_property(pid, tier='quick', seed=0):
    t0 = time.time()
    sys.path.insert(0, HERE)
    if REPO not in sys.path:
        sys.path.insert(0, REPO)
    OUT = os.environ.get('VERIF_OUT') or HERE  # (mutant self-tests redirect evidence and replays away from the committed files)
    os.makedirs(os.path.join(OUT, 'evidence'), exist_ok=True)
    os.makedirs(os.path.join(OUT, 'replays'), exist_ok=True)
    import glob
    for old in glob.glob(os.path.join(OUT, 'replays', f'{pid}-*.json')):
        os.unlink(old)
    plan = importlib.import_module(f'props.{pid}')
    ctx = Ctx(pid, tier, seed)
    crash = None
    t1_results = {}
    # ---- T1-smt targets
    try:
        items = []
        for modname, names in list(getattr(plan, 'T1', [])) + (list(getattr(plan, 'T1_THOROUGH', [])) if tier == 'thorough' else []):
            importlib.import_module(modname)
            from .api import REGISTRY
            for n, t in REGISTRY.items():
                if getattr(t, 'sidecar', None) != modname:
                    continue
                if names is None:
                    if pid in t.props:
                        items.append((modname, n))
                elif any(n == x or n.endswith('::' + x) for x in names):
                    items.append((modname, n))
        if items:
            from .run import run_targets
            t1_results = run_targets(items, jobs=ctx.jobs, seed=seed)
    except Exception as e:
        crash = f'T1 driver: {type(e).__name__}: {e}\n{traceback.format_exc()[-1500:]}'
    # ---- lemmas and bounded
    for fname in ('lemmas', 'bounded'):
        fn = getattr(plan, fname, None)
        if fn is None or crash:
            continue
        try:
            fn(ctx)
        except Exception as e:
            crash = f'{fname}: {type(e).__name__}: {e}\n{traceback.format_exc()[-2500:]}'
    # ---- collect
    obligations = 0
    discharged = 0
    by_backend = {}
    solver_s = 0.0
    slowest = (0.0, None)
    samples = []
    paths = 0
    for tn, r in t1_results.items():
        ctx.functions.add(tn)
        if r.get('crash'):
            crash = crash or f'{tn}: {r["crash"]}'
            continue
        paths += r.get('paths', 0)
        solver_s += r.get('solver_s', 0)
        for a in r.get('assumptions', []):
            ctx.assumptions.add(a)
        for u in r.get('undecided', []):
            ctx.undecided.append(f'{tn}: {u}')
        for ob in r.get('obligations', []):
            obligations += 1
            by_backend[ob['backend']] = by_backend.get(ob['backend'], 0) + 1
            if ob['status'] == 'discharged':
                discharged += 1
            if ob['s'] > slowest[0]:
                slowest = (ob['s'], f'{tn} / {ob["name"]} / path {ob["path"]}')
            if len(samples) < 6 and ob['status'] == 'discharged' and (not samples or samples[-1]['target'] != tn):
                samples.append({'target': tn, 'obligation': ob['name'], 'path': ob['path'], 'backend': ob['backend'], 'status': ob['status']})
        for v in r.get('violations', []):
            w = v.get('witness', {})
            ctx.violations.append({'what': f'{tn} / {v["name"].split("@")[0]}', 'detail': f'path {v["path"]} line {v.get("line")}: {w.get("reason")}', 'replayed': bool(w.get('replayed')),
                                   'inputs': w.get('inputs'), 'observed': w.get('observed'), 'solver': v.get('backend')})
    for lm in ctx.lemmas:
        obligations += 1
        by_backend[lm['backend']] = by_backend.get(lm['backend'], 0) + 1
        if lm['status'] == 'discharged':
            discharged += 1
        solver_s += lm['s']
        if lm['s'] > slowest[0]:
            slowest = (lm['s'], lm['name'])
        if len(samples) < 10 and lm['status'] == 'discharged':
            samples.append({'lemma': lm['name'], 'backend': lm['backend'], 'status': lm['status']})
    evaluations = sum(b.get('evaluations', 0) for b in ctx.bounded)
    distinct = sum(b.get('distinct_nontrivial', 0) for b in ctx.bounded)
    bsamples = []
    for b in ctx.bounded:
        bsamples.extend(b.get('samples', [])[:3])
    level = getattr(plan, 'LEVEL', 'exploration')
    if level == 'proof' and (obligations == 0 or discharged != obligations):
        level_out = 'exploration' if evaluations else 'other'
    else:
        level_out = level
    # vacuity guard
    if not crash and obligations == 0 and evaluations == 0:
        crash = 'no obligations and no evaluations were generated (vacuous run)'
    # ---- replay files + lines
    lines = []
    for k, what in sorted(ctx.known_hit.items()):
        lines.append(f'KNOWN-FINDING: property={pid} {k}: {what}')
    seen_what = {}
    shown = []
    for v in ctx.violations:
        k = v['what']
        seen_what[k] = seen_what.get(k, 0) + 1
        if seen_what[k] <= 3:
            shown.append(v)
    for i, v in enumerate(shown):
        v['same_obligation_failures'] = seen_what[v['what']]
        rp = os.path.join(OUT, 'replays', f'{pid}-{i}.json')
        with open(rp, 'w') as f:
            json.dump({'property': pid, 'failed_obligation': v['what'], 'detail': v.get('detail'), 'inputs': v.get('inputs'),
                       'observed': v.get('observed'), 'failures_of_this_obligation': v.get('same_obligation_failures'), 'replayed_on_real_code': v['replayed'], 'solver': v.get('solver'),
                       'replay_cmd': f'bin/vcheck {pid} --tier {tier}'}, f, indent=1, default=str)
        tail = '' if v['replayed'] else ' no-failing-input-found'
        lines.append(f'VIOLATION property={pid} replay={rp}{tail}')
    cov = {
        'obligations': obligations, 'discharged': discharged,
        'checker_cmd': f'bin/vcheck {pid} --tier {tier}',
        'trusted_base': PYTHON_SEMANTICS + sorted(ctx.assumptions),
        'functions_under_contract': sorted(ctx.functions),
        'by_backend': by_backend, 'solver_s': round(solver_s, 3), 'slowest_obligation': {'s': slowest[0], 'name': slowest[1]},
        'paths_explored': paths,
        'samples': (samples + bsamples) or [{'note': 'no samples'}],
        'undecided': ctx.undecided[:50],
        'bounded': [{k: v for k, v in b.items() if k != 'samples'} for b in ctx.bounded],
        'known_findings_reported': sorted(ctx.known_hit),
    }
    if evaluations or level_out in ('exploration',):
        cov['evaluations'] = max(evaluations, 0)
        cov['distinct_nontrivial'] = distinct
        cov['rule'] = ' | '.join(b.get('rule', '') for b in ctx.bounded) or 'none'
        cov['bounded_label'] = 'bounded stand-in (run-time contracts over enumerated domains); never counted in discharged'
    if any(b.get('exhaustive') for b in ctx.bounded):
        cov['exhaustive_parts'] = [b['name'] for b in ctx.bounded if b.get('exhaustive')]
    ev = {'property_id': pid, 'tier': tier, 'seed': seed, 'level': level_out, 'coverage': cov,
          'assumptions': PYTHON_SEMANTICS + sorted(ctx.assumptions), 'wall_s': round(time.time() - t0, 2), 'violations': len(ctx.violations)}
    if crash:
        ev['coverage']['crash'] = crash[:3000]
    with open(os.path.join(OUT, 'evidence', f'{pid}.json'), 'w') as f:
        json.dump(ev, f, indent=1, default=str)
    for ln in lines:
        print(ln)
    print(f'{pid} tier={tier}: obligations={obligations} discharged={discharged} backends={by_backend} bounded_evaluations={evaluations} '
          f'violations={len(ctx.violations)} known={len(ctx.known_hit)} undecided={len(ctx.undecided)} wall={ev["wall_s"]}s')
    if ctx.violations:
        return 1
    if crash:
        print('CHECKER-CRASH:', crash, file=sys.stderr)
        return 3
    if ctx.undecided:
        for u in ctx.undecided[:20]:
            print('UNDECIDED:', u, file=sys.stderr)
        return 2
    return 0


def main(argv=None):
    import argparse
    ap = argparse.ArgumentParser()
    ap.add_argument('pid')
    ap.add_argument('--tier', default=os.environ.get('VERIF_TIER', 'quick'))
    ap.add_argument('--replay', default=None)
    a = ap.parse_args(argv)
    seed = int(os.environ.get('VERIF_SEED', '0') or 0)
    if a.replay:
        with open(a.replay) as f:
            print(f.read())
    try:
        rc = run_property(a.pid, a.tier, seed)
    except Exception:
        traceback.print_exc()
        rc = 3
    sys.exit(rc)


if __name__ == '__main__':
    main()
