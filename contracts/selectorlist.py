"""Sidecar contract for cssutils/css/selectorlist.py::SelectorList.appendSelector (C16, clause "appending a selector puts it at the end and
removes an earlier entry with the same serialised text"; C11: a refused call changes nothing).

For selector lists of any length:
  * a read-only list raises NoModificationAllowedErr with the list untouched;
  * a selector that is not well-formed (or whose text is refused with a DOM exception in raising mode) leaves the list untouched and None is
    returned (or the exception propagates);
  * otherwise the new list is exactly the old entries whose serialised text differs from the new selector's, in their old order, followed by
    the new selector, which is returned.
Ghost: KEPT(j) = number of kept entries among the first j old entries (recurrence instantiated where the loop advances).
"""
import xml.dom

from pyvc.api import *
from pyvc import heap as H
from pyvc import symex as SX

I_ = z3.IntSort()
KEPT = z3.Function('kept_selectors_before', I_, I_)


class NsStub:
    pass


def _schema():
    if 'selector' not in H.SCHEMAS:
        H.schema('selector', {'selectorText': 'str', 'wellformed': 'bool', '_parent': 'int'}, None)
    return H.SCHEMAS['selector']


AS = register(Target('cssutils/css/selectorlist.py', 'SelectorList.appendSelector', ['C16', 'C11']))
AS.allow_raise(xml.dom.NoModificationAllowedErr)


@AS.inputs
def _in(I):
    import cssutils.css as C
    import cssutils.css.selectorlist as SL
    import cssutils.util as U
    p = I.p
    p.use_quantifier_mode()
    sch = _schema()
    p.counter += 1
    seq = H.SymList(z3.Array(f'sels0!{p.counter}', I_, I_), z3.Int(f'len0!{p.counter}'), sch)
    p.assume(seq.length >= 0)
    k = H._bound_var(p)
    p.assume(z3.ForAll([k], z3.Implies(z3.And(k >= 0, k < seq.length), z3.Select(seq.elems, k) > 0)))
    g = p.ghost
    g['RAISE'] = z3.Bool('RAISE')
    me = Obj(C.SelectorList, {'_seq': seq, 'seq': seq, '_readonly': p.fresh('bool', 'readonly'), 'parentRule': None})
    me.plain_setattr = True
    g['seq_obj'] = seq
    g['old0'] = H.SymList(seq.elems, seq.length, sch)  # the entries at call time, as immutable terms (the list object itself is emptied and refilled)
    p.assume(KEPT(0) == 0)
    p.note_assumption('appendSelector: the number of kept entries before position j is defined by its recurrence (ghost function, instantiated where the loop advances)')
    p.counter += 1
    new = H.SymObj(z3.Int(f'newselector!{p.counter}'), sch)
    p.assume(new.id > 0)
    g['new'] = new
    M = p.engine.models
    p.engine.inline.add(U._BaseClass._checkReadonly)
    M[('getattr', C.SelectorList, '_namespaces')] = Model(lambda I2, a, k_: SDict({}), 'SelectorList._namespaces: the namespaces of the children (a dict)', assumed=True)
    M[('getattr', id(me), '_namespaces')] = M[('getattr', C.SelectorList, '_namespaces')]
    M[U.Base._splitNamespacesOff] = Model(lambda I2, a, k_: (a[1], SDict({})), '_splitNamespacesOff: (text, namespaces)', assumed=True)
    M[('method', C.SelectorList, '_splitNamespacesOff')] = M[U.Base._splitNamespacesOff]

    def prepareset(I2, a, k_):
        # SelectorList.__prepareset: checks read-only (already done by the caller), builds the Selector (may raise a DOM exception in raising mode),
        # returns it iff it is well-formed
        if I2.p.choose(g['RAISE']):
            I2.p.counter += 1
            if I2.p.choose(z3.Bool(f'selector_text_rejected!{I2.p.counter}')):
                raise PyRaise(ExcVal(xml.dom.SyntaxErr))
        wf = H.read_field(I2, new, 'wellformed')
        if I2.p.choose(wf.t):
            return new
        return None

    M[SL.SelectorList._SelectorList__prepareset] = Model(prepareset, 'SelectorList.__prepareset: the new Selector if it is well-formed, else None; DOM exception in raising mode', assumed=True)
    M[('method', C.SelectorList, '_SelectorList__prepareset')] = M[SL.SelectorList._SelectorList__prepareset]
    return {'self': me, 'newSelector': p.fresh('str', 'text'), 'seq0': seq}


def _gone(p, seq, j, new):
    sch = _schema()
    ta = H.heap_array(p, sch, 'selectorText')
    return z3.Select(ta, z3.Select(seq.elems, j)) == z3.Select(ta, new.id)


def _inv(I, fr, it):
    p = I.p
    g = p.ghost
    old = it.view.base
    new = g['new']
    q = it.q
    for jj in (q, q - 1):
        p.assume(z3.Implies(z3.And(jj >= 0, jj < old.length), KEPT(jj + 1) == KEPT(jj) + z3.If(_gone(p, old, jj, new), 0, 1)))
    cur = fr.lookup('self').fields['_seq']
    j = H._bound_var(p, 'j')
    return z3.And(cur.length == KEPT(q), KEPT(q) >= 0,
                  z3.ForAll([j], z3.Implies(z3.And(j >= 0, j < q, z3.Not(_gone(p, old, j, new))),
                                            z3.And(KEPT(j) >= 0, KEPT(j) < KEPT(q), z3.Select(cur.elems, KEPT(j)) == z3.Select(old.elems, j)))))


def _havoc(I, fr):
    p = I.p
    me = fr.lookup('self')
    p.counter += 1
    L = H.SymList(z3.Array(f'sels!{p.counter}', I_, I_), z3.Int(f'selslen!{p.counter}'), _schema())
    me.fields['_seq'] = L
    me.fields['seq'] = L


AS.loops[('loop', 1)] = {'name': 'dedupe', 'inv': _inv, 'havoc': ['s'], 'havoc_extra': [_havoc]}


def appended_after_dropping_equal_texts(ghost, self, seq0, result):
    """native form (replay): ghost = {'before': [...selectors...], 'newtext': str}"""
    before = ghost['before']
    if result is None:
        return list(self.seq) == before
    want = [x for x in before if x.selectorText != result.selectorText] + [result]
    got = list(self.seq)
    return len(want) == len(got) and all(a is b for a, b in zip(want, got))


def list_untouched(ghost, self, seq0):
    return list(self.seq) == ghost['before']


def _native(mod, conc, model):
    """a real SelectorList with the model's pattern of equal / different selector texts (texts mapped to simple type selectors)"""
    import logging
    import types
    import cssutils
    from cssutils.css import Selector, SelectorList
    lst = conc['seq0']
    too_long = lst['length'] > len(lst['__symlist__'])
    ev = lambda t: model.eval(t, model_completion=True)
    from pyvc.target import z3str_to_py
    newid = None
    for d in model.decls():
        if d.name().startswith('newselector!'):
            newid = model[d].as_long()
    ta = z3.Array('heap0_selector_selectorText', z3.IntSort(), z3.StringSort())
    wa = z3.Array('heap0_selector_wellformed', z3.IntSort(), z3.BoolSort())
    names = {}

    def text_of(i):
        t = z3str_to_py(ev(z3.Select(ta, i)))
        return names.setdefault(t, 'x%d' % len(names))

    cssutils.log.setLevel(logging.FATAL)
    raising = cssutils.log.raiseExceptions
    cssutils.log.raiseExceptions = False
    def scenario(texts, arg, readonly):
        sl = SelectorList()
        before = []
        for t in texts:
            sel = Selector(t)
            sel._parent = sl
            sl.seq.append(sel)
            before.append(sel)
        sl._readonly = readonly
        post = {'self': sl, 'ghost': {'before': before}, 'old': {'self': types.SimpleNamespace(_readonly=sl._readonly)}, 'seq0': texts, 'newSelector': arg}
        try:
            r = sl.appendSelector(arg)
        except Exception as e:  # noqa: BLE001
            return ('raise', e, post)
        return ('return', r, post)

    def bad(out):
        if out[0] != 'return':
            return False
        return not appended_after_dropping_equal_texts(out[2]['ghost'], out[2]['self'], None, out[1])

    try:
        readonly = bool(conc['self']['fields'].get('_readonly'))
        last = None
        if not too_long:
            wf = z3.is_true(ev(z3.Select(wa, newid))) if newid is not None else True
            arg = text_of(newid) if (wf and newid is not None) else '$'
            last = scenario([text_of(d['id']) for d in lst['__symlist__']], arg, readonly)
            if bad(last) or last[0] == 'raise':
                return last
        # the model's list is long or passes: all lists of <= 4 selectors over two texts, appended text equal to one of them or new
        import itertools
        for n in range(0, 5):
            for texts in itertools.product(['x0', 'x1'], repeat=n):
                for arg in ('x0', 'x2'):
                    out = scenario(list(texts), arg, readonly)
                    last = out
                    if bad(out):
                        return out
        return last
    finally:
        cssutils.log.raiseExceptions = raising


AS.native_call = _native


def _m_untouched(I, args, kw):
    ghost, me, seq0 = args
    seq0 = ghost['old0']
    cur = me.fields['_seq']
    return Sym('bool', z3.And(cur.length == seq0.length, cur.elems == seq0.elems))


def _m_post(I, args, kw):
    ghost, me, old, result = args
    old = ghost['old0']
    p = I.p
    new = ghost['new']
    cur = me.fields['_seq']
    n = old.length
    j = H._bound_var(p, 'j')
    untouched = z3.And(cur.length == old.length, cur.elems == old.elems)
    if result is None:
        wf = H.read_field(I, new, 'wellformed')
        return Sym('bool', z3.And(untouched, z3.Not(wf.t)))
    rid = H.obj_id(p, result)
    return Sym('bool', z3.And(rid == new.id, cur.length == KEPT(n) + 1, z3.Select(cur.elems, KEPT(n)) == new.id,
                              z3.ForAll([j], z3.Implies(z3.And(j >= 0, j < n, z3.Not(_gone(p, old, j, new))), z3.Select(cur.elems, KEPT(j)) == z3.Select(old.elems, j)))))


AS.models[appended_after_dropping_equal_texts] = Model(_m_post, 'post (z3)', assumed=False)
AS.models[list_untouched] = Model(_m_untouched, 'list untouched (z3)', assumed=False)


@AS.ensure
def the_new_selector_is_last_and_earlier_entries_of_the_same_text_are_gone(ghost, self, seq0, result, old):
    return appended_after_dropping_equal_texts(ghost, self, seq0, result) and not old['self']._readonly


@AS.on_raise(xml.dom.NoModificationAllowedErr)
def only_a_readonly_list_refuses_and_nothing_changed(ghost, self, seq0, old):
    return old['self']._readonly and list_untouched(ghost, self, seq0)


@AS.on_raise(xml.dom.SyntaxErr)
def a_refused_selector_text_changes_nothing(ghost, self, seq0):
    return list_untouched(ghost, self, seq0)
