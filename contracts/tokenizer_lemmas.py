"""T1-regex lemmas for C05/C01/C02 on the REAL token table: cssproductions.MACROS/PRODUCTIONS, macro-expanded and compiled by the
tokenizer's own code, translated node for node (pyvc.regexlang).  Each lemma is a closed regular-language fact over all strings."""
import re
import time

import z3

from pyvc import regexlang as R

SIGMA1 = R.ALLCHAR
FULL = R.FULL


def _tr_table():
    from cssutils.tokenize2 import Tokenizer
    tk = Tokenizer()
    table = [(n, m.__self__) for n, m in tk.tokenmatches]
    return tk, table, {n: R.translate(p) for n, p in table}


def _st(r):
    return 'unsat' if r == z3.unsat else ('sat' if r == z3.sat else 'unknown')


def _lemma(ctx, name, st, dt, detail=None, replay=None):
    full = 'regex.C05.' + name
    if st == 'unsat':
        ctx.lemma(full, 'discharged', 'regex', dt)
    elif st == 'sat':
        ctx.lemma(full, 'violated', 'regex', dt, detail)
        ok = False
        if replay is not None:
            try:
                ok = bool(replay())
            except Exception:
                ok = False
        ctx.violation('regex lemma on the token table: ' + name, str(detail), ok, {'witness': repr(detail)})
    else:
        ctx.lemma(full, 'unknown', 'regex', dt)


SAMPLES = ['', 'a', 'A', '-a', '--a', '-', '_', 'a1', '1a', 'a b', 'é', 'a\\62 c', '\\62', '\\g', '\\', '"', '"a"', "'a'", '"a', '"a\\"', '"a\\""', '"\\\n"', '"\n"',
           '/**/', '/* a */', '/* * /', '/***/', '/*', '/*/', 'url(a)', 'url( a )', 'url("a")', 'url(a b)', 'URL(a)', 'u\\72 l(a)', 'url(', 'f(', 'and(', '#a', '#', '#1',
           '1', '+1', '-1', '1.5', '.5', '1.', '1e3', '1px', '1%', '%', 'U+1', 'u+1-2', 'U+??', 'U+1234567', '@a', '@', '@1', '~=', '|=', '^=', '$=', '*=', '<!--', '-->',
           ' ', '\t\n', '\x0b', '\ufeff', '\xfe\xff', '\xef\xbb\xbf', '{', ';', '(', ')', '!', ':', ',', '\U0001f600', 'a\\\n']


def translator_selftest(table, tr):
    """guard: on a sample of strings, membership in the translated regular expression equals re.fullmatch of the real pattern"""
    bad = []
    n = 0
    for name, pat in table:
        for smp in SAMPLES:
            n += 1
            real = pat.fullmatch(smp) is not None
            sym = z3.is_true(z3.simplify(z3.InRe(R.lit(smp) if False else _sval(smp), tr[name].body)))
            if real != sym:
                bad.append((name, smp, real, sym))
    return n, bad


def _sval(s):
    from pyvc.symex import mk_str
    return mk_str(s)


def lemmas(ctx):
    tk, table, tr = _tr_table()
    n, bad = translator_selftest(table, tr)
    if bad:
        raise RuntimeError(f'regex translator disagrees with re.fullmatch on {len(bad)} of {n} samples, e.g. {bad[:3]!r}')
    ctx.assumptions.add(f'T1-regex translator cross-checked against re.fullmatch on {n} (production, sample) pairs in this run')
    from cssutils.tokenize2 import Tokenizer
    ctx.functions.add('cssutils/cssproductions.py::MACROS/PRODUCTIONS (as expanded and compiled by Tokenizer.__init__)')

    # 0. negative look-aheads in the token table (the deterministic unicode / escape macros): removing them changes neither the
    #    full-match language nor the match-at-start language of any production - decided completely by the automata back end;
    #    this is what licenses the look-ahead free translation used by every lemma below and by the tokenizer contract
    for n, _ in table:
        ll = tr[n].lookahead_lemma
        if ll and ll['status'] != 'none':
            ctx.lemma('regex.C05.%s_negative_lookaheads_are_language_neutral' % n, 'discharged' if ll['status'] == 'unsat' else 'violated', 'automata', ll['seconds'],
                      f"{ll['lookaheads']} look-aheads, {ll['states']} product states, automaton == CPython re on {ll['selftest']} words")

    def toks(text, full=False):
        return list(Tokenizer().tokenize(text, fullsheet=full))

    # 1. no production matches the empty string (each successful match advances the position)
    for n, _ in table:
        t0 = time.time()
        s = z3.Solver()
        s.set('timeout', 10000)
        s.add(z3.InRe(z3.StringVal(''), tr[n].body))
        r = s.check()
        _lemma(ctx, f'non_nullable.{n}', _st(r), time.time() - t0, "''")
    general = [n for n, _ in table[1:]]
    # 2. progress: at every position of every non-empty rest some general production matches a prefix
    t0 = time.time()
    U = z3.Union(*[tr[n].body for n in general])
    st, w, dt = R.included(z3.Concat(SIGMA1, FULL), z3.Concat(U, FULL))
    _lemma(ctx, 'progress.some_production_matches_every_nonempty_rest', st, dt, w, lambda: len(toks(w)) == 0)
    # 3. CHAR + INVALID + STRING first characters cover the alphabet: CHAR is every character but the quotes, quotes start INVALID
    st, w, dt = R.equivalent(tr['CHAR'].body, R.ranges_to_re(R._complement([(0x22, 0x22), (0x27, 0x27)])))
    _lemma(ctx, 'CHAR_is_any_single_character_but_a_quote', st, dt, w)
    st, w, dt = R.included(z3.Concat(z3.Union(R.lit('"'), R.lit("'")), FULL), z3.Concat(tr['INVALID'].body, FULL))
    _lemma(ctx, 'a_quote_always_starts_an_INVALID_prefix', st, dt, w)
    # 4. IDENT followed by '(' : the FUNCTION production matches there (the tokenizer's IDENT skip relies on it)
    st, w, dt = R.included(z3.Concat(tr['IDENT'].body, R.lit('('), FULL), z3.Concat(tr['FUNCTION'].body, FULL))
    _lemma(ctx, 'ident_followed_by_paren_is_matched_by_FUNCTION', st, dt, w)
    st, w, dt = R.equivalent(tr['FUNCTION'].body, z3.Concat(tr['IDENT'].body, R.lit('(')))
    _lemma(ctx, 'FUNCTION_is_IDENT_then_paren', st, dt, w)
    # 5. STRING: at least two characters, same quote at both ends (precondition of _stringtokenvalue / stringvalue)
    strshape = z3.Union(z3.Concat(R.lit('"'), FULL, R.lit('"')), z3.Concat(R.lit("'"), FULL, R.lit("'")))
    st, w, dt = R.included(tr['STRING'].body, strshape)
    _lemma(ctx, 'STRING_is_quoted_by_the_same_quote_at_both_ends', st, dt, w)
    st, w, dt = R.included(tr['STRING'].body, z3.Concat(tr['INVALID'].body, z3.Union(R.lit('"'), R.lit("'"))))
    _lemma(ctx, 'STRING_is_an_INVALID_prefix_plus_closing_quote', st, dt, w)
    # an INVALID that reaches the end of input, completed with its own quote, is a STRING (full-sheet completion)
    inv1 = z3.Intersect(tr['INVALID'].body, z3.Concat(R.lit('"'), FULL))
    st, w, dt = R.included(z3.Concat(inv1, R.lit('"')), z3.Union(tr['STRING'].body, z3.Concat(FULL, R.lit('\\"'))))
    _lemma(ctx, 'completed_INVALID_is_a_STRING_unless_it_ends_in_a_backslash', st, dt, w)
    # 6. URI: starts with a (possibly escaped) spelling of url( and ends with ')'
    st, w, dt = R.included(tr['URI'].body, z3.Concat(FULL, R.lit(')')))
    _lemma(ctx, 'URI_ends_with_closing_paren', st, dt, w)
    st, w, dt = R.included(tr['URI'].body, z3.Concat(tr['FUNCTION'].body, FULL))
    _lemma(ctx, 'URI_starts_with_a_FUNCTION_spelling', st, dt, w)
    # 7. fixed-string productions
    for n, text in (('INCLUDES', '~='), ('DASHMATCH', '|='), ('PREFIXMATCH', '^='), ('SUFFIXMATCH', '$='), ('SUBSTRINGMATCH', '*='), ('CDO', '<!--'), ('CDC', '-->')):
        st, w, dt = R.equivalent(tr[n].body, R.lit(text))
        _lemma(ctx, f'{n}_is_exactly_{text!r}', st, dt, w)
    # 8. comments: the CSS 2.1 definition, and completion of an unterminated comment
    css21_comment = R.translate(r'\/\*[^*]*\*+([^/*][^*]*\*+)*\/').body
    st, w, dt = R.equivalent(tr['COMMENT'].body, css21_comment)
    _lemma(ctx, 'COMMENT_equals_the_CSS21_comment_token', st, dt, w)
    nostarslash = z3.Complement(z3.Concat(FULL, R.lit('*/'), FULL))
    st, w, dt = R.included(z3.Concat(R.lit('/*'), FULL, R.lit('*/')), z3.Concat(tr['COMMENT'].body, FULL))
    _lemma(ctx, 'slash_star_anything_star_slash_has_a_COMMENT_prefix', st, dt, w)
    st, w, dt = R.included(tr['COMMENT'].body, z3.Concat(R.lit('/*'), nostarslash, R.lit('*/')) if False else z3.Concat(R.lit('/*'), FULL, R.lit('*/')))
    _lemma(ctx, 'COMMENT_starts_with_slash_star_and_ends_with_star_slash', st, dt, w)
    st, w, dt = R.included(tr['COMMENT'].body, z3.Concat(R.lit('/*'), z3.Intersect(FULL, z3.Complement(z3.Concat(FULL, R.lit('*/'), SIGMA1, FULL)))))
    _lemma(ctx, 'COMMENT_ends_at_the_first_star_slash', st, dt, w)
    # 9. escapes: the decoder's expression = escaped backslash | CSS 2.1 {unicode}; the MACROS' unicode = CSS 2.1
    css21_unicode = R.translate(r'\\[0-9a-fA-F]{1,6}(\r\n|[ \t\r\n\f])?').body
    unicodesub = R.translate(Tokenizer.unicodesub.__self__)
    st, w, dt = R.equivalent(unicodesub.body, z3.Union(R.lit('\\\\'), css21_unicode))
    _lemma(ctx, 'unicodesub_matches_escaped_backslash_or_CSS21_unicode_escape', st, dt, w)
    from cssutils.cssproductions import MACROS
    exp = tk._expand_macros(MACROS, [('u', '{unicode}'), ('e', '{escape}'), ('nl', '{nl}'), ('ident', '{ident}'), ('num', '{num}')])
    em = {k: R.translate('(?:%s)' % v, re.U).body for k, v in exp}
    st, w, dt = R.equivalent(em['u'], css21_unicode)
    _lemma(ctx, 'macro_unicode_equals_CSS21', st, dt, w)
    st, w, dt = R.equivalent(em['nl'], R.translate(r'\n|\r\n|\r|\f').body)
    _lemma(ctx, 'macro_nl_equals_CSS21', st, dt, w)
    # cleanstring removes exactly an escaped line break (keeping escaped backslashes)
    cleanstring = R.translate(Tokenizer.cleanstring.__self__)
    st, w, dt = R.equivalent(cleanstring.body, z3.Union(R.lit('\\\\'), z3.Concat(R.lit('\\'), em['nl'])))
    _lemma(ctx, 'cleanstring_matches_escaped_backslash_or_escaped_line_break', st, dt, w)
    # 10. numbers: NUMBER / PERCENTAGE / DIMENSION are num, num%, num ident; num = CSS 2.1 num with an optional sign
    num = R.translate(r'[+-]?([0-9]*\.[0-9]+|[0-9]+)').body
    st, w, dt = R.equivalent(tr['NUMBER'].body, num)
    _lemma(ctx, 'NUMBER_is_optionally_signed_CSS21_num', st, dt, w)
    st, w, dt = R.equivalent(tr['PERCENTAGE'].body, z3.Concat(num, R.lit('%')))
    _lemma(ctx, 'PERCENTAGE_is_num_percent', st, dt, w)
    st, w, dt = R.equivalent(tr['DIMENSION'].body, z3.Concat(num, tr['IDENT'].body))
    _lemma(ctx, 'DIMENSION_is_num_ident', st, dt, w)
    st, w, dt = R.equivalent(tr['ATKEYWORD'].body, z3.Concat(R.lit('@'), tr['IDENT'].body))
    _lemma(ctx, 'ATKEYWORD_is_at_ident', st, dt, w)
    st, w, dt = R.equivalent(tr['S'].body, z3.Plus(R.translate(r'[ \t\r\n\f]').body))
    _lemma(ctx, 'S_is_CSS_white_space', st, dt, w)
    # 11. an IDENT never contains a character that starts another construct unescaped: no raw white space, quotes, parens, braces
    bad = R.translate(r'[ \t\r\n\f"\'(){}\[\];:,/*@!]').body
    esc_any = R.translate(r'\\[^\n\r\f]').body
    st, w, dt = R.included(tr['IDENT'].body, z3.Star(z3.Union(esc_any, z3.Intersect(SIGMA1, z3.Complement(bad)), em['u'])))
    _lemma(ctx, 'IDENT_has_no_unescaped_structural_character', st, dt, w)
    # 11b. token classes against the CSS 2.1 appendix G.2 definitions written out independently (letters in both cases;
    #      identifiers may start with up to two hyphens, the CSS3 extension cssutils documents)
    NONASCII = r'[^\x00-\x7f]'
    UNI = r'\\[0-9a-fA-F]{1,6}(?:\r\n|[ \n\r\t\f])?'
    ESC = r'(?:%s|\\[^\n\r\f0-9a-fA-F])' % UNI
    # (the token table's escape macro excludes only LOWER-case hex letters after the backslash: '\A' with a capital hex letter is also
    #  an {escape}; both readings are unions with {unicode}, the languages coincide)
    NMSTART = r'(?:[_a-zA-Z]|%s|%s)' % (NONASCII, ESC)
    NMCHAR = r'(?:[_a-zA-Z0-9-]|%s|%s)' % (NONASCII, ESC)
    IDENT = r'-{0,2}%s%s*' % (NMSTART, NMCHAR)
    NL = r'(?:\n|\r\n|\r|\f)'
    STRING1 = r'"(?:[^\n\r\f\\"]|\\%s|%s)*"' % (NL, ESC)
    STRING2 = r"'(?:[^\n\r\f\\']|\\%s|%s)*'" % (NL, ESC)
    spec = {
        'IDENT': IDENT, 'STRING': '(?:%s|%s)' % (STRING1, STRING2), 'INVALID': '(?:%s|%s)' % (STRING1[:-1], STRING2[:-1]),
        'HASH': r'#%s+' % NMCHAR, 'UNICODE-RANGE': r'(?:[Uu]|\\0{0,4}(?:55|75)(?:\r\n|[ \t\r\n\f])?|\\[Uu])\+[0-9A-Fa-f?]{1,6}(?:-[0-9A-Fa-f]{1,6})?',
    }
    for n, pat in spec.items():
        st, w, dt = R.equivalent(tr[n].body, R.translate(pat, re.U).body)
        _lemma(ctx, f'{n}_equals_its_CSS21_G2_definition', st, dt, w, None)
    # 12. the reserved at-keywords of the tokenizer table are ATKEYWORD spellings
    for kw in Tokenizer._atkeywords:
        t0 = time.time()
        s = z3.Solver()
        s.add(z3.Not(z3.InRe(z3.StringVal(kw), tr['ATKEYWORD'].body)))
        r = s.check()
        _lemma(ctx, f'reserved_at_keyword_{kw}_is_an_ATKEYWORD', _st(r), time.time() - t0, kw)
