"""Sidecar contracts for the statement callbacks of CSSStyleSheet._setCssText (C04, mechanism "a statement that is not well-formed is parsed
(consumed) but not inserted"): each callback is a caller of Base._tokensupto2 and is verified against ITS contract.

For charsetrule, importrule, namespacerule, variablesrule, fontfacerule, mediarule, pagerule, unknownrule and ruleset:
  * the statement that starts with `token` is consumed exactly up to and including its own end - the first ';' or '}' at which the nesting
    levels counted from `token` are back at zero (or the end of the input) - whatever the rule parser makes of it, also when it raises;
  * at most one rule is inserted, and only a rule that is well-formed;
  * the position state handed back is a number >= 1 (the @charset place is over once any statement has been read), and never smaller than
    the state that came in, except where the callback itself defines the new section (1, 2 or 3).

The rule classes, `insertRule` and the log are modelled by their effects on the ghost record (rule parsers may raise anything a DOM setter
raises; they do not touch the token iterator: they are handed the carved-out token LIST).
"""
import xml.dom

from pyvc.api import *
from pyvc import heap as H
from pyvc import symex as SX
from contracts import util_tokensupto2 as TU
from contracts.cssstyledeclaration_parse import _m_consumed, consumed_exactly_the_declaration

I_ = z3.IntSort()
CALLBACKS = ['charsetrule', 'importrule', 'namespacerule', 'variablesrule', 'fontfacerule', 'mediarule', 'pagerule', 'unknownrule', 'ruleset']


class LogStub:
    pass


class RuleStub:
    pass


class NsStub:
    pass


class RulesStub:
    pass


def _setup(I, fn):
    import cssutils
    import cssutils.css as C
    import cssutils.util as U
    p = I.p
    p.use_quantifier_mode()
    sch = TU._schema()
    p.counter += 1
    stream = H.SymList(z3.Array(f'stream!{p.counter}', I_, I_), z3.Int(f'streamlen!{p.counter}'), sch)
    c0 = z3.Int(f'c0!{p.counter}')
    p.assume(z3.And(stream.length >= 0, c0 >= 0, c0 <= stream.length))
    k = H._bound_var(p)
    p.assume(z3.ForAll([k], z3.Implies(z3.And(k >= 0, k < stream.length), z3.Select(stream.elems, k) > 0)))
    p.counter += 1
    token = H.SymObj(z3.Int(f'token!{p.counter}'), sch)
    p.assume(token.id > 0)
    it = H.SymIter(stream, c0)
    g = p.ghost
    g['stream'], g['c0'], g['token'] = stream, c0, token
    g['inserted'] = []
    g['RAISE'] = z3.Bool('RAISE')
    g['mode_for_spec'] = None  # the default mode: ends ';' and '}'
    M = p.engine.models

    def m_log(I2, a, k_):
        if k_.get('neverraise') is True:
            return None
        if I2.p.choose(g['RAISE']):
            raise PyRaise(ExcVal(xml.dom.DOMException))
        return None

    for n in ('error', 'warn', 'info', 'debug'):
        M[('method', LogStub, n)] = Model(m_log, '_log.%s: contract of _ErrorHandler.__handle (raises iff raising mode and not neverraise)' % n, assumed=False)

    def new_rule(kind):
        def mk(I2, a, k_):
            I2.p.counter += 1
            r = Obj(RuleStub, {'wellformed': I2.p.fresh('bool', 'wellformed'), 'kind': kind, 'prefix': I2.p.fresh('str', 'prefix'), 'namespaceURI': I2.p.fresh('str', 'uri'),
                               'NAMESPACE_RULE': 10})
            r.plain_setattr = True
            if 'cssText' in k_ or (kind == 'comment'):
                # constructor given the text: parses it (may raise in raising mode)
                if I2.p.choose(g['RAISE']):
                    I2.p.counter += 1
                    if I2.p.choose(z3.Bool(f'rule_text_rejected!{I2.p.counter}')):
                        raise PyRaise(ExcVal(xml.dom.DOMException))
            return r
        return Model(mk, f'{kind}(...): a new rule object; a given text is parsed (may raise in raising mode) without touching the token iterator', assumed=True)

    for cls, kind in ((C.CSSCharsetRule, 'charset'), (C.CSSImportRule, 'import'), (C.CSSNamespaceRule, 'namespace'), (C.CSSVariablesRule, 'variables'),
                      (C.CSSFontFaceRule, 'fontface'), (C.CSSMediaRule, 'media'), (C.CSSPageRule, 'page'), (C.CSSUnknownRule, 'unknown'),
                      (C.CSSStyleRule, 'style'), (C.MarginRule, 'margin')):
        M[cls] = new_rule(kind)
        M[('new', cls)] = M[cls]

    def set_text(I2, a, k_):
        if I2.p.choose(g['RAISE']):
            I2.p.counter += 1
            if I2.p.choose(z3.Bool(f'rule_text_rejected!{I2.p.counter}')):
                raise PyRaise(ExcVal(xml.dom.DOMException))
        return None

    M[('setattr', RuleStub, 'cssText')] = Model(set_text, 'rule.cssText = tokens: parses the carved-out tokens (may raise in raising mode); does not touch the token iterator', assumed=True)

    def insert(I2, a, k_):
        g['inserted'].append(a[1])
        if I2.p.choose(g['RAISE']):
            I2.p.counter += 1
            if I2.p.choose(z3.Bool(f'insert_rejected!{I2.p.counter}')):
                g['inserted'].pop()
                raise PyRaise(ExcVal(xml.dom.DOMException))
        return None

    M[C.CSSStyleSheet.insertRule] = Model(insert, 'CSSStyleSheet.insertRule(rule): own contract (contracts/cssstylesheet.py): inserts or raises with the list unchanged', assumed=False)
    M[('method', C.CSSStyleSheet, 'insertRule')] = M[C.CSSStyleSheet.insertRule]
    M[C.CSSStyleSheet._updateVariables] = Model(lambda I2, a, k_: None, '_updateVariables: recomputes the variables view', assumed=True)
    M[U.Base._tokensupto2] = TU.callee(assumed=False)
    M[('method', C.CSSStyleSheet, '_tokensupto2')] = M[U.Base._tokensupto2]
    M[U.Base._normalize] = Model(lambda I2, a, k_: I2.p.fresh('str', 'normalized'), 'normalize', assumed=True)
    M[('method', C.CSSStyleSheet, '_normalize')] = M[U.Base._normalize]
    ns = Obj(NsStub)
    M[('method', NsStub, '__contains__')] = Model(lambda I2, a, k_: I2.p.fresh('bool', 'prefix_known'), 'prefix in namespaces', assumed=True)
    M[('method', NsStub, '__setitem__')] = Model(lambda I2, a, k_: None, 'namespaces[prefix] = uri (parse-time dict)', assumed=True)
    rules = Obj(RulesStub)
    M[('method', RulesStub, 'rulesOfType')] = Model(lambda I2, a, k_: SList([]), 'cssRules.rulesOfType: the rules of one kind (none here: the re-binding loop is not under this contract)', assumed=True)
    me = Obj(C.CSSStyleSheet, {'_log': Obj(LogStub), 'namespaces': ns, '_namespaces': ns, 'cssRules': rules})
    expected = p.fresh('int', 'expected')
    p.assume(z3.And(expected.t >= 0, expected.t <= 3))
    margins = C.MarginRule.margins
    # a margin-box keyword at sheet level is one concrete case of unknownrule; the keyword of `token` is symbolic, so `in margins` forks
    return {'expected': expected, 'seq': SList([]), 'token': token, 'tokenizer': it,
            '__closure__': {'self': me, 'namespaces': ns, 'cssutils': cssutils, 'xml': xml}}


def _mk(fn):
    t = register(Target('cssutils/css/cssstylesheet.py', f'CSSStyleSheet._setCssText.{fn}', ['C04'],
                        name=f'cssutils/css/cssstylesheet.py::CSSStyleSheet._setCssText.<locals>.{fn}'))
    t.models[consumed_exactly_the_declaration] = Model(_m_consumed_stmt, 'post (z3)', assumed=False)

    @t.inputs
    def _in(I):
        return _setup(I, fn)

    @t.ensure
    def consumes_exactly_one_statement_and_inserts_only_a_wellformed_rule(ghost, tokenizer, expected, result):
        return (consumed_exactly_the_declaration(ghost, tokenizer) and len(ghost['inserted']) <= 1 and all(r.wellformed for r in ghost['inserted'])
                and result >= 1 and (result >= expected or result == 1 or result == 2 or result == 3))

    @t.on_raise(xml.dom.DOMException)
    def a_rejected_statement_is_still_consumed_whole(ghost, tokenizer):
        return consumed_exactly_the_declaration(ghost, tokenizer) and len(ghost['inserted']) <= 1 and all(r.wellformed for r in ghost['inserted'])

    return t


def _m_consumed_stmt(I, args, kw):
    """as for a declaration, but the skip is the DEFAULT mode of _tokensupto2 (ends ';' and '}')"""
    ghost, it = args
    skips = ghost.get('skips', [])
    if len(skips) != 1:
        return Sym('bool', z3.BoolVal(False))
    sk = skips[0]
    if not (sk['mode'] is None and sk['start'] is not None and sk['start'].id is ghost['token'].id and sk['c0'] is ghost['c0']):
        return Sym('bool', z3.BoolVal(False))
    p = I.p
    g = sk['g']
    e = it.cursor
    j = H._bound_var(p, 'j')
    n = ghost['stream'].length
    c0 = ghost['c0']
    return Sym('bool', z3.And(e >= c0, e <= n, z3.ForAll([j], z3.Implies(z3.And(j >= c0, j < e - 1), z3.Not(g.stop(j)))),
                              z3.Or(z3.And(e > c0, g.stop(e - 1)), z3.And(e == n, z3.Or(e == c0, z3.Not(g.stop(e - 1)))))))


TARGETS = [_mk(fn) for fn in CALLBACKS]
