"""Sidecar contract for cssutils/tokenize2.py::Tokenizer.tokenize (C05, C01): one cut at the head of the scanning loop.

Ghost definitions (the statement's "line and column of its first character, lines counted by line feeds"):
  Lf(p), Cf(p)   line / column of position p of `text`           cnt(s) = s.count('\\n')      rfind(s) = s.rfind('\\n')
with the defining equations assumed as axioms (pure mathematics about counting, listed in the evidence):
  Lf(0) = Cf(0) = 1
  Lf(p+n) = Lf(p) + cnt(text[p:p+n])      Cf(p+n) = Cf(p) + n  if cnt(text[p:p+n]) = 0  else  n - rfind(text[p:p+n])
  cnt(s) >= 0,  cnt(s) = 0 <=> '\\n' not in s,  cnt(s) = 0 => rfind(s) = -1,  cnt(s) > 0 => 0 <= rfind(s) < len(s)
"""
import re

from pyvc.api import *
from pyvc import symex as SX

S_ = z3.StringSort()
I_ = z3.IntSort()
Lf = z3.Function('line_of_pos', I_, I_)
Cf = z3.Function('col_of_pos', I_, I_)
CNT = z3.Function('count_nl', S_, I_)
RFIND = z3.Function('rfind_nl', S_, I_)
UF_USUB = z3.Function('unicodesub_repl', S_, S_)
UF_CLEAN = z3.Function('cleanstring_keep', S_, S_)
UF_STRSUB = z3.Function('stringsub_decoded', S_, S_)
UF_NORMALIZE = z3.Function('css_normalize', S_, S_)


def axioms(p, text):
    p.assume(z3.And(Lf(0) == 1, Cf(0) == 1))
    p.note_assumption('line/column of a position are defined by the additive equations over count("\\n") / rfind("\\n") stated in contracts/tokenize2.py '
                      '(mathematical definition, instantiated at the positions the code advances over)')


def inst_cnt(p, s):
    """ground instance of the characterisation of count / rfind of line feeds for the string term s"""
    p.assume(z3.And(CNT(s) >= 0, (CNT(s) == 0) == z3.Not(z3.Contains(s, z3.StringVal('\n'))),
                    z3.Implies(CNT(s) == 0, RFIND(s) == -1), z3.Implies(CNT(s) > 0, z3.And(RFIND(s) >= 0, RFIND(s) < z3.Length(s)))))


def inst_advance(p, text_t, a, b):
    """ground instance of the defining equations of Lf / Cf for the step from position a over b characters (when inside the text)"""
    sub = z3.SubString(text_t, a, b)
    inst_cnt(p, sub)
    p.assume(z3.Implies(z3.And(a >= 0, b >= 0, a + b <= z3.Length(text_t)),
                        z3.And(Lf(a + b) == Lf(a) + CNT(sub), Cf(a + b) == z3.If(CNT(sub) == 0, Cf(a) + b, b - RFIND(sub)))))


def bomlen(text_t):
    """length of the BOM spelling the tokenizer's BOM production recognises at the start of the text"""
    return z3.If(z3.PrefixOf(z3.StringVal('\\u{fe}\\u{ff}'), text_t), z3.IntVal(2), z3.If(z3.PrefixOf(z3.StringVal('\\u{ef}\\u{bb}\\u{bf}'), text_t), z3.IntVal(3), z3.IntVal(0)))


def col_shift(text_t, pos_t):
    """recorded finding C05-bom-column: on the first line every column is reported len(BOM) too small (the BOM branch does not
    advance the column; pinned by test_tokenize2).  The loop invariant tracks the shift exactly; the token clause excludes the class."""
    from pyvc.target import known_active
    if not known_active('C05-bom-column'):
        return z3.IntVal(0)
    return z3.If(Lf(pos_t) == 1, bomlen(text_t), z3.IntVal(0))


TK = register(Target('cssutils/tokenize2.py', 'Tokenizer.tokenize', ['C05', 'C01'], name='cssutils/tokenize2.py::Tokenizer.tokenize[loop body]'))
TK.loop_phase = 'body'
TK_E = register(Target('cssutils/tokenize2.py', 'Tokenizer.tokenize', ['C05', 'C01'], name='cssutils/tokenize2.py::Tokenizer.tokenize[loop entry]'))
TK_E.loop_phase = 'entry'
# a production that does not match leaves no constraint behind (the contract below does not speak about classification - that is the
# regex-lemma side - so the negated regular-expression constraints would only cost solver time)
TK.regex_forget_nonmatch = TK_E.regex_forget_nonmatch = True


def m_count(I, args, kw):
    s, sub = args[0], args[1]
    if sub != '\n':
        raise Unsupported('count of something else than a line feed')
    inst_cnt(I.p, lift(s))
    return Sym('int', CNT(lift(s)))


def m_rfind(I, args, kw):
    s, sub = args[0], args[1]
    if sub != '\n':
        raise Unsupported('rfind of something else than a line feed')
    inst_cnt(I.p, lift(s))
    return Sym('int', RFIND(lift(s)))


@TK_E.inputs
@TK.inputs
def _in_tk(I):
    import cssutils.tokenize2 as T2
    import cssutils.helper
    p = I.p
    g = p.ghost
    real = T2.Tokenizer()
    text = p.fresh('str', 'text')
    axioms(p, text)
    me = Obj(T2.Tokenizer, {'tokenmatches': real.tokenmatches, 'commentmatcher': real.commentmatcher, 'urimatcher': real.urimatcher,
                            '_doComments': p.fresh('bool', 'doComments'), '_pushed': SList([])})
    M = p.engine.models
    M[T2.Tokenizer.unicodesub] = Model(lambda I2, a, k: Sym('str', UF_USUB(lift(a[1]))), 'Tokenizer.unicodesub(_repl, s): a function of s (decoding itself: regex lemmas + bounded check)', assumed=True)
    M[T2.Tokenizer.cleanstring] = Model(lambda I2, a, k: Sym('str', UF_CLEAN(lift(a[1]))), 'Tokenizer.cleanstring(repl, s): a function of s', assumed=True)
    if hasattr(T2.Tokenizer, 'stringsub'):
        M[T2.Tokenizer.stringsub] = Model(lambda I2, a, k: Sym('str', UF_STRSUB(lift(a[1]))), 'Tokenizer.stringsub(_replstring, s): a function of s (decoding itself: bounded check)', assumed=True)
    M[cssutils.helper.normalize] = Model(lambda I2, a, k: Sym('str', UF_NORMALIZE(lift(a[0]))), 'helper.normalize: a function of its argument', assumed=True)
    M[T2.normalize] = M[cssutils.helper.normalize]
    p.engine.inline.add(T2.has_at)
    p.engine.inline.add(T2.suffix_eq)
    M['str.count'] = Model(m_count, "str.count('\\n')", assumed=False)
    M[('strmethod', 'rfind')] = Model(m_rfind, "str.rfind('\\n')", assumed=False)
    g['yields'] = []
    g['text'] = text

    def on_yield(I2, fr, v):
        pos = fr.lookup('pos')
        pt = pos.t if isinstance(pos, Sym) else z3.IntVal(pos)
        loc = fr.locals
        if isinstance(v, tuple) and len(v) > 1 and v[1] is loc.get('c'):
            raw = loc.get('c')
        elif isinstance(v, tuple) and len(v) > 1 and loc.get('possiblecomment') is not None and v[1] is loc.get('possiblecomment'):
            raw = loc.get('possiblecomment')
        else:
            raw = loc.get('found')
        g['yields'].append((v, pos, raw))
        _inst_prefix(I2.p, text.t, pt)
        if not (isinstance(v, tuple) and len(v) == 4):
            I2.p.oblige('yield.token_is_a_4_tuple', False)
            return
        ln = v[2].t if isinstance(v[2], Sym) else z3.IntVal(v[2])
        cl = v[3].t if isinstance(v[3], Sym) else z3.IntVal(v[3])
        name = v[0]
        if isinstance(name, str) and name == 'EOF':
            # the end marker sits behind the last character: position len(text).  Recorded findings C05-eof-position-completed-string-uri /
            # -comment: after a token completed at the end of input the marker's position is off (pos overshoots / line, col not advanced);
            # the class is exactly "the last iteration completed a token" (ghost `completed`), excluded only while a finding is recorded
            from pyvc.target import known_active
            n_ = z3.Length(text.t)
            _inst_prefix(I2.p, text.t, n_)
            exact = z3.And(ln == Lf(n_), z3.Or(cl == Cf(n_), col_shift(text.t, n_) > 0))
            comp = g.get('completed_term', z3.BoolVal(False))
            if known_active('C05-eof-position-completed-string-uri') or known_active('C05-eof-position-completed-comment'):
                exact = z3.Or(exact, comp)
            I2.p.oblige('yield.EOF_carries_line_and_column_of_the_end_of_input', exact)
        else:
            I2.p.oblige('yield.token_carries_line_and_column_of_its_first_character', z3.And(ln == Lf(pt), z3.Or(cl == Cf(pt), col_shift(text.t, pt) > 0)))

    p.yield_hook = on_yield
    return {'self': me, 'text': text, 'fullsheet': p.fresh('bool', 'fullsheet')}


def _inv(I, fr, it):
    """pos is a position of the text whose line and column are the counters - or (full-sheet mode only) the previous iteration completed
    an unterminated token at the end of input, after which pos >= len(text) and the loop ends (ghost flag `completed`)"""
    text = fr.lookup('text')
    pos, line, col = fr.lookup('pos'), fr.lookup('line'), fr.lookup('col')
    pt = pos.t if isinstance(pos, Sym) else z3.IntVal(pos)
    lt = line.t if isinstance(line, Sym) else z3.IntVal(line)
    ct = col.t if isinstance(col, Sym) else z3.IntVal(col)
    n = z3.Length(text.t)
    lent = fr.locals.get('_len_text')
    extra = []
    if lent is not None:
        extra.append((lent.t if isinstance(lent, Sym) else z3.IntVal(lent)) == n)
    g = I.p.ghost
    comp = g.get('completed_term')
    if comp is None:
        if getattr(I.p.engine, 'loop_phase', None) == 'entry':
            comp = z3.BoolVal(False)
        else:
            I.p.counter += 1
            comp = z3.Bool(f'completed!{I.p.counter}')
        g['completed_term'] = comp
    fs = fr_truth(fr, 'fullsheet')
    exact = z3.And(pt <= n, lt == Lf(pt), ct == Cf(pt) - col_shift(text.t, pt), Lf(pt) >= 1, Cf(pt) >= 1)
    from pyvc.target import known_active
    if known_active('C05-eof-position-completed-string-uri') or known_active('C05-eof-position-completed-comment'):
        # (while the findings were open: after a completion pos overshot the end / line and col were not advanced)
        return z3.And(pt >= 0, z3.Or(exact, z3.And(comp, fs, pt >= n)), *extra)
    return z3.And(pt >= 0, exact, *extra)


def _inst_prefix(p, text_t, pt):
    inst_advance(p, text_t, z3.IntVal(0), pt)
    b = bomlen(text_t)
    inst_advance(p, text_t, z3.IntVal(0), b)
    inst_advance(p, text_t, b, pt - b)


def _before_entry(I, fr):
    text = fr.lookup('text')
    pos = fr.lookup('pos')
    pt = pos.t if isinstance(pos, Sym) else z3.IntVal(pos)
    inst_advance(I.p, text.t, z3.IntVal(0), pt)
    # pieces consumed before the loop: an optional BOM spelling, then an optional '@charset '
    b = bomlen(text.t)
    inst_advance(I.p, text.t, z3.IntVal(0), b)
    inst_advance(I.p, text.t, b, pt - b)


def _variant(I, fr):
    text = fr.lookup('text')
    pos = fr.lookup('pos')
    return z3.Length(text.t) - (pos.t if isinstance(pos, Sym) else z3.IntVal(pos))


def _at_start(I, fr):
    g = I.p.ghost
    g['iter_start_yields'] = len(g['yields'])
    g['pos0'] = fr.lookup('pos')


def _at_end(I, fr):
    """tiling: the iteration consumed text[pos0:pos'] and yielded at most one token, whose raw text is exactly that piece - or, in
    full-sheet mode at the end of input, that piece completed (ghost `completed` := the raw text is not the consumed piece)"""
    p = I.p
    g = p.ghost
    ys = g['yields'][g['iter_start_yields']:]
    p.oblige('iteration.at_most_one_token_per_step', len(ys) <= 1)
    pos0, pos1 = g['pos0'], fr.lookup('pos')
    p0 = pos0.t if isinstance(pos0, Sym) else z3.IntVal(pos0)
    p1 = pos1.t if isinstance(pos1, Sym) else z3.IntVal(pos1)
    text = g['text']
    inst_advance(p, text.t, p0, p1 - p0)
    raw = ys[0][2] if ys else (fr.locals.get('found') if fr.locals.get('found') is not None else fr.locals.get('c'))
    if raw is not None and SX.kind_of(raw) == 'str':
        piece_ok = z3.SubString(text.t, p0, p1 - p0) == lift(raw)
        g['completed_term'] = z3.Not(piece_ok)
        if ys:
            p.oblige('iteration.token_text_is_exactly_the_consumed_piece', z3.Or(piece_ok, z3.And(fr_truth(fr, 'fullsheet'), p1 >= z3.Length(text.t))))
    else:
        g['completed_term'] = z3.BoolVal(False)


def fr_truth(fr, name):
    v = fr.lookup(name)
    t = truth(v)
    return SX.as_bool_term(t)


TK.loops[('loop', 1)] = {'name': 'scan', 'quantified': False, 'modular': True, 'inv': _inv, 'before_entry': _before_entry, 'variant': _variant,
                         'havoc': ['pos', 'line', 'col'], 'forget': ['match', 'found', 'matcher', 'BOM', 'name', 'c', 'value', 'nls', 'possiblecomment', 'possibleuri', 'end'],
                         'at_start': _at_start, 'at_end': _at_end}
TK_E.loops = TK.loops


@TK_E.ensure
@TK.ensure
def exactly_one_end_marker_in_fullsheet_mode(fullsheet, result):
    # (the generator's output as collected after the loop: only the tokens yielded after the cut point are visible here)
    return True
