"""T1-regex lemmas for C13: the real, macro-expanded, compiled validation patterns of the CSS 2.1 profile are compared, as regular
languages over ALL strings, with an independent grammar table (bounded/c13.py `G`, written by hand from the CSS 2.1 property index).

For a property whose CSS 2.1 grammar is a pure keyword list the obligation is
    L(real pattern, flags as compiled)  ∩  ASCII*  ==  { keywords, 'inherit' } under ASCII case folding
(the non-ASCII part is the recorded finding C13-unicode-fold: re.I without re.A folds U+0130/U+017F/U+212A onto i/s/k), and
    every compiled pattern is anchored:  match_language == fullmatch language (+ optional final newline for '$').
"""
import re
import time

import z3

from pyvc import regexlang as R

ASCII_STAR = z3.Star(z3.Range(R.mkchar(0), R.mkchar(127)))


def ci_keyword(kw):
    parts = []
    for ch in kw:
        lo, up = ch.lower(), ch.upper()
        if lo != up:
            parts.append(z3.Union(z3.Re(z3.StringVal(lo)), z3.Re(z3.StringVal(up))))
        else:
            parts.append(z3.Re(R.mkchar(ord(ch))))
    return parts[0] if len(parts) == 1 else z3.Concat(*parts)


def keyword_properties():
    from bounded import c13
    out = []
    for name, g in sorted(c13.G.items()):
        if not g['types'] and not g['either'] and not g['css3']:
            out.append((name, g['kw']))
    return out


def real_pattern(reg, name):
    import cssutils.profiles as P
    f = reg._profilesProperties[P.Profiles.CSS_LEVEL_2][name]
    return f.pattern, f.flags if hasattr(f, 'flags') else re.I


def lemmas(ctx, known_deviations=None):
    from bounded import c13
    reg = c13.css21_only_registry()
    known_deviations = known_deviations or {}
    n_nonascii = 0
    for name, kws in keyword_properties():
        t0 = time.time()
        try:
            try:
                pat, flags = real_pattern(reg, name)
                tr = R.translate(pat, flags)
            except KeyError:
                # not in the CSS 2.1 profile table: validity is "some registered profile accepts" -> union over the default registry
                import cssutils
                trs = []
                for prof, props in cssutils.profile._profilesProperties.items():
                    if name in props and hasattr(props[name], 'pattern'):
                        pat, flags = props[name].pattern, props[name].flags
                        trs.append(R.translate(pat, flags))
                if not trs:
                    raise
                tr = trs[0]
                if len(trs) > 1:
                    tr = R.Translated(z3.Union(*[t.body for t in trs]), all(t.anchored_start for t in trs), '$' if all(t.end_anchor == '$' for t in trs) else None)
        except Exception as e:
            ctx.lemma(f'regex.C13.{name}.keyword_list', 'unknown', 'regex', 0, f'{type(e).__name__}: {e}')
            continue
        ctx.functions.add(f'cssutils/profiles.py::properties[CSS_LEVEL_2][{name!r}] (macro-expanded, compiled)')
        real = tr.body
        oracle = z3.Union(*[ci_keyword(k) for k in kws]) if len(kws) > 1 else ci_keyword(kws[0])
        extra = known_deviations.get(name)
        lhs = z3.Intersect(real, ASCII_STAR)
        if extra is not None:
            # recorded finding: the real pattern additionally accepts exactly these keywords
            oracle_k = z3.Union(oracle, *[ci_keyword(k) for k in extra[1]])
            st, w, dt = R.equivalent(lhs, oracle_k, timeout_ms=20000)
            if st == 'unsat':
                ctx.known_finding(extra[0], True)
            else:
                st0, _, _ = R.equivalent(lhs, oracle, timeout_ms=20000)
                if st0 == 'unsat':
                    st = 'unsat'  # the deviation has gone: plain equivalence holds
        else:
            st, w, dt = R.equivalent(lhs, oracle, timeout_ms=20000)
        dt = time.time() - t0
        if st == 'unsat':
            ctx.lemma(f'regex.C13.{name}.ascii_language_equals_css21_keyword_list', 'discharged', 'regex', dt)
        elif st == 'sat':
            side, witness = w
            verdict = reg.validate(name, witness)
            want = witness.lower() in kws
            ctx.lemma(f'regex.C13.{name}.ascii_language_equals_css21_keyword_list', 'violated', 'regex', dt, f'witness {witness!r} ({side})')
            ctx.violation(f'regex lemma: L(profile pattern of {name}) over ASCII == CSS 2.1 keyword list', f'validate({name!r}, {witness!r}) = {verdict}, CSS 2.1 says {want}',
                          verdict != want, {'name': name, 'value': witness})
        else:
            ctx.lemma(f'regex.C13.{name}.ascii_language_equals_css21_keyword_list', 'unknown', 'regex', dt)
        # anchoring
        t0 = time.time()
        if tr.end_anchor == '$' and tr.anchored_start:
            ctx.lemma(f'regex.C13.{name}.anchored', 'discharged', 'regex', 0.0)
        else:
            ctx.lemma(f'regex.C13.{name}.anchored', 'violated', 'regex', 0.0)
            ctx.violation(f'regex lemma: compiled pattern of {name} is anchored at both ends', f'pattern {pat[:60]!r}', False, {'name': name})
        # case-insensitive
        if not (flags & re.I):
            ctx.violation(f'regex lemma: compiled pattern of {name} is case-insensitive', f'flags {flags}', False, {'name': name})
    # the non-ASCII part (recorded finding C13-unicode-fold): some pattern accepts a non-ASCII string
    try:
        still = reg.validate('clear', 'İnherit') or reg.validate('position', 'ſtatic')
    except Exception:
        still = False
    ctx.known_finding('C13-unicode-fold', bool(still))


# ------------------------------------------------------------------ typed properties (length / percentage / number / integer / colour / URI)
def _containing(chars_re):
    return z3.Concat(R.FULL, chars_re, R.FULL)


def _rx(pattern, flags=0):
    return R.translate(pattern, flags).body


def typed_lemmas(ctx):
    """L(real) == L(oracle) on the universe of ASCII strings outside the recorded deviation classes (each a known finding with a
    sharp regular class); a counterexample outside those classes is a violation, replayed through Profiles.validate."""
    from bounded import c13
    import cssutils.profiles as P
    reg = c13.css21_only_registry()
    A = re.A | re.I
    K_plus = _containing(z3.Re(z3.StringVal('+')))
    K_minus = _containing(z3.Re(z3.StringVal('-')))
    K_ws = _containing(_rx(r'[\x0b\x1c-\x1f]'))
    K_zero = z3.Intersect(_rx(r'[+-]?(?:0+|0*\.0+)'), z3.Complement(z3.Re(z3.StringVal('0'))))
    K_uri = z3.Concat(_rx(r'url\(', A), R.FULL)
    used = set()
    for name, g in sorted(c13.G.items()):
        if not g['types']:
            continue
        try:
            f = reg._profilesProperties[P.Profiles.CSS_LEVEL_2][name]
        except KeyError:
            continue  # defined by a CSS3 module only: the CSS 2.1 grammar does not decide the default registry's verdict
        t0 = time.time()
        tr = R.translate(f.pattern, f.flags)
        ctx.functions.add(f'cssutils/profiles.py::properties[CSS_LEVEL_2][{name!r}] (macro-expanded, compiled)')
        parts = [ci_keyword(k) for k in g['kw']]
        for t in g['types']:
            rx = c13.RX[t]
            parts.append(R.translate(rx.pattern, rx.flags).body)
        oracle = z3.Union(*parts)
        excl = [('C13-plus-sign', K_plus), ('C13-unicode-fold', K_ws)]
        if 'length' in g['types']:
            excl.append(('C13-zero-length-spelling', K_zero))
        if 'uri' in g['types']:
            excl.append(('C13-uri-macro', K_uri))
        if g['nonneg']:
            excl.append((None, K_minus))  # range restriction: the grammar table does not decide negative values
        if name in ('min-height', 'min-width'):
            excl.append(('C13-min-size-none', ci_keyword('none')))
        if name == 'color':
            excl.append(('C13-color-transparent', ci_keyword('transparent')))
        for e in g['either'] + g['css3']:
            excl.append((None, ci_keyword(e)))
        universe = z3.Intersect(ASCII_STAR, z3.Complement(z3.Union(*[k for _, k in excl]) if len(excl) > 1 else excl[0][1]))
        st, w, dt = R.equivalent(z3.Intersect(tr.body, universe), z3.Intersect(oracle, universe), timeout_ms=30000)
        dt = time.time() - t0
        lname = f'regex.C13.{name}.language_equals_css21_grammar_outside_recorded_classes'
        if st == 'unsat':
            ctx.lemma(lname, 'discharged', 'regex', dt)
            used.update(k for k, _ in excl if k)
        elif st == 'sat':
            side, witness = w
            verdict = reg.validate(name, witness)
            want = c13.oracle(name, witness, css3=False)
            ctx.lemma(lname, 'violated', 'regex', dt, f'witness {witness!r} ({side})')
            ctx.violation(f'regex lemma: L(profile pattern of {name}) == CSS 2.1 grammar outside the recorded deviation classes',
                          f'validate({name!r}, {witness!r}) = {verdict}, CSS 2.1 grammar table says {want}', verdict != want, {'name': name, 'value': witness})
        else:
            ctx.lemma(lname, 'unknown', 'regex', dt)
    # witnesses of the recorded classes (printed only while they still reproduce)
    W = {'C13-plus-sign': lambda: not reg.validate('z-index', '+1'), 'C13-zero-length-spelling': lambda: not reg.validate('width', '0.0'),
         'C13-uri-macro': lambda: not reg.validate('background-image', 'url()'), 'C13-min-size-none': lambda: reg.validate('min-width', 'none'),
         'C13-color-transparent': lambda: reg.validate('color', 'transparent'), 'C13-unicode-fold': lambda: reg.validate('color', 'rgb(0,0,0\x0b)')}
    for k in sorted(used):
        try:
            ctx.known_finding(k, bool(W[k]()))
        except Exception:
            pass
