"""Sidecar contracts for cssutils/stylesheets/medialist.py (C17, C11): the list as a canonical ordered set of media queries.

The media list is viewed as the sequence of its MediaQuery objects (comments in the item list are not part of the view; the mapping
between view positions and item positions, _mqindexes, is exercised by the bounded check)."""
import xml.dom

from pyvc.api import *
from pyvc import heap as H
from contracts.cssstylesheet import m_log, LogStub

S_ = z3.StringSort()
UF_NORM = z3.Function('css_normalize', S_, S_)


def _schema():
    import cssutils.stylesheets as SS
    if 'mq' not in H.SCHEMAS:
        H.schema('mq', {'mediaType': 'optstr', 'wellformed': 'bool'}, SS.MediaQuery)
    return H.SCHEMAS['mq']


def norm_value(I, x):
    """helper.normalize: None / '' stay as they are, otherwise a function of the text"""
    if isinstance(x, Opt):
        return Opt(x.isnone, norm_value(I, x.val))
    if x is None:
        return None
    if not is_sym(x):
        import cssutils.helper
        return cssutils.helper.normalize(x)
    return Sym('str', z3.If(z3.Length(x.t) == 0, x.t, UF_NORM(x.t)))


def normalize(x):
    import cssutils.helper
    return cssutils.helper.normalize(x)


def mk_list(I):
    import cssutils.stylesheets as SS
    import cssutils.stylesheets.medialist as ML
    import cssutils.util as U
    p = I.p
    p.use_quantifier_mode()
    sch = _schema()
    p.counter += 1
    qs = H.SymList(z3.Array(f'queries0!{p.counter}', z3.IntSort(), z3.IntSort()), z3.Int(f'len0!{p.counter}'), sch)
    p.assume(qs.length >= 0)
    k = H._bound_var(p)
    p.assume(z3.ForAll([k], z3.Implies(z3.And(k >= 0, k < qs.length), z3.Select(qs.elems, k) > 0)))
    a, b = H._bound_var(p), H._bound_var(p)
    p.assume(z3.ForAll([a, b], z3.Implies(z3.And(a >= 0, a < b, b < qs.length), z3.Select(qs.elems, a) != z3.Select(qs.elems, b))))
    p.ghost['RAISE'] = z3.Bool('RAISE')
    xs = z3.String('nx')
    p.assume(z3.ForAll([xs], UF_NORM(UF_NORM(xs)) == UF_NORM(xs), patterns=[UF_NORM(UF_NORM(xs))]))
    p.assume(z3.ForAll([xs], z3.Implies(z3.Length(xs) > 0, z3.Length(UF_NORM(xs)) > 0), patterns=[UF_NORM(xs)]))
    p.note_assumption('helper.normalize is idempotent and maps non-empty media type names to non-empty names (media types are identifiers without backslashes; '
                      'in general normalize is NOT idempotent: normalize("c\\\\\\\\olor") keeps one backslash)')
    me = Obj(SS.MediaList, {'_view': qs, '_readonly': p.fresh('bool', 'readonly'), '_log': Obj(LogStub)})
    M = p.engine.models
    for n in ('error', 'warn', 'info'):
        M[('method', LogStub, n)] = Model(m_log, '_log.%s: contract of _ErrorHandler.__handle' % n, assumed=False)
    M[('iter', SS.MediaList)] = Model(lambda I2, a_, k_: a_[0].fields['_view'], 'MediaList.__iter__ yields the media queries of the item list, in order', assumed=True)
    def delitem(I2, a_, k_):
        I2.p.ghost.setdefault('deleted', []).append(a_[1])
        return H.lst_delete(I2, a_[0].fields['_view'], a_[1])

    p.ghost['deleted'] = []
    M[('method', SS.MediaList, '__delitem__')] = Model(delitem, 'MediaList.__delitem__(i): removes the i-th media query', assumed=True)
    M[ML.normalize] = Model(lambda I2, a_, k_: norm_value(I2, a_[0]), 'helper.normalize', assumed=False)
    M[normalize] = M[ML.normalize]
    p.engine.inline.add(U._BaseClass._checkReadonly)
    return me, qs


@spec
def has_type(q, t):
    return normalize(q.mediaType) == t


DM = register(Target('cssutils/stylesheets/medialist.py', 'MediaList.deleteMedium', ['C17', 'C11']))


@DM.inputs
def _in_dm(I):
    me, qs = mk_list(I)
    return {'self': me, 'oldMedium': I.p.fresh('str', 'oldMedium'), 'qs': qs}


@DM.ensure
def removes_exactly_the_first_entry_of_that_type(qs, oldMedium, old, ghost):
    # (a normal return means an entry was deleted: the position is the ghost record of the one __delitem__ call)
    before = old['qs']
    t = normalize(oldMedium)
    n = len(before)
    if len(ghost['deleted']) == 0:
        # logging mode: the rejection is only logged; nothing may change and no entry has that type
        return len(qs) == n and all(qs[k] is before[k] for k in range(n)) and all(not has_type(before[k], t) for k in range(n))
    i = ghost['deleted'][0]
    return (len(ghost['deleted']) == 1 and 0 <= i and i < n and has_type(before[i], t) and all(not has_type(before[j], t) for j in range(0, i))
            and len(qs) == n - 1 and all(qs[k] is before[k] for k in range(0, i)) and all(qs[k] is before[k + 1] for k in range(i, n - 1)))


@DM.on_raise(xml.dom.NotFoundErr, name='absent_type_is_rejected_and_nothing_changes')
def _dm_nf(qs, oldMedium, old):
    before = old['qs']
    t = normalize(oldMedium)
    return len(qs) == len(before) and all(qs[k] is before[k] for k in range(len(before))) and all(not has_type(before[k], t) for k in range(len(before)))


@DM.on_raise(xml.dom.NoModificationAllowedErr, name='readonly_list_is_unchanged')
def _dm_ro(self, qs, old):
    before = old['qs']
    return self._readonly and len(qs) == len(before) and all(qs[k] is before[k] for k in range(len(before)))


# ------------------------------------------------------------------ appendMedium
class SeqStub:
    pass


def m_delete_medium(I, args, kw):
    """proved contract of deleteMedium (above), applied at the call site: first entry of the type removed, or rejection"""
    me, t = args
    p = I.p
    qs = me.fields['_view']
    if p.choose(truth(me.fields['_readonly'])):
        raise PyRaise(ExcVal(xml.dom.NoModificationAllowedErr))
    tn = norm_value(I, t)
    k = H._bound_var(p)
    sub = SX_interp(I)
    hit_at = lambda idx: SX.as_bool_term(truth(sub_call(I, has_type, qs.at(idx), tn)))
    if p.choose(z3.Exists([k], z3.And(k >= 0, k < qs.length, hit_at(k)))):
        h = H._bound_var(p, 'hit')
        j = H._bound_var(p)
        p.assume(z3.And(h >= 0, h < qs.length, hit_at(h), z3.ForAll([j], z3.Implies(z3.And(j >= 0, j < h), z3.Not(hit_at(j))))))
        p.ghost['deleted'].append(Sym('int', h))
        H.lst_delete(I, qs, Sym('int', h))
        return None
    if p.choose(p.ghost['RAISE']):
        raise PyRaise(ExcVal(xml.dom.NotFoundErr))
    return None


from pyvc import symex as SX


def SX_interp(I):
    return SX.Interp(I.p, spec=True)


def sub_call(I, fn, *args):
    f = SX.func_from_pyfunc(fn, spec=True)
    return SX.Interp(I.p, spec=True).call_func(f, list(args), {})


AM = register(Target('cssutils/stylesheets/medialist.py', 'MediaList.appendMedium', ['C17', 'C11']))


@AM.inputs
def _in_am(I):
    import cssutils.stylesheets as SS
    p = I.p
    me, qs = mk_list(I)
    sch = _schema()
    g = p.ghost
    p.counter += 1
    nid = z3.Int(f'newmq!id!{p.counter}')
    p.assume(nid > 0)
    k = H._bound_var(p)
    p.assume(z3.ForAll([k], z3.Implies(z3.And(k >= 0, k < qs.length), z3.Select(qs.elems, k) != nid)))
    newq = H.SymObj(nid, sch)
    g['prepared'] = None
    seq = Obj(SeqStub)
    seq.plain_setattr = True
    me.fields['_seq'] = seq
    M = p.engine.models

    def prepareset(I2, a_, k_):
        # contract of __prepareset: NoModificationAllowedErr if read-only; a well-formed MediaQuery object, or None (rejected text, logged / raised)
        if I2.p.choose(truth(me.fields['_readonly'])):
            raise PyRaise(ExcVal(xml.dom.NoModificationAllowedErr))
        I2.p.counter += 1
        if I2.p.choose(z3.Bool(f'new_medium_wellformed!{I2.p.counter}')):
            g['prepared'] = newq
            return newq
        if I2.p.choose(g['RAISE']):
            raise PyRaise(ExcVal(xml.dom.SyntaxErr))
        return None

    M[SS.MediaList._MediaList__prepareset] = Model(prepareset, 'MediaList.__prepareset: the new medium as a well-formed MediaQuery, or None / DOM exception', assumed=True)
    M[SS.MediaList.deleteMedium] = Model(m_delete_medium, 'MediaList.deleteMedium (own contract)', assumed=False)
    M[('method', SeqStub, 'append')] = Model(lambda I2, a_, k_: H._append(I2, qs, a_[1]), 'Seq.append(query, "MediaQuery"): appends to the item list', assumed=True)
    M[SS.MediaList._clearSeq] = Model(lambda I2, a_, k_: setattr(qs, 'length', z3.IntVal(0)), '_clearSeq: empties the item list', assumed=True)
    return {'self': me, 'newMedium': p.fresh('str', 'newMedium'), 'qs': qs, 'newq': newq}


@spec
def is_all(q):
    return normalize(q.mediaType) == 'all'


@spec
def unchanged(qs, before):
    return len(qs) == len(before) and all(qs[k] is before[k] for k in range(len(before)))


@spec
def had_all(before):
    return any(is_all(before[k]) for k in range(len(before)))


@AM.ensure
def rejected_medium_changes_nothing(qs, old, ghost, result):
    return implies(ghost['prepared'] is None, result == False and unchanged(qs, old['qs']))


@AM.ensure
def appending_to_all_is_rejected(qs, old, ghost):
    return implies(ghost['prepared'] is not None and had_all(old['qs']), unchanged(qs, old['qs']))


@AM.ensure
def appending_all_makes_the_list_all(qs, newq, old, ghost):
    return implies(ghost['prepared'] is not None and not had_all(old['qs']) and normalize(newq.mediaType) == 'all', len(qs) == 1 and qs[0] is newq)


@AM.ensure
def a_type_already_present_moves_to_the_end(qs, newq, old, ghost):
    before = old['qs']
    n = len(before)
    if len(ghost['deleted']) != 1:
        return True
    i = ghost['deleted'][0]
    return implies(ghost['prepared'] is not None and not had_all(before) and normalize(newq.mediaType) != 'all',
                   has_type(before[i], normalize(newq.mediaType)) and len(qs) == n and qs[n - 1] is newq
                   and all(qs[k] is before[k] for k in range(0, i)) and all(qs[k] is before[k + 1] for k in range(i, n - 1)))


@AM.ensure
def a_new_type_is_appended_at_the_end(qs, newq, old, ghost):
    before = old['qs']
    n = len(before)
    if len(ghost['deleted']) != 0:
        return True
    t = normalize(newq.mediaType)
    return implies(ghost['prepared'] is not None and not had_all(before) and t != 'all',
                   len(qs) == n + 1 and qs[n] is newq and all(qs[k] is before[k] for k in range(n))
                   and (t is None or t == '' or all(not has_type(before[k], t) for k in range(n))))


@AM.on_raise(xml.dom.DOMException, name='rejected_changes_nothing')
def _am_rej(qs, old):
    before = old['qs']
    return len(qs) == len(before) and all(qs[k] is before[k] for k in range(len(before)))
