"""Sidecar contracts for encutils/__init__.py (C20)."""
import re

from pyvc.api import *
from pyvc.target import contract_model, fresh_of
from pyvc import regexlang as R

XML_APP, XML_TEXT, HTML, TEXT, OTHER, TEXT_UTF8 = 0, 1, 2, 3, 4, 5


class LogStub:
    pass


def _log_models():
    m = Model(lambda I, a, k: None, 'logging.Logger method (no observable effect)', assumed=True)
    return {('method', LogStub, n): m for n in ('info', 'debug', 'warning', 'warn', 'error')}


def opt_log(I):
    I.p.counter += 1
    return Opt(z3.Bool(f'log!isnone!{I.p.counter}'), Obj(LogStub))


# ------------------------------------------------------------------ spec helper: regex membership, natively and symbolically
def rx_prefix(pattern, s):
    """re.match(pattern, s) succeeds (prefix match), with IGNORECASE|DOTALL"""
    return re.match(pattern, s, re.I | re.S) is not None


def m_rx_prefix(I, args, kw):
    pat, s = args
    if not is_sym(s):
        return rx_prefix(pat, s)
    tr = R.translate(pat, re.I | re.S)
    return Sym('bool', z3.InRe(lift(s), tr.match_language()))


SPEC_MODELS = {rx_prefix: Model(m_rx_prefix, 'rx_prefix', assumed=False)}


# ------------------------------------------------------------------ _getTextTypeByMediaType
@spec
def texttype_spec(media_type):
    """the media-type classes of the statement, on the stripped lower-cased media type"""
    if not media_type:
        return OTHER
    m = media_type.strip().lower()
    if m == 'application/xml' or m == 'application/xml-dtd' or m == 'application/xml-external-parsed-entity' or rx_prefix(r'application/.*\+xml', m):
        return XML_APP
    if m == 'text/xml' or m == 'text/xml-external-parsed-entity' or rx_prefix(r'text/.*\+xml', m):
        return XML_TEXT
    if m == 'text/html':
        return HTML
    if m == 'text/css':
        return TEXT_UTF8
    if m[0:5] == 'text/':
        return TEXT
    return OTHER


TT = register(Target('encutils/__init__.py', '_getTextTypeByMediaType', ['C20'], module='encutils'))
TT.models.update(SPEC_MODELS)
TT.models.update(_log_models())


@TT.inputs
def _in_tt(I):
    return {'media_type': I.p.fresh_opt('str', 'media_type'), 'log': opt_log(I)}


@TT.require
def media_type_has_no_backslash(media_type):
    # RFC 2045 tokens never contain a backslash; excludes the quirk that a media type literally equal to the source text
    # of the two regular expressions (they sit in the same list as the literal types) is classified as XML
    return media_type is None or '\\' not in media_type.strip().lower()


@TT.ensure
def classifies_by_media_type_class(media_type, result):
    return result == texttype_spec(media_type)


TT.native_call = lambda mod, c, m: ('return', mod._getTextTypeByMediaType(c['media_type']))


# ------------------------------------------------------------------ _getTextType
@spec
def looks_like_xml(text):
    return '<?xml version=' in text[0:30]


TX = register(Target('encutils/__init__.py', '_getTextType', ['C20'], module='encutils'))


@TX.inputs
def _in_tx(I):
    return {'text': I.p.fresh('str', 'text'), 'log': None}


@TX.ensure
def xml_iff_declaration_in_first_30(text, result):
    return result == (XML_APP if looks_like_xml(text) else OTHER)


TX.native_call = lambda mod, c, m: ('return', mod._getTextType(c['text']))


# ------------------------------------------------------------------ encodingByMediaType
@spec
def default_encoding(tt):
    """media-type defaults of the statement: UTF-8 for the application/xml family and text/css, ASCII for the text/xml
    family, ISO-8859-1 for text/html and other text/*, none otherwise"""
    if tt == XML_APP or tt == TEXT_UTF8:
        return 'utf-8'
    if tt == XML_TEXT:
        return 'ascii'
    if tt == HTML or tt == TEXT:
        return 'iso-8859-1'
    return None


EM = register(Target('encutils/__init__.py', 'encodingByMediaType', ['C20'], module='encutils'))
EM.models.update(SPEC_MODELS)
EM.models.update(_log_models())


def _tt_model():
    import encutils as E
    return {E._getTextTypeByMediaType: contract_model(TT, 'int', ['media_type', 'log'])}


def _with_default_log(fn):
    def wrapped(I, args, kwargs):
        args = list(args)
        if len(args) < 2 and 'log' not in kwargs:
            args.append(None)
        return fn(I, args, kwargs)
    return wrapped


@EM.inputs
def _in_em(I):
    import encutils as E
    cm = contract_model(TT, 'int', ['media_type', 'log'])
    I.p.engine.models[E._getTextTypeByMediaType] = Model(_with_default_log(cm.fn), cm.name, assumed=False)
    return {'media_type': I.p.fresh_opt('str', 'media_type'), 'log': opt_log(I)}


EM.require(media_type_has_no_backslash)


@EM.ensure
def default_by_class(media_type, result):
    return result == default_encoding(texttype_spec(media_type))


EM.native_call = lambda mod, c, m: ('return', mod.encodingByMediaType(c['media_type']))


# ------------------------------------------------------------------ getHTTPInfo
class ResponseStub:
    pass


class InfoStub:
    pass


HI = register(Target('encutils/__init__.py', 'getHTTPInfo', ['C20'], module='encutils'))
HI.models.update(_log_models())


@HI.inputs
def _in_hi(I):
    ct = I.p.fresh_opt('str', 'content_type')
    cs = I.p.fresh_opt('str', 'charset')
    info = Obj(InfoStub)
    resp = Obj(ResponseStub)
    I.p.engine.models[('method', ResponseStub, 'info')] = Model(lambda I2, a, k: info, 'response.info() returns the header object', assumed=True)
    I.p.engine.models[('method', InfoStub, 'get_content_type')] = Model(lambda I2, a, k: ct, 'email.message get_content_type', assumed=True)
    I.p.engine.models[('method', InfoStub, 'get_content_charset')] = Model(lambda I2, a, k: cs, 'email.message get_content_charset', assumed=True)
    return {'response': resp, 'log': opt_log(I), 'ct': ct, 'cs': cs, '__args__': [resp, None]}


@HI.ensure
def media_type_and_lowercase_charset(ct, cs, result):
    return result[0] == ct and result[1] == (cs.lower() if cs else cs)


# ------------------------------------------------------------------ detectXMLEncoding
class FileStub:
    """file object: content (str, chars stand for bytes or characters) and a position"""


XD_PATTERN = None


def _file_models(I, fobj):
    p = I.p

    def tell(I2, a, k):
        return a[0].fields['pos']

    def seek(I2, a, k):
        a[0].fields['pos'] = a[1]
        return a[1]

    def read(I2, a, k):
        f = a[0]
        n = a[1] if len(a) > 1 else None
        content, pos = f.fields['content'], f.fields['pos']
        c, pv = lift(content), (pos.t if isinstance(pos, Sym) else z3.IntVal(pos))
        L = z3.Length(c)
        if n is None:
            r = Sym('str', z3.SubString(c, pv, L - pv))
        else:
            r = Sym('str', z3.SubString(c, pv, z3.IntVal(n)))
        newpos = z3.If(pv + z3.Length(r.t) > L, L, pv + z3.Length(r.t))
        f.fields['pos'] = Sym('int', z3.simplify(newpos))
        return r

    for name, fn in (('tell', tell), ('seek', seek), ('read', read)):
        p.engine.models[('method', FileStub, name)] = Model(fn, f'file object .{name}(): content/position semantics of io.StringIO/BytesIO', assumed=True)


BOMS = [('\x00\x00\xfe\xff', 'utf_32_be'), ('\xff\xfe\x00\x00', 'utf_32_le'), ('\xfe\xff', 'utf_16_be'), ('\xff\xfe', 'utf_16_le'), ('\xef\xbb\xbf', 'utf-8')]

XMLDECL = r'<\?xml.+?encoding=["\']([^"\']+)["\'].*?\?>'


def declared_encoding(buf):
    """the encoding pseudo-attribute of an XML declaration at the very start, or None (oracle, natively evaluated)"""
    m = re.match(XMLDECL, buf)
    return m.group(1) if m else None


@spec
def bom_encoding(head):
    if head[0:4] == '\x00\x00\xfe\xff':
        return 'utf_32_be'
    if head[0:4] == '\xff\xfe\x00\x00':
        return 'utf_32_le'
    if head[0:2] == '\xfe\xff':
        return 'utf_16_be'
    if head[0:2] == '\xff\xfe':
        return 'utf_16_le'
    if head[0:3] == '\xef\xbb\xbf':
        return 'utf-8'
    return None


DX = register(Target('encutils/__init__.py', 'detectXMLEncoding', ['C20'], module='encutils'))
DX.models.update(_log_models())


def _m_map_ord(I, args, kw):
    fn, s = args
    if fn is not ord:
        raise Unsupported('map() other than map(ord, s)')
    s = I.need(s)
    if not is_sym(s):
        return SList([ord(c) for c in s])
    for n in range(0, 9):
        if I.p.choose(z3.Length(s.t) == n):
            return SList([Sym('int', z3.StrToCode(z3.SubString(s.t, i, 1))) for i in range(n)])
    raise Unsupported('map(ord, s) over a string longer than 8')


@DX.inputs
def _in_dx(I):
    import encutils as E
    p = I.p
    content = p.fresh('str', 'content')
    pos = p.fresh('int', 'pos')
    p.assume(z3.And(pos.t >= 0, pos.t <= z3.Length(content.t)))
    f = Obj(FileStub, {'content': content, 'pos': pos})
    _file_models(I, f)
    p.engine.models[map] = Model(_m_map_ord, 'map(ord, s)', assumed=False)
    # the declaration regex: group('encstr') is modelled through the assumed `re` contract below
    p.engine.models['re.Match.group'] = Model(_m_group_encstr, 're.Match.group(name): the named group of the XML declaration pattern', assumed=True)
    inc = p.fresh('bool', 'includeDefault')
    return {'fp': f, 'log': opt_log(I), 'includeDefault': inc, 'content': content, 'pos': pos}


UF_ENCSTR = z3.Function('xmldecl_encstr', z3.StringSort(), z3.StringSort())


def _m_group_encstr(I, args, kw):
    m = args[0]
    return Sym('str', UF_ENCSTR(lift(m.fields['found'])))


@DX.ensure
def stream_position_untouched(fp, pos):
    return fp.pos == pos


@DX.ensure
def bom_wins(content, result):
    b = bom_encoding(content[0:4])
    return implies(len(content) >= 4 and b is not None, result == b)


@DX.ensure
def default_only_if_requested(includeDefault, result):
    return implies(result is None, not includeDefault)


@DX.on_raise(ValueError, name='known_short_input')
def _dx_short(content, fp, pos):
    # recorded class C20-xml-short-input: fewer than 4 characters cannot be unpacked into 4 byte values
    return len(content) < 4


def _dx_native(mod, c, model):
    import io
    content = c['content']
    f = io.StringIO(content)
    f.seek(c['pos'])
    try:
        r = mod.detectXMLEncoding(f, None, c['includeDefault'])
    except Exception as e:
        return ('raise', e, {'fp': _P(f.tell())})
    return ('return', r, {'fp': _P(f.tell())})


class _P:
    def __init__(self, pos):
        self.pos = pos


DX.native_call = _dx_native


def has_decl(buf):
    return re.match(XMLDECL, buf) is not None


def m_has_decl(I, args, kw):
    s = args[0]
    if not is_sym(s):
        return has_decl(s)
    return Sym('bool', z3.InRe(lift(s), R.translate(XMLDECL, 0).match_language()))


DX.models[has_decl] = Model(m_has_decl, 'has_decl', assumed=False)


@DX.ensure
def no_bom_no_declaration_gives_default(content, includeDefault, result):
    return implies(len(content) >= 4 and bom_encoding(content[0:4]) is None and not has_decl(content[0:2048]),
                   result == ('utf-8' if includeDefault else None))


@DX.ensure
def declaration_found_gives_an_encoding(content, result):
    return implies(len(content) >= 4 and bom_encoding(content[0:4]) is None and has_decl(content[0:2048]), result is not None)


@DX.on_raise(ValueError, name='position_restored')
def _dx_short_pos(fp, pos):
    return fp.pos == pos


# second instance: the document given as text (wrapped in io.StringIO by the function itself)
import io as _io

DXS = register(Target('encutils/__init__.py', 'detectXMLEncoding', ['C20'], module='encutils', name='encutils/__init__.py::detectXMLEncoding[str]'))
DXS.models.update(_log_models())
DXS.models[has_decl] = DX.models[has_decl]


def _new_stringio(I, args, kw):
    f = Obj(FileStub, {'content': args[0] if args else '', 'pos': 0})
    return f


@DXS.inputs
def _in_dxs(I):
    p = I.p
    content = p.fresh('str', 'content')
    _file_models(I, None)
    p.engine.models[map] = Model(_m_map_ord, 'map(ord, s)', assumed=False)
    p.engine.models['re.Match.group'] = Model(_m_group_encstr, 're.Match.group(name): the named group of the XML declaration pattern', assumed=True)
    p.engine.models[('new', _io.StringIO)] = Model(_new_stringio, 'io.StringIO(text): file object over text at position 0', assumed=True)
    return {'fp': content, 'log': opt_log(I), 'includeDefault': p.fresh('bool', 'includeDefault'), 'content': content}


for _cl in (bom_wins, default_only_if_requested, no_bom_no_declaration_gives_default, declaration_found_gives_an_encoding):
    DXS.ensure(_cl)


@DXS.on_raise(ValueError, name='known_short_input')
def _dxs_short(content):
    return len(content) < 4


def _dxs_native(mod, c, model):
    try:
        return ('return', mod.detectXMLEncoding(c['content'], None, c['includeDefault']))
    except Exception as e:
        return ('raise', e)


DXS.native_call = _dxs_native

# ------------------------------------------------------------------ getMetaInfo
GM = register(Target('encutils/__init__.py', 'getMetaInfo', ['C20'], module='encutils'))
GM.models.update(_log_models())


class ParserStub:
    pass


class MessageStub:
    pass


@GM.inputs
def _in_gm(I):
    import encutils as E
    p = I.p
    ctype = p.fresh_opt('str', 'meta_content')  # what the parser found in <meta http-equiv=content-type content=...>
    mt = p.fresh('str', 'meta_media_type')
    cs = p.fresh_opt('str', 'meta_charset')
    parser = Obj(ParserStub, {'content_type': ctype})
    msg = Obj(MessageStub)
    p.engine.models[('new', E._MetaHTMLParser)] = Model(lambda I2, a, k: parser, '_MetaHTMLParser(): content_type holds the content attribute of the first content-type meta element, lower-cased, or None (bounded check)', assumed=True)
    p.engine.models[('method', ParserStub, 'feed')] = Model(lambda I2, a, k: None, 'HTMLParser.feed', assumed=True)
    p.engine.models[('new', E.Message)] = Model(lambda I2, a, k: msg, 'email.message.Message()', assumed=True)
    p.engine.models[('method', MessageStub, '__setitem__')] = Model(lambda I2, a, k: None, 'Message[...] = value', assumed=True)
    p.engine.models[('method', MessageStub, 'get_content_type')] = Model(lambda I2, a, k: mt, 'Message.get_content_type', assumed=True)
    p.engine.models[('method', MessageStub, 'get_param')] = Model(lambda I2, a, k: cs, 'Message.get_param(charset)', assumed=True)
    return {'text': p.fresh('str', 'text'), 'log': opt_log(I), 'ctype': ctype, 'mt': mt, 'cs': cs}


@GM.ensure
def media_type_and_lowercase_charset_or_nothing(ctype, mt, cs, result):
    if ctype:
        return result[0] == mt and result[1] == (cs.lower() if cs else cs)
    return result == (None, None)


# ------------------------------------------------------------------ getEncodingInfo: the decision chain
@spec
def truthy(x):
    return x is not None and x != ''


@spec
def chain_spec(tt, http_enc, xml, meta, media_default, trial):
    """the documented precedence: transport charset first; application/xml family -> XML encoding; text/html -> meta,
    media-type default, trial decoding; text/xml family, text/css, other text/* -> media-type default"""
    if truthy(http_enc):
        return http_enc
    if tt == XML_APP:
        return xml
    if tt == HTML:
        if truthy(meta):
            return meta
        if truthy(media_default):
            return media_default
        return trial
    if tt == XML_TEXT or tt == TEXT or tt == TEXT_UTF8:
        return media_default
    return http_enc


@spec
def differ(a, b):
    return truthy(a) and truthy(b) and a != b


@spec
def mismatch_spec(http_enc, xml, meta):
    return differ(http_enc, xml) or differ(http_enc, meta) or differ(xml, meta)


GE = register(Target('encutils/__init__.py', 'getEncodingInfo', ['C20'], module='encutils'))
GE.models.update(_log_models())

UF_TT = z3.Function('texttype_of_media', z3.StringSort(), z3.IntSort())


@GE.inputs
def _in_ge(I):
    import encutils as E
    p = I.p
    g = p.ghost
    http_media = p.fresh_opt('str', 'http_media_type')
    http_enc = p.fresh_opt('str', 'http_encoding')
    meta_media = p.fresh_opt('str', 'meta_media_type')
    meta_enc = p.fresh_opt('str', 'meta_encoding')
    trial = p.fresh_opt('str', 'trial_encoding')
    tt_http = p.fresh('int', 'texttype_http')
    tt_text = p.fresh('int', 'texttype_text')
    p.assume(z3.And(tt_http.t >= 0, tt_http.t <= 5, z3.Or(tt_text.t == XML_APP, tt_text.t == OTHER)))
    xml_raw = p.fresh_opt('str', 'xml_sniffed')  # BOM or declared encoding, None if neither
    g['xml_seen'] = None
    g['meta_seen'] = None
    g['called'] = []

    def m_http(I2, a, k):
        g['called'].append('getHTTPInfo')
        return (http_media, http_enc)

    def m_tt(I2, a, k):
        # proved contract of _getTextTypeByMediaType, with the classification itself kept opaque
        if not (a[0] is http_media):
            raise Unsupported('texttype of something else than the transport media type')
        return tt_http

    def m_ttext(I2, a, k):
        return tt_text

    def m_xml(I2, a, k):
        inc = k.get('includeDefault', a[2] if len(a) > 2 else True)
        g['called'].append('detectXMLEncoding')
        I2.p.counter += 1
        if I2.p.choose(z3.Bool(f'xml_raises!{I2.p.counter}')):
            g['xml_seen'] = None
            raise PyRaise(ExcVal(ValueError))
        r = ite_value(xml_raw.isnone, ('utf-8' if inc else None), xml_raw.val) if True else None
        g['xml_seen'] = r
        return r

    def m_meta(I2, a, k):
        g['called'].append('getMetaInfo')
        g['meta_seen'] = meta_enc
        return (meta_media, meta_enc)

    def m_default(I2, a, k):
        if not (a[0] is http_media):
            raise Unsupported('media-type default of something else than the transport media type')
        # proved contract of encodingByMediaType over the same opaque classification
        return Interp_spec_call(I2, default_encoding, [tt_http])

    def m_try(I2, a, k):
        return trial

    M = p.engine.models
    M[E.getHTTPInfo] = Model(m_http, 'getHTTPInfo (own contract)', assumed=False)
    M[E._getTextTypeByMediaType] = Model(m_tt, '_getTextTypeByMediaType (own contract; classification opaque here)', assumed=False)
    M[E._getTextType] = Model(m_ttext, '_getTextType (own contract: XML_APP or OTHER)', assumed=False)
    M[E.detectXMLEncoding] = Model(m_xml, 'detectXMLEncoding (own contract: None only without default; may raise ValueError/AttributeError)', assumed=False)
    M[E.getMetaInfo] = Model(m_meta, 'getMetaInfo (own contract)', assumed=False)
    M[E.encodingByMediaType] = Model(m_default, 'encodingByMediaType (own contract)', assumed=False)
    M[E.tryEncodings] = Model(m_try, 'tryEncodings: returns an encoding name or None (bounded check)', assumed=True)
    M[E.buildlog] = Model(lambda I2, a, k: Obj(LogStub), 'buildlog returns a logger', assumed=True)
    M[('new', _io.StringIO)] = Model(lambda I2, a, k: Obj(FileStub, {'content': '', 'pos': 0}), 'io.StringIO()', assumed=True)
    M[('method', FileStub, 'getvalue')] = Model(lambda I2, a, k: I2.p.fresh('str', 'logtext'), 'StringIO.getvalue', assumed=True)
    p.engine.inline.add(E.EncodingInfo)
    p.counter += 1
    response = Opt(z3.Bool(f'response!isnone!{p.counter}'), Obj(ResponseStub))
    return {'response': response, 'text': p.fresh('str', 'text'), 'log': opt_log(I), 'url': None,
            'http_enc': http_enc, 'tt_http': tt_http, 'tt_text': tt_text, 'trial': trial}


def Interp_spec_call(I, fn, args):
    from pyvc import symex as SX
    f = SX.func_from_pyfunc(fn, spec=True)
    return SX.Interp(I.p, spec=True).call_func(f, list(args), {})


@spec
def effective(response, http_enc, tt_http, tt_text):
    """(text type, transport charset) that apply: from the transport if there is a response, else from the text"""
    if response is not None:
        return (tt_http, http_enc)
    return (tt_text, None)


@GE.ensure
def encoding_follows_documented_precedence(response, http_enc, tt_http, tt_text, trial, ghost, result):
    e = effective(response, http_enc, tt_http, tt_text)
    return result.encoding == chain_spec(e[0], e[1], ghost['xml_seen'], ghost['meta_seen'], default_encoding(e[0]), trial)


@GE.ensure
def mismatch_iff_two_known_sources_differ(response, http_enc, tt_http, tt_text, ghost, result):
    e = effective(response, http_enc, tt_http, tt_text)
    return result.mismatch == mismatch_spec(e[1], ghost['xml_seen'], ghost['meta_seen'])


@GE.ensure
def sniffers_used_only_where_documented(response, tt_http, tt_text, http_enc, ghost, result):
    e = effective(response, http_enc, tt_http, tt_text)
    # XML sniffing for the application/xml family and text/html only (text/xml ignores the declaration); meta for text/html and other text/*
    return (('detectXMLEncoding' in ghost['called']) == (e[0] == XML_APP or e[0] == HTML)) and \
           (('getMetaInfo' in ghost['called']) == (e[0] == HTML or e[0] == TEXT))
