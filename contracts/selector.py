"""Sidecar contracts for cssutils/css/selector.py (C16, C15): counting of specificity while items are appended."""
import xml.dom

from pyvc.api import *
from contracts.cssstylesheet import m_log, LogStub


class SeqStub:
    pass


class NsStub:
    pass


def m_split(I, args, kw):
    """str.split(sep) for a one-character separator: exact for at most two parts (what the call site unpacks)"""
    s, sep = args[0], args[1]
    if not isinstance(sep, str) or len(sep) != 1:
        raise Unsupported('split with this separator')
    t = lift(s)
    c = mk_str(sep)
    i = z3.IndexOf(t, c, 0)
    if I.p.choose(i < 0):
        return SList([s])
    rest = z3.SubString(t, i + 1, z3.Length(t) - i - 1)
    if I.p.choose(z3.IndexOf(rest, c, 0) < 0):
        return SList([Sym('str', z3.SubString(t, 0, i)), Sym('str', rest)])
    return SList([Sym('str', z3.SubString(t, 0, i)), Sym('str', rest), I.p.fresh('str', 'more_parts')])  # three or more parts: unpacking into two fails


AP = register(Target('cssutils/css/selector.py', 'New.append', ['C16', 'C15']))


@AP.inputs
def _in_ap(I):
    import cssutils.css.selector as S
    p = I.p
    g = p.ghost
    g['RAISE'] = z3.Bool('RAISE')
    g['appended'] = []
    top = p.fresh('str', 'context_top')
    spec0 = [p.fresh('int', f'spec{i}') for i in range(4)]
    ns = Obj(NsStub)
    uri = p.fresh_opt('str', 'namespace_uri_of_prefix')
    default_uri = p.fresh_opt('str', 'default_namespace_uri')
    me = Obj(S.New, {'context': SList([p.fresh('str', 'context_below'), top]), '_PREFIX': p.fresh_opt('str', 'saved_prefix'), 'specificity': SList(list(spec0)),
                     'namespaces': ns, 'element': p.fresh_opt('str', 'element'), 'wellformed': p.fresh('bool', 'wellformed'), '_log': Obj(LogStub)})
    me.plain_setattr = True
    seq = Obj(SeqStub)
    M = p.engine.models
    M[('method', SeqStub, 'append')] = Model(lambda I2, a, k: g['appended'].append((a[1], a[2] if len(a) > 2 else k.get('typ'))), 'Seq.append(val, typ, line, col): stores one item', assumed=True)
    M[('method', NsStub, 'get')] = Model(lambda I2, a, k: default_uri, 'namespaces.get(\'\', None): default namespace or None', assumed=True)
    M[('method', NsStub, '__getitem__')] = Model(lambda I2, a, k: uri, 'namespaces[prefix]: URI or None (_SimpleNamespaces)', assumed=True)
    for n in ('error', 'warn', 'info'):
        M[('method', LogStub, n)] = Model(m_log, '_log.%s: contract of _ErrorHandler.__handle' % n, assumed=False)
    M['str.split'] = Model(m_split, 'str.split', assumed=False)
    M[('getattr', id(__import__('cssutils')), '_ANYNS')] = Model(lambda I2, a, k: -1, 'cssutils._ANYNS', assumed=False)
    tok_none = p.fresh('bool', 'token_is_none')
    token = None if p.choose(tok_none.t) else (p.fresh('str', 'tt'), p.fresh('str', 'tv'), p.fresh('int', 'tl'), p.fresh('int', 'tc'))
    return {'self': me, 'seq': seq, 'val': p.fresh('str', 'val'), 'typ': p.fresh('str', 'typ'), 'token': token, 'top': top, 'spec0': tuple(spec0)}


@spec
def counts(top, typ, val):
    """(ids, classes+attributes, types+pseudo-elements) this item adds - the statement's formula: counted in every compound part and
    inside :not(), not inside [ ] or a functional pseudo"""
    if not (top == '' or top == 'negation'):
        return (0, 0, 0)
    if typ == 'id':
        return (1, 0, 0)
    if typ == 'class' or (typ == 'attribute-start' and val == '['):
        return (0, 1, 0)
    if typ == 'type-selector' or typ == 'negation-type-selector' or typ == 'pseudo-element':
        return (0, 0, 1)
    return (0, 0, 0)


@AP.require
def bracket_value_is_attribute_start(typ, val):
    # the only caller that passes '[' as value is the attribute-start production (New._char); other items never have that value
    return (val == '[') == (typ == 'attribute-start')


@AP.ensure
def specificity_grows_by_the_statement_formula(self, top, typ, val, spec0, ghost):
    c = counts(top, typ, val)
    appended = len(ghost['appended']) == 1
    s = self.specificity
    return (s[0] == spec0[0]
            and ((appended and s[1] == spec0[1] + c[0] and s[2] == spec0[2] + c[1] and s[3] == spec0[3] + c[2])
                 or ((not appended) and s[1] == spec0[1] and s[2] == spec0[2] and s[3] == spec0[3])))


@AP.ensure
def appends_one_item_of_that_type_or_nothing(typ, ghost, self):
    return (len(ghost['appended']) == 1 and ghost['appended'][0][1] == typ) or (len(ghost['appended']) == 0 and (typ == '_PREFIX' or not self.wellformed))


AP.allow_raise(xml.dom.NamespaceErr)
AP.allow_raise(ValueError)
