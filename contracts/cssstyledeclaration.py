"""Sidecar contracts for cssutils/css/cssstyledeclaration.py (C10, C11, C13): the ordered-multimap-with-cascade model."""
from pyvc.api import *
from pyvc import heap as H
from pyvc import symex as SX

PROP, OTHER = 0, 1
S_ = z3.StringSort()
UF_NORM = z3.Function('css_normalize', S_, S_)  # helper.normalize: lower case, simple escapes removed (own contract: idempotent)


class CommentStub:
    pass


def _schemas():
    import cssutils.css as C
    if 'item' not in H.SCHEMAS:
        iv = H.schema('ival', {'kind': 'int', 'name': 'str', 'literalname': 'str', 'priority': 'str'}, C.Property)
        iv.class_field = 'kind'
        iv.class_by_type = {PROP: C.Property, OTHER: C.CSSComment}
        H.schema('item', {'type': 'str', 'value': ('ref', 'ival')}, None)
    return H.SCHEMAS['item'], H.SCHEMAS['ival']


def mk_decl(I):
    import cssutils.css as C
    import cssutils.util as U
    p = I.p
    p.use_quantifier_mode()
    item, ival = _schemas()
    p.counter += 1
    seq = H.SymList(z3.Array(f'seq0!{p.counter}', z3.IntSort(), z3.IntSort()), z3.Int(f'len0!{p.counter}'), item)
    p.assume(seq.length >= 0)
    k = H._bound_var(p)
    varr = H.heap_array(p, item, 'value')
    karr = H.heap_array(p, ival, 'kind')
    # every item holds a value object: a Property or something else (comment)
    p.assume(z3.ForAll([k], z3.Implies(z3.And(k >= 0, k < seq.length), z3.And(z3.Select(seq.elems, k) > 0, z3.Select(varr, z3.Select(seq.elems, k)) > 0))))
    x = H._bound_var(p)
    p.assume(z3.ForAll([x], z3.Or(z3.Select(karr, x) == PROP, z3.Select(karr, x) == OTHER)))
    me = Obj(C.CSSStyleDeclaration, {'_seq': seq, '_readonly': p.fresh('bool', 'readonly')})
    M = p.engine.models
    M[U.Base._normalize] = Model(lambda I2, a, k_: _norm(I2, a[-1]), 'Base._normalize = helper.normalize (own contract)', assumed=False)
    M[('getattr', C.CSSStyleDeclaration, '_normalize')] = Model(lambda I2, a, k_: Model(lambda I3, a3, k3: _norm(I3, a3[-1]), 'normalize'), 'self._normalize', assumed=False)
    return me, seq


def _norm(I, x):
    x = I.need(x)
    if not is_sym(x):
        import cssutils.helper
        return cssutils.helper.normalize(x)
    return Sym('str', UF_NORM(lift(x)))


def normalize(x):
    import cssutils.helper
    return cssutils.helper.normalize(x)


SPEC_MODELS = {normalize: Model(lambda I, a, k: _norm(I, a[0]), 'normalize', assumed=False)}


def sp(I, fn, *args):
    """evaluate a @spec function symbolically (for invariants written against the interpreter API)"""
    f = SX.func_from_pyfunc(fn, spec=True)
    v = SX.Interp(I.p, spec=True).call_func(f, list(args), {})
    return SX.as_bool_term(truth(v))


# ------------------------------------------------------------------ the model of the statement
@spec
def is_match(item, name, normalized):
    """the entry is a property addressed by `name` (normalised comparison, or literal spelling)"""
    from cssutils.css import Property
    v = item.value
    return isinstance(v, Property) and ((normalized and normalize(name) == v.name) or name == v.literalname)


@spec
def is_important_match(item, name, normalized):
    return is_match(item, name, normalized) and item.value.priority != ''


@spec
def effective(seq, name, normalized, result):
    """result is the effective property: the last entry with non-empty priority among the matching ones, else the last matching entry,
    else None"""
    n = len(seq)
    return ((result is None and all(not is_match(seq[k], name, normalized) for k in range(n)))
            or any(result is seq[k].value and is_important_match(seq[k], name, normalized)
                   and all(not is_important_match(seq[j], name, normalized) for j in range(k + 1, n)) for k in range(n))
            or (all(not is_important_match(seq[j], name, normalized) for j in range(n))
                and any(result is seq[k].value and is_match(seq[k], name, normalized)
                        and all(not is_match(seq[j], name, normalized) for j in range(k + 1, n)) for k in range(n))))


# ------------------------------------------------------------------ getProperty
GP = register(Target('cssutils/css/cssstyledeclaration.py', 'CSSStyleDeclaration.getProperty', ['C10']))
GP.models.update(SPEC_MODELS)


@GP.inputs
def _in_gp(I):
    me, seq = mk_decl(I)
    return {'self': me, 'name': I.p.fresh('str', 'name'), 'normalize': I.p.fresh('bool', 'normalize'), 'seq': seq}


def _gp_inv(I, fr, it):
    p = I.p
    seq = it.view.base
    name, normalized = fr.lookup('name'), fr.lookup('normalize')
    found = fr.lookup('found')
    k, m, j = H._bound_var(p), H._bound_var(p), H._bound_var(p)
    match = lambda idx: sp(I, is_match, seq.at(idx), name, normalized)
    imp = lambda idx: sp(I, is_important_match, seq.at(idx), name, normalized)
    f_none = found.isnone if isinstance(found, Opt) else z3.BoolVal(found is None)
    f_id = H.obj_id(p, found)
    vid = lambda idx: H.obj_id(p, H.read_field(I, seq.at(idx), 'value'))
    return z3.And(
        z3.ForAll([k], z3.Implies(it.done(k), z3.Not(imp(k)))),
        f_none == z3.ForAll([k], z3.Implies(it.done(k), z3.Not(match(k)))),
        z3.Implies(z3.Not(f_none), z3.Exists([m], z3.And(it.done(m), f_id == vid(m), match(m), z3.ForAll([j], z3.Implies(z3.And(it.done(j), j > m), z3.Not(match(j))))))))


def _gp_havoc_found(I, fr):
    item, ival = _schemas()
    p = I.p
    p.counter += 1
    fid = z3.Int(f'found!ref!{p.counter}')
    fr.store('found', Opt(fid == 0, H.SymObj(fid, ival)))


GP.loops[('loop', 1)] = {'name': 'reversed_scan', 'inv': _gp_inv, 'havoc': ['val', 'item'], 'havoc_extra': [_gp_havoc_found]}


@GP.ensure
def returns_the_effective_property(seq, name, normalize, result):
    return effective(seq, name, normalize, result)
