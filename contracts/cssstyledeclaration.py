"""Sidecar contracts for cssutils/css/cssstyledeclaration.py (C10, C11, C13): the ordered-multimap-with-cascade model."""
from pyvc.api import *
from pyvc import heap as H
from pyvc import symex as SX

PROP, OTHER = 0, 1
S_ = z3.StringSort()
UF_NORM = z3.Function('css_normalize', S_, S_)  # helper.normalize: lower case, simple escapes removed (own contract: idempotent)


class CommentStub:
    pass


def _schemas():
    import cssutils.css as C
    if 'item' not in H.SCHEMAS:
        iv = H.schema('ival', {'kind': 'int', 'name': 'str', 'literalname': 'str', 'priority': 'str', 'value': 'str'}, C.Property)
        iv.class_field = 'kind'
        iv.class_by_type = {PROP: C.Property, OTHER: C.CSSComment}
        H.schema('item', {'type': 'str', 'value': ('ref', 'ival')}, None)
    return H.SCHEMAS['item'], H.SCHEMAS['ival']


def mk_decl(I):
    import cssutils.css as C
    import cssutils.util as U
    p = I.p
    p.use_quantifier_mode()
    item, ival = _schemas()
    p.counter += 1
    seq = H.SymList(z3.Array(f'seq0!{p.counter}', z3.IntSort(), z3.IntSort()), z3.Int(f'len0!{p.counter}'), item)
    p.assume(seq.length >= 0)
    k = H._bound_var(p)
    varr = H.heap_array(p, item, 'value')
    karr = H.heap_array(p, ival, 'kind')
    # every item holds a value object: a Property or something else (comment)
    p.assume(z3.ForAll([k], z3.Implies(z3.And(k >= 0, k < seq.length), z3.And(z3.Select(seq.elems, k) > 0, z3.Select(varr, z3.Select(seq.elems, k)) > 0))))
    x = H._bound_var(p)
    p.assume(z3.ForAll([x], z3.Or(z3.Select(karr, x) == PROP, z3.Select(karr, x) == OTHER)))
    me = Obj(C.CSSStyleDeclaration, {'_seq': seq, '_readonly': p.fresh('bool', 'readonly')})
    M = p.engine.models
    M[U.Base._normalize] = Model(lambda I2, a, k_: _norm(I2, a[-1]), 'Base._normalize = helper.normalize (own contract)', assumed=False)
    M[('getattr', C.CSSStyleDeclaration, '_normalize')] = Model(lambda I2, a, k_: Model(lambda I3, a3, k3: _norm(I3, a3[-1]), 'normalize'), 'self._normalize', assumed=False)
    return me, seq


def _norm(I, x):
    if x is None:
        return None  # helper.normalize returns a falsy argument unchanged
    if isinstance(x, Opt):
        return Opt(x.isnone, _norm(I, x.val))
    x = I.need(x)
    if not is_sym(x):
        import cssutils.helper
        return cssutils.helper.normalize(x)
    return Sym('str', UF_NORM(lift(x)))


def normalize(x):
    import cssutils.helper
    return cssutils.helper.normalize(x)


SPEC_MODELS = {normalize: Model(lambda I, a, k: _norm(I, a[0]), 'normalize', assumed=False)}


def sp(I, fn, *args):
    """evaluate a @spec function symbolically (for invariants written against the interpreter API)"""
    f = SX.func_from_pyfunc(fn, spec=True)
    v = SX.Interp(I.p, spec=True).call_func(f, list(args), {})
    return SX.as_bool_term(truth(v))


# ------------------------------------------------------------------ the model of the statement
@spec
def is_match(item, name, normalized):
    """the entry is a property addressed by `name` (normalised comparison, or literal spelling)"""
    from cssutils.css import Property
    v = item.value
    return isinstance(v, Property) and ((normalized and normalize(name) == v.name) or name == v.literalname)


@spec
def is_important_match(item, name, normalized):
    return is_match(item, name, normalized) and item.value.priority != ''


@spec
def effective(seq, name, normalized, result):
    """result is the effective property: the last entry with non-empty priority among the matching ones, else the last matching entry,
    else None"""
    n = len(seq)
    return ((result is None and all(not is_match(seq[k], name, normalized) for k in range(n)))
            or any(result is seq[k].value and is_important_match(seq[k], name, normalized)
                   and all(not is_important_match(seq[j], name, normalized) for j in range(k + 1, n)) for k in range(n))
            or (all(not is_important_match(seq[j], name, normalized) for j in range(n))
                and any(result is seq[k].value and is_match(seq[k], name, normalized)
                        and all(not is_match(seq[j], name, normalized) for j in range(k + 1, n)) for k in range(n))))


# ------------------------------------------------------------------ getProperty
GP = register(Target('cssutils/css/cssstyledeclaration.py', 'CSSStyleDeclaration.getProperty', ['C10']))
GP.models.update(SPEC_MODELS)


@GP.inputs
def _in_gp(I):
    me, seq = mk_decl(I)
    return {'self': me, 'name': I.p.fresh('str', 'name'), 'normalize': I.p.fresh('bool', 'normalize'), 'seq': seq}


def _gp_inv(I, fr, it):
    p = I.p
    seq = it.view.base
    name, normalized = fr.lookup('name'), fr.lookup('normalize')
    found = fr.lookup('found')
    k, m, j = H._bound_var(p), H._bound_var(p), H._bound_var(p)
    match = lambda idx: sp(I, is_match, seq.at(idx), name, normalized)
    imp = lambda idx: sp(I, is_important_match, seq.at(idx), name, normalized)
    f_none = found.isnone if isinstance(found, Opt) else z3.BoolVal(found is None)
    f_id = H.obj_id(p, found)
    vid = lambda idx: H.obj_id(p, H.read_field(I, seq.at(idx), 'value'))
    return z3.And(
        z3.ForAll([k], z3.Implies(it.done(k), z3.Not(imp(k)))),
        f_none == z3.ForAll([k], z3.Implies(it.done(k), z3.Not(match(k)))),
        z3.Implies(z3.Not(f_none), z3.Exists([m], z3.And(it.done(m), f_id == vid(m), match(m), z3.ForAll([j], z3.Implies(z3.And(it.done(j), j > m), z3.Not(match(j))))))))


def _gp_havoc_found(I, fr):
    item, ival = _schemas()
    p = I.p
    p.counter += 1
    fid = z3.Int(f'found!ref!{p.counter}')
    fr.store('found', Opt(fid == 0, H.SymObj(fid, ival)))


GP.loops[('loop', 1)] = {'name': 'reversed_scan', 'inv': _gp_inv, 'havoc': ['val', 'item'], 'havoc_extra': [_gp_havoc_found]}


@GP.ensure
def returns_the_effective_property(seq, name, normalize, result):
    return effective(seq, name, normalize, result)


# ------------------------------------------------------------------ getProperties(name, all=True): the ordered entry list of the model
# Ghost F(j) = number of kept entries among seq[0:j]  (F(0) = 0, F(j+1) = F(j) + [keep(j)]); the result list R is fully determined by
#   len(R) == F(len(seq))   and   for every kept j:  R[F(j)] is seq[j].value
I_ = z3.IntSort()
F_KEPT = z3.Function('kept_before', I_, I_)


def _keep_term(I, seq, j, nname):
    """entry j is a Property and (no name given or its normalised name is the given one)"""
    p = I.p
    item, ival = _schemas()
    vid_ = z3.Select(H.heap_array(p, item, 'value'), z3.Select(seq.elems, j))  # (mk_decl: every item holds a value object)
    kind = z3.Select(H.heap_array(p, ival, 'kind'), vid_)
    pname = z3.Select(H.heap_array(p, ival, 'name'), vid_)
    if nname is None:
        return kind == PROP
    if isinstance(nname, Opt):
        return z3.And(kind == PROP, z3.Or(nname.isnone, z3.Length(lift(nname.val)) == 0, pname == lift(nname.val)))
    return z3.And(kind == PROP, z3.Or(z3.Length(lift(nname)) == 0, pname == lift(nname)))


def _inst_F(I, seq, j, nname):
    I.p.assume(z3.Implies(z3.And(j >= 0, j < seq.length), F_KEPT(j + 1) == F_KEPT(j) + z3.If(_keep_term(I, seq, j, nname), 1, 0)))


GPA = register(Target('cssutils/css/cssstyledeclaration.py', 'CSSStyleDeclaration.getProperties', ['C10'],
                      name='cssutils/css/cssstyledeclaration.py::CSSStyleDeclaration.getProperties[all=True]'))
GPA.models.update(SPEC_MODELS)


@GPA.inputs
def _in_gpa(I):
    me, seq = mk_decl(I)
    p = I.p
    p.assume(F_KEPT(0) == 0)
    p.note_assumption('getProperties: the number of kept entries before position j is defined by its recurrence (ghost function, instantiated where the loop advances)')
    name = p.fresh_opt('str', 'name')
    p.ghost['seq'] = seq
    return {'self': me, 'name': name, 'all': True, 'seq': seq}


def _gpa_nname(fr):
    return fr.lookup('nname')


def _gpa_inv(I, fr, it):
    p = I.p
    seq = p.ghost['seq']
    q = it.q
    nname = _gpa_nname(fr)
    _inst_F(I, seq, q, nname)
    _inst_F(I, seq, q - 1, nname)
    res = fr.lookup('properties')
    j = H._bound_var(p, 'j')
    item, ival = _schemas()
    vid = lambda idx: z3.Select(H.heap_array(p, item, 'value'), z3.Select(seq.elems, idx))
    if isinstance(res, SX.SList):
        return z3.And(z3.BoolVal(len(res.items) == 0), q == 0, F_KEPT(q) == 0)
    return z3.And(res.length == F_KEPT(q), F_KEPT(q) >= 0,
                  z3.ForAll([j], z3.Implies(z3.And(j >= 0, j < q, _keep_term(I, seq, j, nname)),
                                            z3.And(F_KEPT(j) >= 0, F_KEPT(j) < F_KEPT(q), z3.Select(res.elems, F_KEPT(j)) == vid(j)))))


def _gpa_havoc(I, fr):
    item, ival = _schemas()
    p = I.p
    p.counter += 1
    fr.store('properties', H.SymList(z3.Array(f'props!{p.counter}', I_, I_), z3.Int(f'propslen!{p.counter}'), ival))


GPA.loops[('loop', 1)] = {'name': 'collect', 'inv': _gpa_inv, 'havoc': ['item', 'val'], 'havoc_extra': [_gpa_havoc]}


def _m_entries(I, args, kw):
    ghost, seq, name, result = args
    p = I.p
    n = seq.length
    # the normalised name as the function computed it
    nname = Opt(name.isnone, _norm(I, name.val)) if isinstance(name, Opt) else (_norm(I, name) if name is not None else None)
    j = H._bound_var(p, 'j')
    item, ival = _schemas()
    vid = lambda idx: z3.Select(H.heap_array(p, item, 'value'), z3.Select(seq.elems, idx))
    if isinstance(result, SX.SList):
        ln, at = z3.IntVal(len(result.items)), None
        if len(result.items) == 0:
            return Sym('bool', z3.And(F_KEPT(n) == 0))
        raise Unsupported('concrete non-empty result')
    return Sym('bool', z3.And(result.length == F_KEPT(n),
                              z3.ForAll([j], z3.Implies(z3.And(j >= 0, j < n, _keep_term(I, seq, j, nname)), z3.Select(result.elems, F_KEPT(j)) == vid(j)))))


@GPA.ensure
def returns_the_matching_entries_in_document_order(ghost, seq, name, result):
    return entries_in_order(ghost, seq, name, result)


# ------------------------------------------------------------------ native replay: a real declaration block with the model's entries
def build_decl(conc, model):
    """real CSSStyleDeclaration whose entry list has the model's entries (value objects built without going through the parser)"""
    import cssutils.css as C
    lst = conc['seq']
    if lst['length'] > len(lst['__symlist__']):
        raise RuntimeError('entry list longer than the concretiser materialises')
    arr = lambda f, srt: z3.Array(f'heap0_ival_{f}', z3.IntSort(), srt)
    from pyvc.target import z3str_to_py
    ev = lambda t: model.eval(t, model_completion=True)
    s = C.CSSStyleDeclaration()
    seq = s._tempSeq()
    byid = {}
    for d in lst['__symlist__']:
        vid = d['value']
        if vid not in byid:
            kind = ev(z3.Select(arr('kind', z3.IntSort()), vid)).as_long()
            if kind == PROP:
                pr = C.Property('a', 'b')
                pr._name = z3str_to_py(ev(z3.Select(arr('name', z3.StringSort()), vid)))
                pr._literalname = z3str_to_py(ev(z3.Select(arr('literalname', z3.StringSort()), vid)))
                pr._priority = z3str_to_py(ev(z3.Select(arr('priority', z3.StringSort()), vid)))
                _set_value_text(pr, z3str_to_py(ev(z3.Select(arr('value', z3.StringSort()), vid))))
                byid[vid] = pr
            else:
                byid[vid] = C.CSSComment('/*c*/')
        v = byid[vid]
        seq.append(v, 'Property' if isinstance(v, C.Property) else 'COMMENT')
    s._setSeq(seq)
    return s


def _gp_native(mod, conc, model):
    s = build_decl(conc, model)
    r = s.getProperty(conc['name'], conc['normalize'])
    return ('return', r, {'seq': list(s.seq)})


GP.native_call = _gp_native


def _gpa_native(mod, conc, model):
    s = build_decl(conc, model)
    r = s.getProperties(conc['name'], all=True)
    return ('return', r, {'seq': list(s.seq), 'ghost': {}})


GPA.native_call = _gpa_native


def entries_in_order(ghost, seq, name, result):  # noqa: F811  (native form; the symbolic form is the Model registered above)
    from cssutils.css import Property
    nn = normalize(name)
    want = [it.value for it in seq if isinstance(it.value, Property) and ((not nn) or it.value.name == nn)]
    return len(want) == len(result) and all(a is b for a, b in zip(want, result))


GPA.models[entries_in_order] = Model(_m_entries, 'post (z3)', assumed=False)


# ------------------------------------------------------------------ removeProperty(name, normalize): every entry of that name goes, the others stay in order
# Ghost G(j) = number of entries kept among seq[0:j]; the new entry list N is fully determined by
#   len(N) == G(len(seq))   and   for every kept j:  N[G(j)] is seq[j]     (kept = not (a Property addressed by the name))
# and a read-only block raises NoModificationAllowedErr with the entry list untouched (C11).
G_KEPT = z3.Function('kept_items_before', I_, I_)


class _SeqStub:
    pass


def _rm_gone(I, seq, j, name, normalized):
    """entry j is a Property addressed by the name: normalised name equal to normalize(name), or (normalize=False) literal name equal to name"""
    p = I.p
    item, ival = _schemas()
    vid_ = z3.Select(H.heap_array(p, item, 'value'), z3.Select(seq.elems, j))
    kind = z3.Select(H.heap_array(p, ival, 'kind'), vid_)
    key = z3.Select(H.heap_array(p, ival, 'name' if normalized else 'literalname'), vid_)
    want = lift(_norm(I, name)) if normalized else lift(name)
    return z3.And(kind == PROP, key == want)


def _mk_rm(normalized):
    t = register(Target('cssutils/css/cssstyledeclaration.py', 'CSSStyleDeclaration.removeProperty', ['C10', 'C11'],
                        name=f'cssutils/css/cssstyledeclaration.py::CSSStyleDeclaration.removeProperty[normalize={normalized}]'))
    t.models.update(SPEC_MODELS)
    import xml.dom
    t.allow_raise(xml.dom.NoModificationAllowedErr)

    @t.inputs
    def _in(I):
        import cssutils.css as C
        import cssutils.util as U
        me, seq = mk_decl(I)
        me.plain_setattr = True  # CSSStyleDeclaration.__setattr__ only intercepts DOM property names; `_seq` is stored as a plain attribute
        p = I.p
        p.assume(G_KEPT(0) == 0)
        p.note_assumption('removeProperty: the number of kept entries before position j is defined by its recurrence (ghost function, instantiated where the loop advances)')
        p.ghost['seq'] = seq
        p.ghost['normalized'] = normalized
        M = p.engine.models
        M[C.CSSStyleDeclaration.getPropertyValue] = Model(_m_getPropertyValue_contract, 'CSSStyleDeclaration.getPropertyValue (own contract, proved as its own target)', assumed=False)
        p.note_assumption('Property.value / .priority / .name / .literalname are read as stored fields of the entry (their getters return the stored text)')
        M[U._NewBase._tempSeq if hasattr(U, '_NewBase') else U.Base2._tempSeq] = Model(lambda I2, a, k: Obj(U.Seq, {'_seq': SList([]), '_readonly': False}), 'a fresh writable Seq', assumed=False)
        M[U.Base2._tempSeq] = M[U._NewBase._tempSeq if hasattr(U, '_NewBase') else U.Base2._tempSeq]
        p.engine.inline.add(U.Seq.appendItem)
        p.engine.inline.add(U.Base2._setSeq)
        p.engine.inline.add(U._BaseClass._checkReadonly)
        name = p.fresh('str', 'name')
        p.ghost['name'] = name
        return {'self': me, 'name': name, 'normalize': normalized, 'seq': seq}

    def _inv(I, fr, it):
        p = I.p
        seq = p.ghost['seq']
        name = p.ghost['name']
        q = it.q
        for jj in (q, q - 1):
            p.assume(z3.Implies(z3.And(jj >= 0, jj < seq.length), G_KEPT(jj + 1) == G_KEPT(jj) + z3.If(_rm_gone(I, seq, jj, name, normalized), 0, 1)))
        new = fr.lookup('newseq').fields['_seq']
        j = H._bound_var(p, 'j')
        if isinstance(new, SX.SList):
            return z3.And(z3.BoolVal(len(new.items) == 0), q == 0, G_KEPT(q) == 0)
        return z3.And(new.length == G_KEPT(q), G_KEPT(q) >= 0,
                      z3.ForAll([j], z3.Implies(z3.And(j >= 0, j < q, z3.Not(_rm_gone(I, seq, j, name, normalized))),
                                                z3.And(G_KEPT(j) >= 0, G_KEPT(j) < G_KEPT(q), z3.Select(new.elems, G_KEPT(j)) == z3.Select(seq.elems, j)))))

    def _havoc(I, fr):
        item, ival = _schemas()
        p = I.p
        p.counter += 1
        fr.lookup('newseq').fields['_seq'] = H.SymList(z3.Array(f'newseq!{p.counter}', I_, I_), z3.Int(f'newseqlen!{p.counter}'), item)

    t.loops[('loop', 1 if normalized else 2)] = {'name': 'filter', 'inv': _inv, 'havoc': ['item'], 'havoc_extra': [_havoc]}

    @t.ensure
    def removes_exactly_the_entries_of_that_name_and_keeps_the_others_in_order(ghost, self, seq, name):
        return rm_post(ghost, self, seq, name)

    @t.ensure
    def returns_the_effective_value_of_the_removed_name(ghost, seq, name, result):
        return rm_result(ghost, seq, name, result)

    t.models[rm_result] = Model(_m_rm_result, 'post (z3)', assumed=False)

    @t.ensure
    def a_readonly_block_is_never_changed_silently(old):
        return not old['self']._readonly

    t.models[rm_post] = Model(_m_rm_post, 'post (z3)', assumed=False)
    t.models[same_entries] = Model(_m_same_entries, 'same entry list (z3)', assumed=False)

    @t.on_raise(xml.dom.NoModificationAllowedErr)
    def only_a_readonly_block_refuses_and_nothing_changed(self, old):
        return old['self']._readonly and same_entries(self, old['self'])

    return t


def _m_getPropertyValue_contract(I, args, kw):
    """getPropertyValue as a callee (its own target proves this): the value of an object that getProperty's contract calls the effective
    one for (name, normalize), else the default"""
    p = I.p
    item, ival = _schemas()
    me, name = args[0], args[1]
    norm = args[2] if len(args) > 2 else kw.get('normalize', True)
    default = args[3] if len(args) > 3 else kw.get('default', '')
    p.counter += 1
    fid = z3.Int(f'effective!ref!{p.counter}')
    e = Opt(fid == 0, H.SymObj(fid, ival))
    p.assume(sp(I, effective, me.fields['_seq'], name, norm, e))
    r = p.fresh('str', 'oldvalue')
    p.assume(z3.If(e.isnone, lift(r) == lift(default), lift(r) == lift(H.read_field(I, e.val, 'value'))))
    p.ghost.setdefault('value_calls', []).append((name, norm, default, r))
    return r


def rm_result(ghost, seq, name, result):
    """native form (replay): seq = the entries before the call"""
    e = reference_effective(seq, name, ghost['normalized'])
    return result == ('' if e is None else e.value)


def _m_rm_result(I, args, kw):
    ghost, seq, name, result = args
    calls = ghost.get('value_calls', [])
    if len(calls) != 1:
        return Sym('bool', z3.BoolVal(False))
    n0, norm0, d0, r0 = calls[0]
    if is_sym(d0) or d0 != '' or is_sym(norm0) or bool(norm0) != bool(ghost['normalized']):
        return Sym('bool', z3.BoolVal(False))
    return Sym('bool', z3.And(lift(n0) == lift(name), lift(result) == lift(r0)))


def same_entries(a, b):
    return list(a.seq) == list(b.seq)


def _m_same_entries(I, args, kw):
    a, b = args[0].fields['_seq'], args[1].fields['_seq']
    if type(a).__name__ != 'SymList' or type(b).__name__ != 'SymList':
        return Sym('bool', z3.BoolVal(False))
    return Sym('bool', z3.And(a.length == b.length, a.elems == b.elems))


def rm_post(ghost, self, seq, name):
    """native form (replay): seq = the entries before the call (list of Items), self = the block after it"""
    from cssutils.css import Property
    if ghost['normalized']:
        nn = normalize(name)
        gone = lambda it: isinstance(it.value, Property) and it.value.name == nn
    else:
        gone = lambda it: isinstance(it.value, Property) and it.value.literalname == name
    want = [it for it in seq if not gone(it)]
    got = list(self.seq)
    return len(want) == len(got) and all(a is b for a, b in zip(want, got))


def _rm_native(normalized):
    import types

    def once(s, name):
        before = list(s.seq)
        post = {'self': s, 'seq': before, 'name': name, 'ghost': {'normalized': normalized},
                'old': {'self': types.SimpleNamespace(_readonly=s._readonly, seq=before)}}
        try:
            r = s.removeProperty(name, normalize=normalized)
        except Exception as e:  # noqa: BLE001
            return ('raise', e, post)
        return ('return', r, post)

    def run(mod, conc, model):
        """the solver's input first; if the real function meets the clause under replay there, a battery of small blocks around it"""
        s = build_decl(conc, model)
        s._readonly = bool(conc['self']['fields'].get('_readonly'))
        out = once(s, conc['name'])
        clause = {'returns_the_effective_value_of_the_removed_name': rm_result,
                  'removes_exactly_the_entries_of_that_name_and_keeps_the_others_in_order': None}.get(getattr(RM_N if normalized else RM_L, 'current_clause', None))
        if clause is None or out[0] != 'return' or not clause(out[2]['ghost'], out[2]['seq'], conc['name'], out[1]):
            return out
        seen = set()
        for entries, name, norm, default in accessor_battery(conc['name'], ''):
            if (entries, name) in seen:
                continue
            seen.add((entries, name))
            o2 = once(build_from_entries(entries), name)
            if o2[0] == 'return' and not clause(o2[2]['ghost'], o2[2]['seq'], name, o2[1]):
                return o2
        return out
    return run


def _m_rm_post(I, args, kw):
    ghost, me, seq, name = args
    p = I.p
    normalized = ghost['normalized']
    n = seq.length
    holder = me.fields['_seq']
    if not isinstance(holder, Obj):
        return Sym('bool', z3.BoolVal(False))
    new = holder.fields['_seq']
    ro = holder.fields['_readonly']
    j = H._bound_var(p, 'j')
    if isinstance(new, SX.SList):
        if len(new.items) != 0:
            raise Unsupported('concrete non-empty new entry list')
        return Sym('bool', z3.And(G_KEPT(n) == 0, SX.as_bool_term(truth(ro))))
    return Sym('bool', z3.And(new.length == G_KEPT(n), SX.as_bool_term(truth(ro)),
                              z3.ForAll([j], z3.Implies(z3.And(j >= 0, j < n, z3.Not(_rm_gone(I, seq, j, name, normalized))),
                                                        z3.Select(new.elems, G_KEPT(j)) == z3.Select(seq.elems, j)))))


RM_N = _mk_rm(True)
RM_L = _mk_rm(False)
RM_N.battery_on_unknown = RM_L.battery_on_unknown = True
RM_N.native_call = _rm_native(True)
RM_L.native_call = _rm_native(False)


# ------------------------------------------------------------------ getPropertyValue / getPropertyPriority / removeProperty's return value
# "removal ... returns the effective value", "the effective property for a name is ...": the three accessors are verified MODULARLY against
# getProperty's contract (the caller sees only `effective(seq, name, normalize, p)` of the object it got back, never the loop). The object
# the callee handed back is kept as ghost state so that the postcondition can say "the result is the value / priority OF an object that
# getProperty's contract calls the effective one, else the default".
class _ValueText:
    """stand-in for a PropertyValue in replayed Property objects: Property.value reads propertyValue.value"""

    def __init__(self, text):
        self.value = text
        self.cssText = text

    def __bool__(self):
        return True


def _set_value_text(pr, text):
    pr._propertyValue = _ValueText(text)


def _m_getProperty_contract(I, args, kw):
    """getProperty as a callee: havoc the result (None or an entry value object), assume its proved postcondition"""
    p = I.p
    item, ival = _schemas()
    me = args[0]
    name = args[1]
    norm = args[2] if len(args) > 2 else kw.get('normalize', True)
    p.counter += 1
    fid = z3.Int(f'effective!ref!{p.counter}')
    r = Opt(fid == 0, H.SymObj(fid, ival))
    seq = me.fields['_seq']
    p.assume(sp(I, effective, seq, name, norm, r))
    p.ghost.setdefault('effective_objects', []).append((name, norm, r))
    return r


def _mk_accessor(meth, field, has_default):
    t = register(Target('cssutils/css/cssstyledeclaration.py', f'CSSStyleDeclaration.{meth}', ['C10']))
    t.models.update(SPEC_MODELS)

    @t.inputs
    def _in(I):
        import cssutils.css as C
        me, seq = mk_decl(I)
        p = I.p
        p.engine.models[C.CSSStyleDeclaration.getProperty] = Model(_m_getProperty_contract, 'CSSStyleDeclaration.getProperty (own contract, proved as its own target)', assumed=False)
        p.note_assumption('Property.value / .priority / .name / .literalname are read as stored fields of the entry (their getters return the stored text)')
        env = {'self': me, 'name': p.fresh('str', 'name'), 'normalize': p.fresh('bool', 'normalize'), 'seq': seq}
        if has_default:
            env['default'] = p.fresh('str', 'default')
        return env

    t.models[ACCESSOR_POST[field]] = Model(_mk_m_post(field), 'post (z3)', assumed=False)
    if field == 'value':
        @t.ensure
        def returns_the_value_of_the_effective_property_else_the_default(ghost, seq, name, normalize, default, result):
            return value_post(ghost, seq, name, normalize, default, result)
    else:
        @t.ensure
        def returns_the_priority_of_the_effective_property_else_the_empty_string(ghost, seq, name, normalize, result):
            return priority_post(ghost, seq, name, normalize, '', result)

    def native(mod, conc, model):
        """the solver's input first; when the real function agrees with the reference there (the model may lean on the callee's havocked
        result), a small battery around it: entry lists of <= 3 entries over two names, two spellings, both priorities and a comment"""
        def run(s, name, norm, default):
            a = [name, norm] + ([default] if has_default else [])
            r = getattr(s, meth)(*a)
            post = {'seq': list(s.seq), 'ghost': {}, 'name': name, 'normalize': norm}
            if has_default:
                post['default'] = default
            ok = ACCESSOR_POST[field]({}, post['seq'], name, norm, default if has_default else '', r)
            return ok, ('return', r, post)
        s0 = build_decl(conc, model)
        ok, out = run(s0, conc['name'], conc['normalize'], conc.get('default', ''))
        if not ok:
            return out
        for entries, name, norm, default in accessor_battery(conc['name'], conc.get('default', '')):
            ok2, out2 = run(build_from_entries(entries), name, norm, default)
            if not ok2:
                return out2
        return out

    t.native_call = native
    t.battery_on_unknown = True
    return t


def _mk_m_post(field):
    def _m_post(I, args, kw):
        ghost, seq, name, normalize_, default, result = args
        effs = ghost.get('effective_objects', [])
        if len(effs) != 1:
            return Sym('bool', z3.BoolVal(False))  # the accessor must ask getProperty exactly once
        n0, norm0, e = effs[0]
        same_q = z3.And(lift(n0) == lift(name), SX.as_bool_term(truth(norm0)) == SX.as_bool_term(truth(normalize_)))
        val = H.read_field(I, e.val, field)
        return Sym('bool', z3.And(same_q, z3.If(e.isnone, lift(result) == lift(default), lift(result) == lift(val))))
    return _m_post


def value_post(ghost, seq, name, normalize, default, result):  # noqa: A002  (native form; symbolic form: _mk_m_post)
    e = reference_effective(seq, name, normalize)
    return result == (default if e is None else e.value)


def priority_post(ghost, seq, name, normalize, default, result):  # noqa: A002
    e = reference_effective(seq, name, normalize)
    return result == (default if e is None else e.priority)


ACCESSOR_POST = {'value': value_post, 'priority': priority_post}


def build_from_entries(entries):
    """real declaration block from entry specs: None = a comment, else (name, literalname, priority, value)"""
    import cssutils.css as C
    s = C.CSSStyleDeclaration()
    seq = s._tempSeq()
    for e in entries:
        if e is None:
            seq.append(C.CSSComment('/*c*/'), 'COMMENT')
        else:
            pr = C.Property('a', 'b')
            pr._name, pr._literalname, pr._priority = e[0], e[1], e[2]
            _set_value_text(pr, e[3])
            seq.append(pr, 'Property')
    s._setSeq(seq)
    return s


def accessor_battery(name0, default0):
    import itertools
    kinds = [None, ('a', 'a', '', 'v1'), ('a', 'A', '', 'v2'), ('a', 'a', 'important', 'v3'), ('a', 'A', 'important', 'v4'), ('b', 'b', '', 'v5')]
    names = [n for n in dict.fromkeys(['a', 'A', 'b', name0])]
    for n in range(0, 4):
        for entries in itertools.product(kinds, repeat=n):
            for name in names:
                for norm in (True, False):
                    for default in dict.fromkeys([default0, 'dflt']):
                        yield entries, name, norm, default


def reference_effective(seq, name, normalized):
    """independent reference (replay): last !important entry addressed by the name, else the last entry addressed by it, else None"""
    from cssutils.css import Property
    nn = normalize(name)
    hits = [it.value for it in seq if isinstance(it.value, Property) and ((normalized and it.value.name == nn) or it.value.literalname == name)]
    imp = [h for h in hits if h.priority]
    return imp[-1] if imp else (hits[-1] if hits else None)



GPV = _mk_accessor('getPropertyValue', 'value', True)
GPP = _mk_accessor('getPropertyPriority', 'priority', False)


# ------------------------------------------------------------------ __nnames: "length, indexing, iteration, keys and membership enumerate exactly
# the distinct normalised names". The private helper behind length / item / keys / __contains__ / __iter__ builds the name list by a reversed scan
# with a de-duplicating append. Contract (entry lists of any length): the names handed back are pairwise different, every one is the normalised
# name of some Property entry, and every Property entry's normalised name is among them. (The ORDER - by last occurrence - is left to the
# bounded part.)
NN = register(Target('cssutils/css/cssstyledeclaration.py', 'CSSStyleDeclaration.__nnames', ['C10']))


@NN.inputs
def _in_nn(I):
    me, seq = mk_decl(I)
    I.p.ghost['seq'] = seq
    I.p.note_assumption('Property.value / .priority / .name / .literalname are read as stored fields of the entry (their getters return the stored text)')
    return {'self': me, 'seq': seq}


def _nn_terms(I, seq):
    p = I.p
    item, ival = _schemas()
    vid_ = lambda j: z3.Select(H.heap_array(p, item, 'value'), z3.Select(seq.elems, j))
    is_prop = lambda j: z3.Select(H.heap_array(p, ival, 'kind'), vid_(j)) == PROP
    pname = lambda j: z3.Select(H.heap_array(p, ival, 'name'), vid_(j))
    return is_prop, pname


def _nn_facts(I, seq, names_elems, names_len, done):
    """the three clauses over the entries for which done(k) holds"""
    p = I.p
    is_prop, pname = _nn_terms(I, seq)
    i, j, k, m = H._bound_var(p, 'i'), H._bound_var(p, 'j'), H._bound_var(p, 'k'), H._bound_var(p, 'm')
    k2, m2 = H._bound_var(p, 'k'), H._bound_var(p, 'm')
    nm = lambda x: z3.Select(names_elems, x)
    return z3.And(
        names_len >= 0,
        z3.ForAll([i, j], z3.Implies(z3.And(0 <= i, i < j, j < names_len), nm(i) != nm(j))),
        z3.ForAll([k], z3.Implies(z3.And(done(k), is_prop(k)), z3.Exists([m], z3.And(0 <= m, m < names_len, nm(m) == pname(k))))),
        z3.ForAll([m2], z3.Implies(z3.And(0 <= m2, m2 < names_len), z3.Exists([k2], z3.And(done(k2), is_prop(k2), pname(k2) == nm(m2))))))


def _nn_inv(I, fr, it):
    seq = I.p.ghost['seq']
    names = fr.lookup('names')
    if isinstance(names, SX.SList):
        if names.items:
            raise Unsupported('concrete non-empty name list at the loop head')
        # loop entry: no name yet, and no entry processed yet (reversed scan: q starts at the last position)
        k = H._bound_var(I.p, 'k')
        return z3.Not(z3.Exists([k], it.done(k)))
    return _nn_facts(I, seq, names.elems, names.length, it.done)


def _nn_havoc(I, fr):
    p = I.p
    p.counter += 1
    fr.store('names', H.SymList(z3.Array(f'names!{p.counter}', I_, S_), z3.Int(f'nameslen!{p.counter}'), H.STR))


NN.loops[('loop', 1)] = {'name': 'dedup_scan', 'inv': _nn_inv, 'havoc': ['item', 'val'], 'havoc_extra': [_nn_havoc]}


def distinct_names_of(seq):
    """independent reference (replay): the set of normalised names of the Property entries"""
    from cssutils.css import Property
    return {it.value.name for it in seq if isinstance(it.value, Property)}


def nn_post(seq, result):
    """native form: result = what __nnames returned (an iterator)"""
    got = list(result)
    return len(got) == len(set(got)) and set(got) == distinct_names_of(seq)


def _m_nn_post(I, args, kw):
    seq, result = args
    if isinstance(result, SX.SList):
        if result.items:
            raise Unsupported('concrete non-empty result')
        is_prop, _ = _nn_terms(I, seq)
        k = H._bound_var(I.p, 'k')
        return Sym('bool', z3.ForAll([k], z3.Implies(z3.And(k >= 0, k < seq.length), z3.Not(is_prop(k)))))
    v = H.view_of(result)
    if v is None or v.base.schema is not H.STR:
        return Sym('bool', z3.BoolVal(False))
    # the view must cover the whole name list (any order of traversal enumerates the same set)
    whole = z3.And(v.lo == 0, v.hi == v.base.length)
    return Sym('bool', z3.And(whole, _nn_facts(I, seq, v.base.elems, v.base.length, lambda k: z3.And(k >= 0, k < seq.length))))


NN.models[nn_post] = Model(_m_nn_post, 'post (z3)', assumed=False)


@NN.ensure
def enumerates_exactly_the_distinct_normalised_names(seq, result):
    return nn_post(seq, result)


def _nn_native(mod, conc, model):
    s = build_decl(conc, model)
    r = list(s._CSSStyleDeclaration__nnames())
    return ('return', r, {'seq': list(s.seq)})


NN.native_call = _nn_native


# ------------------------------------------------------------------ keys / item / __contains__: clients of __nnames, verified against ITS contract
def _m_nnames_contract(I, args, kw):
    """__nnames as a callee: a (reversed) view over a fresh name list about which only the proved postcondition is known"""
    p = I.p
    me = args[0]
    seq = me.fields['_seq']
    p.counter += 1
    names = H.SymList(z3.Array(f'nnames!{p.counter}', I_, S_), z3.Int(f'nnameslen!{p.counter}'), H.STR)
    p.assume(_nn_facts(I, seq, names.elems, names.length, lambda k: z3.And(k >= 0, k < seq.length)))
    view = H.ListView(names, z3.IntVal(0), names.length, True, False)
    p.ghost.setdefault('nnames_calls', []).append(view)
    return view


def _mk_nn_client(meth, extra_inputs):
    t = register(Target('cssutils/css/cssstyledeclaration.py', f'CSSStyleDeclaration.{meth}', ['C10']))
    t.models.update(SPEC_MODELS)

    @t.inputs
    def _in(I):
        import cssutils.css as C
        me, seq = mk_decl(I)
        p = I.p
        p.engine.models[C.CSSStyleDeclaration._CSSStyleDeclaration__nnames] = Model(
            _m_nnames_contract, 'CSSStyleDeclaration.__nnames (own contract, proved as its own target)', assumed=False)
        p.note_assumption('Property.value / .priority / .name / .literalname are read as stored fields of the entry (their getters return the stored text)')
        env = {'self': me, 'seq': seq}
        env.update(extra_inputs(I))
        return env
    return t


KEYS = _mk_nn_client('keys', lambda I: {})
KEYS.models[nn_post] = Model(_m_nn_post, 'post (z3)', assumed=False)


@KEYS.ensure
def keys_are_exactly_the_distinct_normalised_names(seq, result):
    return nn_post(seq, result)


def _entry_lists():
    import itertools
    kinds = [None, ('a', 'a', '', 'v1'), ('a', 'A', '', 'v2'), ('a', 'a', 'important', 'v3'), ('b', 'b', '', 'v5'), ('c', 'C', '', 'v6')]
    for n in range(0, 4):
        yield from itertools.product(kinds, repeat=n)
    five = [(x, x, '', 'v') for x in 'abcde']
    yield tuple(five)
    yield tuple(five + [None] + five[:2])
    yield tuple([five[0], None, five[1], five[0], five[2], five[3], five[1]])


def _client_native(call, args_of, post, arg_names):
    """the solver's input first; when the real function meets the clause there, a battery of small and a few longer blocks"""
    def run(mod, conc, model):
        def once(s, args):
            r = call(s, *args)
            o = {'seq': list(s.seq), 'ghost': {}}
            o.update(dict(zip(arg_names, args)))
            return ('return', r, o)
        first = once(build_decl(conc, model), [conc[a] for a in arg_names])
        if not post(first):
            return first
        for entries in _entry_lists():
            for args in args_of(conc):
                o = once(build_from_entries(entries), list(args))
                if not post(o):
                    return o
        return first
    return run


KEYS.native_call = _client_native(lambda s: s.keys(), lambda conc: [()], lambda o: nn_post(o[2]['seq'], o[1]), [])
KEYS.battery_on_unknown = True

ITEM = _mk_nn_client('item', lambda I: {'index': I.p.fresh('int', 'index')})


def item_post(ghost, seq, index, result):
    """native form: the names in the order of their last occurrence (independent reference), indexed the Python way, '' outside"""
    from cssutils.css import Property
    names = []
    for it in reversed(seq):
        if isinstance(it.value, Property) and it.value.name not in names:
            names.append(it.value.name)
    names.reverse()
    return result == (names[index] if -len(names) <= index < len(names) else '')


def _m_item_post(I, args, kw):
    ghost, seq, index, result = args
    calls = ghost.get('nnames_calls', [])
    if len(calls) != 1:
        return Sym('bool', z3.BoolVal(False))
    v = calls[0]
    n = v.count()
    t = H.to_int(index)
    j = z3.If(t < 0, n + t, t)
    el = z3.Select(v.base.elems, v.pos(j))
    return Sym('bool', z3.If(z3.And(t < n, t >= -n), lift(result) == el, lift(result) == z3.StringVal('')))


ITEM.models[item_post] = Model(_m_item_post, 'post (z3)', assumed=False)


@ITEM.ensure
def item_indexes_the_name_list_and_is_empty_outside(ghost, seq, index, result):
    return item_post(ghost, seq, index, result)


ITEM.native_call = _client_native(lambda s, i: s.item(i), lambda conc: [(i,) for i in dict.fromkeys(list(range(-8, 9)) + [conc['index']])],
                                  lambda o: item_post({}, o[2]['seq'], o[2]['index'], o[1]), ['index'])
ITEM.battery_on_unknown = True

CONTAINS = _mk_nn_client('__contains__', lambda I: {'nameOrProperty': I.p.fresh('str', 'name')})


def contains_post(seq, nameOrProperty, result):
    return bool(result) == (normalize(nameOrProperty) in distinct_names_of(seq))


def _m_contains_post(I, args, kw):
    seq, name, result = args
    is_prop, pname = _nn_terms(I, seq)
    k = H._bound_var(I.p, 'k')
    want = z3.Exists([k], z3.And(k >= 0, k < seq.length, is_prop(k), pname(k) == lift(_norm(I, name))))
    return Sym('bool', SX.as_bool_term(truth(result)) == want)


CONTAINS.models[contains_post] = Model(_m_contains_post, 'post (z3)', assumed=False)


@CONTAINS.ensure
def membership_is_by_normalised_name(seq, nameOrProperty, result):
    return contains_post(seq, nameOrProperty, result)


CONTAINS.native_call = _client_native(lambda s, n: n in s, lambda conc: [(n,) for n in dict.fromkeys(['a', 'A', 'b', 'c', 'C', '\\61', 'd', conc['nameOrProperty']])],
                                      lambda o: contains_post(o[2]['seq'], o[2]['nameOrProperty'], o[1]), ['nameOrProperty'])
CONTAINS.battery_on_unknown = True
