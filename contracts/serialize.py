"""Sidecar contracts for the value-normalisation kernels of cssutils/serialize.py (C18, C03, C06)."""
from pyvc.api import *
from pyvc.target import contract_model
from pyvc import regexlang as R

S_ = z3.StringSort()
UF_HEX = z3.Function('hexval', S_, z3.IntSort())  # value of one hex digit character


def hexval(c):
    return int(c, 16)


def m_hexval(I, args, kw):
    c = args[0]
    if not is_sym(c):
        return hexval(c)
    return Sym('int', UF_HEX(lift(c)))


def only_zeros(x):
    return set(x) <= {'0'}


def m_only_zeros(I, args, kw):
    x = args[0]
    if not is_sym(x):
        return only_zeros(x)
    return Sym('bool', z3.InRe(lift(x), z3.Star(z3.Re(z3.StringVal('0')))))


SPEC_MODELS = {hexval: Model(m_hexval, 'hexval', assumed=False), only_zeros: Model(m_only_zeros, 'only_zeros', assumed=False)}

PREF_TYPES = {'minimizeColorHash': 'bool', 'omitLeadingZero': 'bool', 'spacer': 'str', 'keepComments': 'bool', 'indentClosingBrace': 'bool',
              'listItemSpacer': 'str', 'propertyNameSpacer': 'str', 'paranthesisSpacer': 'str', 'lineSeparator': 'str', 'selectorCombinatorSpacer': 'str',
              'validOnly': 'bool', 'keepAllProperties': 'bool', 'omitLastSemicolon': 'bool', 'keepEmptyRules': 'bool', 'keepUnknownAtRules': 'bool',
              'keepUsedNamespaceRulesOnly': 'bool', 'resolveVariables': 'bool', 'normalizedVarNames': 'bool', 'lineNumbers': 'bool', 'indent': 'str',
              'indentSpecificities': 'bool', 'defaultAtKeyword': 'bool', 'defaultPropertyName': 'bool', 'defaultPropertyPriority': 'bool', 'importHrefFormat': ('opt', 'str')}


def mk_serializer(I):
    """a CSSSerializer whose preferences are arbitrary (each read creates the symbolic field once)"""
    import cssutils.serialize as SER
    from pyvc.target import fresh_of
    prefs = Obj(SER.Preferences)

    def lazy(I2, o, name):
        if name in PREF_TYPES:
            return fresh_of(I2, PREF_TYPES[name], 'pref_' + name)
        return NotImplemented

    prefs.lazy_field = lazy
    ser = Obj(SER.CSSSerializer, {'prefs': prefs, '_level': I.p.fresh('int', 'level')})
    return ser, prefs


# ------------------------------------------------------------------ _hash
@spec
def channels(v):
    """(red, green, blue) denoted by a hash colour: #rgb doubles every digit"""
    if len(v) == 4:
        return (17 * hexval(v[1]), 17 * hexval(v[2]), 17 * hexval(v[3]))
    return (16 * hexval(v[1]) + hexval(v[2]), 16 * hexval(v[3]) + hexval(v[4]), 16 * hexval(v[5]) + hexval(v[6]))


H = register(Target('cssutils/serialize.py', 'CSSSerializer._hash', ['C18', 'C06', 'C03']))
H.models.update(SPEC_MODELS)


@H.inputs
def _in_h(I):
    ser, prefs = mk_serializer(I)
    return {'self': ser, 'val': I.p.fresh('str', 'val'), 'type_': None, 'prefs': prefs}


@H.ensure
def unchanged_or_lossless_short_form(val, result):
    return result == val or (len(val) == 7 and len(result) == 4 and result[0] == '#' and channels(result) == channels(val))


@H.ensure
def shortens_only_when_preferred(prefs, val, result):
    return implies(not prefs.minimizeColorHash, result == val)


@H.ensure
def shortens_when_preferred_and_possible(prefs, val, result):
    return implies(prefs.minimizeColorHash and len(val) == 7 and val[1] == val[2] and val[3] == val[4] and val[5] == val[6], len(result) == 4)


def _h_native(mod, c, model):
    import cssutils.serialize as SER
    ser = SER.CSSSerializer()
    f = c['prefs']['fields']
    ser.prefs.minimizeColorHash = f.get('minimizeColorHash', True)
    class P:
        pass
    pr = P()
    pr.minimizeColorHash = ser.prefs.minimizeColorHash
    try:
        return ('return', ser._hash(c['val']), {'prefs': pr})
    except Exception as e:
        return ('raise', e, {'prefs': pr})


H.native_call = _h_native

# ------------------------------------------------------------------ _strip_zeros
SZ = register(Target('cssutils/serialize.py', 'CSSSerializer._strip_zeros', ['C18']))
SZ.models.update(SPEC_MODELS)


@SZ.inputs
def _in_sz(I):
    ser, prefs = mk_serializer(I)
    return {'self': ser, 's': I.p.fresh('str', 's')}


@SZ.ensure
def drops_only_trailing_zeros(s, result):
    return s[0:len(result)] == result and only_zeros(s[len(result):])


@SZ.ensure
def keeps_one_fraction_digit_and_no_more_zeros(s, result):
    i = s.find('.')
    return len(result) >= min(len(s), i + 2) and (len(result) == min(len(s), i + 2) or result[len(result) - 1] != '0')


@SZ.require
def has_a_decimal_point(s):
    # both call sites pass '%f' % number, which always contains a point
    return '.' in s


SZ.native_call = lambda mod, c, m: _try(lambda: mod.CSSSerializer()._strip_zeros(c['s']))


def _try(f):
    try:
        return ('return', f())
    except Exception as e:
        return ('raise', e)


# ------------------------------------------------------------------ numeric branch of do_css_Value
class DecNum:
    """A decimal literal's value in canonical digits: negative flag, integer digits without leading zeros ('0' for none),
    at most six fraction digits without trailing zeros.  Stands for the int/float held by DimensionValue._value."""


class OutStub:
    pass


class TruncOf(Sym):
    """the int obtained by int(v) of a DecNum v (tagged so that str()/== can be interpreted on digits)"""
    __slots__ = ('dec_int_of',)


DIGITS = z3.Range(z3.StringVal('0'), z3.StringVal('9'))
NZ = z3.Range(z3.StringVal('1'), z3.StringVal('9'))
CANON_INT = z3.Union(z3.Re(z3.StringVal('0')), z3.Concat(NZ, z3.Star(DIGITS)))
CANON_FRAC = z3.Union(z3.Re(z3.StringVal('')), z3.Concat(z3.Loop(DIGITS, 0, 5), NZ))
LENGTH_UNITS = ('cm', 'mm', 'in', 'px', 'pc', 'pt', 'em', 'ex')


def _dec_models(I, num):
    p = I.p
    neg, ip, fr = num.fields['neg'], num.fields['int'], num.fields['frac']
    is_zero = z3.And(ip.t == z3.StringVal('0'), fr.t == z3.StringVal(''))
    M = p.engine.models

    def eq(I2, a, k):
        o = a[1]
        if o == 0 and isinstance(o, int):
            return Sym('bool', is_zero)
        if isinstance(o, Sym) and o.kind == 'int' and getattr(o, 'dec_int_of', None) is a[0]:
            return Sym('bool', fr.t == z3.StringVal(''))  # v == int(v)  <=>  no fraction digits
        raise Unsupported('DecNum == other')

    def ne(I2, a, k):
        r = eq(I2, a, k)
        return Sym('bool', z3.Not(r.t))

    def lt(I2, a, k):  # v < c
        c = a[1]
        if c == 1 and isinstance(c, int):
            return Sym('bool', z3.Or(neg.t, ip.t == z3.StringVal('0')))
        raise Unsupported('DecNum < other')

    def gt(I2, a, k):  # v > c
        c = a[1]
        if c == -1 and isinstance(c, int):
            return Sym('bool', z3.Or(z3.Not(neg.t), ip.t == z3.StringVal('0')))
        raise Unsupported('DecNum > other')

    def to_int(I2, a, k):
        # int(v): truncation; as a string it is sign + integer digits (no sign for -0.x)
        f = p.fresh('int', 'trunc')
        r = TruncOf('int', f.t)
        r.dec_int_of = a[0]
        return r

    M[('method', DecNum, '__eq__')] = Model(eq, 'float/int ==', assumed=False)
    M[('method', DecNum, '__ne__')] = Model(ne, 'float/int !=', assumed=False)
    M[('method', DecNum, '__lt__')] = Model(lt, 'float/int <', assumed=False)
    M[('method', DecNum, '__gt__')] = Model(gt, 'float/int >', assumed=False)
    M[('method', DecNum, '__int__')] = Model(to_int, 'int(float)', assumed=False)

    def fmt(I2, a, k):
        f, arg = a
        if f == '%f' and arg is num:
            pad = p.fresh('str', 'pad')
            p.assume(z3.InRe(pad.t, z3.Star(z3.Re(z3.StringVal('0')))))
            p.assume(z3.Length(fr.t) + z3.Length(pad.t) == 6)
            sgn = z3.If(z3.And(neg.t, z3.Not(is_zero)), z3.StringVal('-'), z3.StringVal(''))
            p.note_assumption("'%f' % v for the float nearest to a literal with <= 6 fraction digits is that literal padded to six places (checked on a grid, not proved)")
            return Sym('str', z3.Concat(sgn, ip.t, z3.StringVal('.'), fr.t, pad.t))
        return NotImplemented

    M['str.__mod__'] = Model(fmt, "'%f' % float", assumed=True)

    def str_of_int(I2, a, k):
        v = a[0]
        if isinstance(v, Sym) and getattr(v, 'dec_int_of', None) is num:
            sgn = z3.If(z3.And(neg.t, ip.t != z3.StringVal('0')), z3.StringVal('-'), z3.StringVal(''))
            return Sym('str', z3.Concat(sgn, ip.t))
        from pyvc.builtins import py_str
        return py_str(I2, *a)

    M[str] = Model(str_of_int, 'str(int(v))', assumed=False)


@spec
def number_spec(neg, ip, fr, written_sign, dim, omit):
    """the statement: same number, sign kept, redundant zeros dropped, zero lengths unit-less, leading zero optional"""
    zero = ip == '0' and fr == ''
    if zero:
        digits = '0'
    elif fr == '':
        digits = ('-' if neg else '') + ip
    elif omit and ip == '0':
        digits = ('-' if neg else '') + '.' + fr
    else:
        digits = ('-' if neg else '') + ip + '.' + fr
    sign = '+' if (written_sign == '+' and not zero) else ''
    unit = '' if (dim is None or (zero and dim in LENGTH_UNITS)) else dim
    return sign + digits + unit


NV = register(Target('cssutils/serialize.py', 'CSSSerializer.do_css_Value', ['C18', 'C06'], name='cssutils/serialize.py::CSSSerializer.do_css_Value[numeric]'))
NV.models.update(SPEC_MODELS)
NV.timeout_ms = 3000
NV.cvc5_ms = 240000  # string obligations about the unique rstrip decomposition: cvc5 needs 10-60 s for ten of them


@NV.inputs
def _in_nv(I):
    import cssutils.serialize as SER
    import cssutils.css.value as V
    p = I.p
    ser, prefs = mk_serializer(I)
    neg = p.fresh('bool', 'neg')
    ip = p.fresh('str', 'intdigits')
    fr = p.fresh('str', 'fracdigits')
    p.assume(z3.InRe(fr.t, CANON_FRAC))
    p.assume(z3.InRe(ip.t, CANON_INT))
    num = Obj(DecNum, {'neg': neg, 'int': ip, 'frac': fr})
    _dec_models(I, num)
    typ = p.fresh('str', 'type')
    p.assume(z3.Or(typ.t == 'DIMENSION', typ.t == 'NUMBER', typ.t == 'PERCENTAGE'))
    sign = p.fresh('str', 'written_sign')
    # representation invariant of DimensionValue (established by its parser): the written sign agrees with the value
    is_zero = z3.And(ip.t == z3.StringVal('0'), fr.t == z3.StringVal(''))
    p.assume(z3.Or(sign.t == '', sign.t == '+', sign.t == '-'))
    p.assume(z3.Implies(z3.Not(is_zero), (sign.t == '-') == neg.t))
    dim = p.fresh_opt('str', 'dimension')
    p.assume(z3.Implies(z3.Not(dim.isnone), z3.Length(dim.val.t) > 0))
    value = Obj(V.DimensionValue, {'_type': typ, '_dimension': dim, '_value': num, '_sign': sign})
    g = p.ghost
    g['appended'] = []

    def new_out(I2, a, k):
        return Obj(OutStub)

    def out_append(I2, a, k):
        g['appended'].append((a[1], a[2] if len(a) > 2 else None))
        return None

    def out_value(I2, a, k):
        # assumed contract of Out for one numeric item: the item itself (the trailing spacer is removed again)
        if len(g['appended']) != 1:
            raise Unsupported('Out.value() after other than one append')
        return g['appended'][0][0]

    M = p.engine.models
    M[('new', SER.Out)] = Model(new_out, 'Out(ser)', assumed=True)
    M[('method', OutStub, 'append')] = Model(out_append, 'Out.append(val, NUMBER|DIMENSION|PERCENTAGE): stores val (Out has its own contract under C06)', assumed=True)
    M[('method', OutStub, 'value')] = Model(out_value, 'Out.value(): the single numeric item', assumed=True)
    M[SER.CSSSerializer._strip_zeros] = contract_model(SZ, 'str', ['self', 's'], raises=())
    return {'self': ser, 'value': value, 'valuesOnly': None, 'neg': neg, 'ip': ip, 'fr': fr, 'written_sign': sign, 'dim': dim, 'prefs': prefs, 'typ': typ}


@NV.ensure
def writes_the_same_number_and_unit(neg, ip, fr, written_sign, dim, prefs, result):
    return result == number_spec(neg, ip, fr, written_sign, dim, prefs.omitLeadingZero)


@NV.ensure
def one_item_of_the_value_type(ghost, typ):
    return len(ghost['appended']) == 1 and ghost['appended'][0][1] == typ


def _nv_native(mod, c, model):
    import cssutils
    from cssutils.css.value import DimensionValue
    neg, ip, fr, ws, dim = c['neg'], c['ip'], c['fr'], c['written_sign'], c['dim']
    zero = ip == '0' and fr == ''
    sign = ws if (zero or ws == '+') else ('-' if neg else '')
    text = sign + ip + ('.' + fr if fr else '') + (dim or '')
    ser = mod.CSSSerializer()
    omit = c['prefs']['fields'].get('omitLeadingZero', False)
    ser.prefs.omitLeadingZero = omit
    class P:
        pass
    pr = P()
    pr.omitLeadingZero = omit
    try:
        v = DimensionValue(text)
        if not v.wellformed:
            return ('raise', ValueError('not a dimension literal: %r' % text), {'prefs': pr})
        return ('return', ser.do_css_Value(v), {'prefs': pr, 'ghost': {'appended': [(None, v.type)]}, 'typ': v.type})
    except Exception as e:
        return ('raise', e, {'prefs': pr})


NV.native_call = _nv_native
