"""Sidecar contracts for cssutils/codec.py (C07, C08)."""
from pyvc.api import *


def chars(b):  # native meaning; symbolic model below (bytes and str share one representation)
    return ''.join(chr(x) for x in b)


def m_chars(I, args, kwargs):
    b = args[0]
    if isinstance(b, Sym):
        return Sym('str', b.t)
    return chars(b)


PREFIX = '@charset "'
BPREFIX = b'@charset "'


@spec
def full_spec(b):
    """CSS 2.1 section 4.4 as restated by property C07: BOM first, then the BOM-less UTF-16/32
    spellings of '@charset', then ASCII '@charset "name"', else UTF-8 (implicit)."""
    n = len(b)
    if n >= 3 and b[0:3] == b'\xef\xbb\xbf':
        return ('utf-8-sig', True)
    if n >= 4 and b[0:4] == b'\xff\xfe\x00\x00':
        return ('utf-32', True)
    if n >= 4 and b[0:4] == b'\x00\x00\xfe\xff':
        return ('utf-32', True)
    if n >= 2 and b[0:2] == b'\xff\xfe':
        return ('utf-16', True)
    if n >= 2 and b[0:2] == b'\xfe\xff':
        return ('utf-16', True)
    if n >= 4 and b[0:4] == b'@\x00\x00\x00':
        return ('utf-32-le', False)
    if n >= 4 and b[0:4] == b'\x00\x00\x00@':
        return ('utf-32-be', False)
    if n >= 4 and b[0:4] == b'@\x00c\x00':
        return ('utf-16-le', False)
    if n >= 2 and b[0:2] == b'\x00@':
        return ('utf-16-be', False)
    if b[0:10] == BPREFIX and b.find(b'"', 10) >= 0:
        return (chars(b[10:b.find(b'"', 10)]), True)
    return ('utf-8', False)


T1 = register(Target('cssutils/codec.py', 'detectencoding_str', ['C07', 'C08']))
T1.models[chars] = Model(m_chars, 'chars', assumed=False)


@T1.inputs
def _in1(I):
    import cssutils.codec as C
    I.p.engine.models[C.chars] = Model(m_chars, 'codec.chars (proved separately: finite)', assumed=False)
    return {'input': I.p.fresh('bytes', 'input'), 'final': I.p.fresh('bool', 'final'), 'ext': I.p.fresh('bytes', 'ext'),
            '__args__': None}


@T1.ensure
def final_equals_css21_spec(input, final, result):
    return implies(final, result == full_spec(input))


@T1.ensure
def nonfinal_unknown_or_stable(input, final, ext, result):
    # "unknown yet, never a wrong encoding": a definite answer is the answer for every extension
    return implies(not final, result[0] is None or result == full_spec(input + ext))


@T1.ensure
def final_never_unknown(final, result):
    return implies(final, result[0] is not None)


def _native1(mod, conc, model):
    try:
        return ('return', mod.detectencoding_str(conc['input'], conc['final']))
    except Exception as e:
        return ('raise', e)


T1.native_call = _native1
