"""Sidecar contracts for cssutils/codec.py (C07, C08)."""
from pyvc.api import *


def chars(b):  # native meaning; symbolic model below (bytes and str share one representation)
    return ''.join(chr(x) for x in b)


def m_chars(I, args, kwargs):
    b = args[0]
    if isinstance(b, Sym):
        return Sym('str', b.t)
    return chars(b)


PREFIX = '@charset "'
BPREFIX = b'@charset "'


@spec
def full_spec(b):
    """CSS 2.1 section 4.4 as restated by property C07: BOM first, then the BOM-less UTF-16/32
    spellings of '@charset', then ASCII '@charset "name"', else UTF-8 (implicit)."""
    n = len(b)
    if n >= 3 and b[0:3] == b'\xef\xbb\xbf':
        return ('utf-8-sig', True)
    if n >= 4 and b[0:4] == b'\xff\xfe\x00\x00':
        return ('utf-32', True)
    if n >= 4 and b[0:4] == b'\x00\x00\xfe\xff':
        return ('utf-32', True)
    if n >= 2 and b[0:2] == b'\xff\xfe':
        return ('utf-16', True)
    if n >= 2 and b[0:2] == b'\xfe\xff':
        return ('utf-16', True)
    if n >= 4 and b[0:4] == b'@\x00\x00\x00':
        return ('utf-32-le', False)
    if n >= 4 and b[0:4] == b'\x00\x00\x00@':
        return ('utf-32-be', False)
    if n >= 4 and b[0:4] == b'@\x00c\x00':
        return ('utf-16-le', False)
    if n >= 2 and b[0:2] == b'\x00@':
        return ('utf-16-be', False)
    if b[0:10] == BPREFIX and b.find(b'"', 10) >= 0:
        return (chars(b[10:b.find(b'"', 10)]), True)
    return ('utf-8', False)


T1 = register(Target('cssutils/codec.py', 'detectencoding_str', ['C07', 'C08']))
T1.models[chars] = Model(m_chars, 'chars', assumed=False)


@T1.inputs
def _in1(I):
    import cssutils.codec as C
    I.p.engine.inline.add(C.chars)  # interpreted from its source (`''.join(chr(byte) for byte in bytestring)` over symbolic bytes)
    return {'input': I.p.fresh('bytes', 'input'), 'final': I.p.fresh('bool', 'final'), 'ext': I.p.fresh('bytes', 'ext'),
            '__args__': None}


@T1.ensure
def final_equals_css21_spec(input, final, result):
    return implies(final, result == full_spec(input))


@T1.ensure
def nonfinal_unknown_or_stable(input, final, ext, result):
    # "unknown yet, never a wrong encoding": a definite answer is the answer for every extension
    return implies(not final, result[0] is None or result == full_spec(input + ext))


@T1.ensure
def final_never_unknown(final, result):
    return implies(final, result[0] is not None)


def _native1(mod, conc, model):
    try:
        return ('return', mod.detectencoding_str(conc['input'], conc['final']))
    except Exception as e:
        return ('raise', e)


T1.native_call = _native1


# ------------------------------------------------------------------ detectencoding_unicode
@spec
def uni_spec(s):
    if s[0:10] == PREFIX and s.find('"', 10) >= 0:
        return (s[10:s.find('"', 10)], True)
    return ('utf-8', False)


T2 = register(Target('cssutils/codec.py', 'detectencoding_unicode', ['C07', 'C08']))


@T2.inputs
def _in2(I):
    return {'input': I.p.fresh('str', 'input'), 'final': I.p.fresh('bool', 'final'), 'ext': I.p.fresh('str', 'ext')}


@spec
def K_unterminated_final(input, final):
    """recorded class C07-unicode-final-unterminated: final, '@charset "' seen, closing quote never seen"""
    return final and input[0:10] == PREFIX and input.find('"', 10) < 0


@T2.ensure(known=('C07-unicode-final-unterminated', K_unterminated_final))
def final_equals_spec(input, final, result):
    return implies(final, result == uni_spec(input))


@T2.ensure
def nonfinal_unknown_or_stable(input, final, ext, result):
    return implies(not final, result[0] is None or result == uni_spec(input + ext))


@T2.ensure(known=('C07-unicode-final-unterminated', K_unterminated_final))
def final_never_unknown(final, result):
    return implies(final, result[0] is not None)


T2.native_call = lambda mod, c, m: _try(lambda: mod.detectencoding_unicode(c['input'], c['final']))


def _try(f):
    try:
        return ('return', f())
    except Exception as e:
        return ('raise', e)


# ------------------------------------------------------------------ _fixencoding
@spec
def norm_enc(enc):
    if enc.replace('_', '-').lower() == 'utf-8-sig':
        return 'utf-8'
    return enc


@spec
def fix_spec(u, enc):
    """rewrite exactly the name between the quotes of a leading @charset rule; identity otherwise"""
    if u[0:10] == PREFIX and u.find('"', 10) >= 0:
        return PREFIX + norm_enc(enc) + u[u.find('"', 10):]
    return u


T3 = register(Target('cssutils/codec.py', '_fixencoding', ['C07']))


@T3.inputs
def _in3(I):
    return {'input': I.p.fresh('str', 'input'), 'encoding': I.p.fresh('str', 'encoding'), 'final': I.p.fresh('bool', 'final'),
            'ext': I.p.fresh('str', 'ext')}


@T3.ensure
def final_equals_spec(input, encoding, final, result):
    return implies(final, result == fix_spec(input, encoding))


@T3.ensure
def nonfinal_unknown_or_stable(input, encoding, final, ext, result):
    return implies(not final, result is None or result + ext == fix_spec(input + ext, encoding))


T3.native_call = lambda mod, c, m: _try(lambda: mod._fixencoding(c['input'], c['encoding'], c['final']))


# ------------------------------------------------------------------ stdlib codec layer (assumed)
import codecs as _codecs
from pyvc.target import contract_model
from pyvc.builtins import py_len

_S = z3.StringSort()
UF_DEC = z3.Function('U_dec', _S, _S, _S)  # (encoding name, bytes) -> text, the stdlib one-shot decoder
UF_ENC = z3.Function('U_enc', _S, _S, _S)  # (encoding name, text) -> bytes


def U_dec(enc, b):
    return _codecs.getdecoder(enc)(b, 'strict')[0]


def U_enc(enc, t):
    return _codecs.getencoder(enc)(t, 'strict')[0]


def m_U_dec(I, args, kw):
    args = [I.need(a) for a in args]
    if not is_sym(args[0]) and not is_sym(args[1]):
        return U_dec(*args)
    return Sym('str', UF_DEC(lift(args[0]), lift(args[1])))


def m_U_enc(I, args, kw):
    args = [I.need(a) for a in args]
    if not is_sym(args[0]) and not is_sym(args[1]):
        return U_enc(*args)
    return Sym('bytes', UF_ENC(lift(args[0]), lift(args[1])))


def _codec_factory(uf, kind_out, err):
    def factory(I, args, kw):
        enc = I.unwrap(args[0], TypeError) if isinstance(args[0], Opt) else args[0]
        if enc is None:
            raise PyRaise(ExcVal(TypeError))
        I.p.counter += 1
        if I.p.choose(z3.Bool(f'lookup_fails!{I.p.counter}')):
            raise PyRaise(ExcVal(LookupError))

        def codec_fn(I2, a, k):
            data = I2.need(a[0])
            I2.p.counter += 1
            if I2.p.choose(z3.Bool(f'codec_error!{I2.p.counter}')):
                raise PyRaise(ExcVal(err))
            return (Sym(kind_out, uf(lift(enc), lift(data))), py_len(I2, data))

        return Model(codec_fn, 'stdlib codec function')

    return factory


STDLIB_MODELS = {
    _codecs.getdecoder: Model(_codec_factory(UF_DEC, 'str', UnicodeDecodeError), 'codecs.getdecoder: returns the one-shot decoder U_dec(encoding, .); may raise LookupError; decoder may raise UnicodeDecodeError'),
    _codecs.getencoder: Model(_codec_factory(UF_ENC, 'bytes', UnicodeEncodeError), 'codecs.getencoder: returns the one-shot encoder U_enc(encoding, .); may raise LookupError; encoder may raise UnicodeEncodeError'),
    U_dec: Model(m_U_dec, 'U_dec', assumed=False),
    U_enc: Model(m_U_enc, 'U_enc', assumed=False),
    chars: Model(m_chars, 'chars', assumed=False),
}

DETECT_T = ('tuple', [('opt', 'str'), 'bool'])


def _repo_models():
    import cssutils.codec as C
    return {
        C.detectencoding_str: contract_model(T1, DETECT_T, ['input', 'final']),
        C.detectencoding_unicode: contract_model(T2, DETECT_T, ['input', 'final']),
        C._fixencoding: contract_model(T3, ('opt', 'str'), ['input', 'encoding', 'final']),
        C.chars: Model(m_chars, 'codec.chars', assumed=False),
    }


# ------------------------------------------------------------------ decode
@spec
def used_encoding(input, encoding, force):
    d = full_spec(input)
    if encoding is None:
        return d[0]
    if d[1] and not force:
        return d[0]
    return encoding


T4 = register(Target('cssutils/codec.py', 'decode', ['C07', 'C08']))
T4.models.update(STDLIB_MODELS)


@T4.inputs
def _in4(I):
    I.p.engine.models.update(_repo_models())
    return {'input': I.p.fresh('bytes', 'input'), 'errors': 'strict', 'encoding': I.p.fresh_opt('str', 'encoding'),
            'force': I.p.fresh('bool', 'force')}


@T4.ensure
def decodes_with_precedence_and_fixes_header(input, encoding, force, result):
    e = used_encoding(input, encoding, force)
    return result == (fix_spec(U_dec(e, input), e), len(input))


@T4.on_raise(ValueError)
def only_for_css(input, encoding, force):
    return (encoding is None or not force) and full_spec(input)[0] == 'css'


T4.allow_raise(LookupError)
T4.allow_raise(UnicodeDecodeError)
T4.native_call = lambda mod, c, m: _try(lambda: mod.decode(c['input'], c['errors'], c['encoding'], c['force']))

# ------------------------------------------------------------------ encode
T5 = register(Target('cssutils/codec.py', 'encode', ['C07', 'C08']))
T5.models.update(STDLIB_MODELS)


@T5.inputs
def _in5(I):
    I.p.engine.models.update(_repo_models())
    return {'input': I.p.fresh('str', 'input'), 'errors': 'strict', 'encoding': I.p.fresh_opt('str', 'encoding')}


@spec
def encode_plan(input, encoding):
    """(encoding used, text handed to the encoder)"""
    if encoding is None:
        e = uni_spec(input)[0]
        if e.replace('_', '-').lower() == 'utf-8-sig':
            return (e, fix_spec(input, 'utf-8'))
        return (e, input)
    return (encoding, fix_spec(input, encoding))


@spec
def K5(input, encoding):
    """recorded class C07-unicode-final-unterminated as seen from encode(): no encoding given and the text
    starts an @charset rule that is never closed (the detector's answer is then unspecified)"""
    return encoding is None and K_unterminated_final(input, True)


@T5.ensure(known=('C07-unicode-final-unterminated', K5))
def encodes_fixed_text(input, encoding, result):
    plan = encode_plan(input, encoding)
    return result == (U_enc(plan[0], plan[1]), len(input))


@T5.on_raise(ValueError)
def only_for_css(input, encoding):
    return encode_plan(input, encoding)[0] == 'css' or K5(input, encoding)


@T5.on_raise(AttributeError, name='known_unterminated_charset')
def _k5(input, encoding):
    # recorded class C07-unicode-final-unterminated reaches encode(): None.replace
    return K5(input, encoding)


T5.allow_raise(LookupError)
T5.allow_raise(UnicodeEncodeError)
T5.native_call = lambda mod, c, m: _try(lambda: mod.encode(c['input'], c['errors'], c['encoding']))


# solver budget: the string obligations of these targets are decided by cvc5 in 5-15 s on an idle machine; the limit is sized so that the verdict
# does not flip to `unknown` when every core is busy
for _t in (T1, T2, T3, T4, T5):
    _t.cvc5_ms = 240000
