"""Sidecar contract for cssutils/util.py::Base._tokensupto2 (C04, C02, C01): the bracket-matching skip that carves every rule, block and
malformed declaration out of the token stream.

Statement proved (for every token stream of any length, every mode flag, with and without a start token):
  the call consumes the stream exactly up to and including the FIRST token t at which the skip may stop -
      t is the EOF token, or
      all three nesting levels are back at zero behind t and t is an end token of the mode (a delimiter character of the mode's end set or
      a token of the mode's end types; an identifier never ends or nests anything), or
      (media-query mode) the brace level is -1, the others zero and t is of an end type -
  or to the end of the stream if there is no such token; nothing behind that token is consumed, and the result is the start token (if given)
  followed by exactly the consumed tokens in order.  The nesting levels are the mode's initial levels plus, per consumed token:
  +1/-1 for the delimiter characters { } [ ] ( ) and +1 for a FUNCTION token (whose name is glued to its parenthesis).

The levels after i stream tokens are ghost functions B/K/P (brace, bracket, parenthesis) defined by their recurrence, instantiated at the
positions the loop touches; the loop invariant is  brace == B(q), bracket == K(q), parant == P(q),  no stop token among the consumed ones,
resulttokens == [starttoken]? + stream[c0:q].
"""
from pyvc.api import *
from pyvc import heap as H
from pyvc import symex as SX

I_ = z3.IntSort()
B = z3.Function('brace_level', I_, I_)
K = z3.Function('bracket_level', I_, I_)
P = z3.Function('paren_level', I_, I_)

FLAGS = ['blockstartonly', 'blockendonly', 'mediaendonly', 'importmediaqueryendonly', 'mediaqueryendonly', 'semicolon', 'propertynameendonly',
         'propertyvalueendonly', 'propertypriorityendonly', 'selectorattendonly', 'funcendonly', 'listseponly']
# mode -> (end characters, end types, initial brace, bracket, paren)   [the statement's table; selectorattendonly: bracket 1 iff the start token is '[']
MODES = {
    None: (';}', (), 0, 0, 0),
    'blockstartonly': ('{', (), -1, 0, 0),
    'blockendonly': ('}', (), 1, 0, 0),
    'mediaendonly': ('}', (), 1, 0, 0),
    'importmediaqueryendonly': (';', ('STRING',), 0, 0, 0),
    'mediaqueryendonly': ('{', ('STRING',), -1, 0, 0),
    'semicolon': (';', (), 0, 0, 0),
    'propertynameendonly': (':;', (), 0, 0, 0),
    'propertyvalueendonly': (';!', (), 0, 0, 0),
    'propertypriorityendonly': (';', (), 0, 0, 0),
    'selectorattendonly': (']', (), 0, 0, 0),
    'funcendonly': (')', (), 0, 0, 1),
    'listseponly': (',', (), 0, 0, 0),
}


def _schema():
    if 'token' not in H.SCHEMAS:
        s = H.schema('token', {'typ': 'str', 'val': 'str', 'line': 'int', 'col': 'int'}, None)
        s.tuple_fields = ('typ', 'val', 'line', 'col')
    return H.SCHEMAS['token']


def S(x):
    return SX.mk_str(x)


class G:
    """ghost view of one symbolic run: the stream, where the call starts reading, the mode"""

    def __init__(self, p, stream, c0, mode, start, fam=None):
        self.p, self.stream, self.c0, self.mode, self.start = p, stream, c0, mode, start
        # the level functions; callers that model SEVERAL skips on one path give each (mode, start token) its own family
        if fam is None:
            self.B, self.K, self.P = B, K, P
        else:
            self.B, self.K, self.P = (z3.Function(f'{n}[{fam}]', I_, I_) for n in ('brace_level', 'bracket_level', 'paren_level'))
        sch = _schema()
        self.typ_a = H.heap_array(p, sch, 'typ')
        self.val_a = H.heap_array(p, sch, 'val')

    def typ(self, i):
        return z3.Select(self.typ_a, z3.Select(self.stream.elems, i))

    def val(self, i):
        return z3.Select(self.val_a, z3.Select(self.stream.elems, i))

    def is_char(self, i, ch):
        return z3.And(self.typ(i) != S('IDENT'), self.val(i) == S(ch))

    def deltas(self, i):
        opens_paren = z3.And(self.typ(i) != S('IDENT'), z3.Or(self.val(i) == S('('), self.typ(i) == S('FUNCTION')))
        # (the elif chain of the code: a FUNCTION token whose value is one of the other five characters cannot exist - its value ends in '(')
        db = z3.If(self.is_char(i, '{'), 1, z3.If(self.is_char(i, '}'), -1, 0))
        dk = z3.If(self.is_char(i, '['), 1, z3.If(self.is_char(i, ']'), -1, 0))
        dp = z3.If(opens_paren, 1, z3.If(self.is_char(i, ')'), -1, 0))
        return db, dk, dp

    def inst(self, i):
        """ground instance of the recurrence of the three levels at stream position i"""
        db, dk, dp = self.deltas(i)
        B, K, P = self.B, self.K, self.P
        self.p.assume(z3.Implies(z3.And(i >= self.c0, i < self.stream.length), z3.And(B(i + 1) == B(i) + db, K(i + 1) == K(i) + dk, P(i + 1) == P(i) + dp)))

    def is_end_token(self, i):
        ends, endtypes = MODES[self.mode][0], MODES[self.mode][1]
        by_char = z3.Or(*[self.val(i) == S(ch) for ch in ends])
        by_type = z3.Or(*[self.typ(i) == S(t) for t in endtypes]) if endtypes else z3.BoolVal(False)
        return z3.And(self.typ(i) != S('IDENT'), z3.Or(by_char, by_type))

    def stop(self, i):
        endtypes = MODES[self.mode][1]
        B, K, P = self.B, self.K, self.P
        zero = z3.And(B(i + 1) == 0, K(i + 1) == 0, P(i + 1) == 0)
        c = z3.Or(self.typ(i) == S('EOF'), z3.And(zero, self.is_end_token(i)))
        if self.mode == 'mediaqueryendonly':
            c = z3.Or(c, z3.And(B(i + 1) == -1, K(i + 1) == 0, P(i + 1) == 0, self.typ(i) != S('IDENT'), z3.Or(*[self.typ(i) == S(t) for t in endtypes])))
        return c

    def init_levels(self):
        _, _, b, k, pr = MODES[self.mode]
        b, k, pr = z3.IntVal(b), z3.IntVal(k), z3.IntVal(pr)
        st = self.start
        if st is not None:
            sch = _schema()
            tv = z3.Select(self.val_a, st.id)
            tt = z3.Select(self.typ_a, st.id)
            notid = tt != S('IDENT')
            if self.mode == 'selectorattendonly':
                # (the code tests the start token's value here without looking at its type: '[' spelled as an identifier does not occur - precondition)
                k = k + z3.If(tv == S('['), 1, 0)
            k = k + z3.If(z3.And(notid, tv == S('[')), 1, 0)
            b = b + z3.If(z3.And(notid, tv == S('{')), 1, 0)
            pr = pr + z3.If(z3.And(notid, z3.Or(tv == S('('), tt == S('FUNCTION'))), 1, 0)
        return b, k, pr


def _mk(mode, with_start):
    name = f'cssutils/util.py::Base._tokensupto2[{mode or "default"}{", start token" if with_start else ""}]'
    t = register(Target('cssutils/util.py', 'Base._tokensupto2', ['C04', 'C02', 'C01'], name=name))
    t.timeout_ms = 20000
    import cssutils.util as _U
    t.inline.add(_U.Base._tokenvalue)

    @t.inputs
    def _in(I, mode=mode, with_start=with_start):
        import cssutils.util as U
        p = I.p
        p.use_quantifier_mode()
        sch = _schema()
        p.counter += 1
        stream = H.SymList(z3.Array(f'stream!{p.counter}', I_, I_), z3.Int(f'streamlen!{p.counter}'), sch)
        c0 = z3.Int(f'c0!{p.counter}')
        p.assume(z3.And(stream.length >= 0, c0 >= 0, c0 <= stream.length))
        k = H._bound_var(p)
        val_a = H.heap_array(p, sch, 'val')
        typ_a = H.heap_array(p, sch, 'typ')
        # well-formed stream: every element is a token object (not None)
        p.assume(z3.ForAll([k], z3.Implies(z3.And(k >= 0, k < stream.length), z3.Select(stream.elems, k) > 0)))
        # a FUNCTION token's value ends in '(' (tokenizer lemma FUNCTION == {ident}\\( ): it is none of the other five delimiter characters
        fval = lambda idt: z3.Implies(z3.Select(typ_a, idt) == S('FUNCTION'), z3.And(*[z3.Select(val_a, idt) != S(ch) for ch in '{}[])']))
        p.assume(z3.ForAll([k], z3.Implies(z3.And(k >= 0, k < stream.length), fval(z3.Select(stream.elems, k)))))
        start = None
        if with_start:
            p.counter += 1
            start = H.SymObj(z3.Int(f'starttoken!{p.counter}'), sch)
            p.assume(start.id > 0)
            p.assume(fval(start.id))
            if mode == 'selectorattendonly':
                # precondition (call sites: the start token of an attribute selector is the CHAR '['): an IDENT start token is not spelled '['
                p.assume(z3.Not(z3.And(z3.Select(typ_a, start.id) == S('IDENT'), z3.Select(val_a, start.id) == S('['))))
        it = H.SymIter(stream, c0)
        g = G(p, stream, c0, mode, start)
        p.ghost['G'] = g
        b0, k0, p0 = g.init_levels()
        p.assume(z3.And(B(c0) == b0, K(c0) == k0, P(c0) == p0))
        p.note_assumption('_tokensupto2: the nesting levels behind i stream tokens are defined by their recurrence (ghost functions, instantiated where the loop advances)')
        p.note_assumption('_tokensupto2: token values are exactly one character when they are a delimiter (the code tests `val in ends`, a substring test; '
                          'no production of the tokenizer yields a value that is a longer substring of an end set such as ";}" - tokenizer lemma: CHAR is one character; '
                          'and no value is empty)')
        # the substring test `val in ends`: no token value is empty or a multi-character substring of the end set
        ends = MODES[mode][0]
        if len(ends) > 1:
            p.assume(z3.ForAll([k], z3.Implies(z3.And(k >= 0, k < stream.length),
                                               z3.And(z3.Or(z3.Select(typ_a, z3.Select(stream.elems, k)) == S('EOF'), z3.Length(z3.Select(val_a, z3.Select(stream.elems, k))) > 0),
                                                      z3.Select(val_a, z3.Select(stream.elems, k)) != S(ends)))))
        else:
            p.assume(z3.ForAll([k], z3.Implies(z3.And(k >= 0, k < stream.length),
                                               z3.Or(z3.Select(typ_a, z3.Select(stream.elems, k)) == S('EOF'), z3.Length(z3.Select(val_a, z3.Select(stream.elems, k))) > 0))))
        me = Obj(U.Base, {})
        env = {'self': me, 'tokenizer': it, 'starttoken': start, 'separateEnd': p.fresh('bool', 'separateEnd')}
        for f in FLAGS:
            env[f] = (f == mode)
        env['__args__'] = [me, it, start] + [env[f] for f in FLAGS] + [env['separateEnd']]
        return env

    def _inv(I, fr, it):
        p = I.p
        g = p.ghost['G']
        q = it.q
        res = fr.lookup('resulttokens')
        s = 1 if g.start is not None else 0
        brace, bracket, parant = (to_t(fr.lookup(n)) for n in ('brace', 'bracket', 'parant'))
        j = H._bound_var(p, 'j')
        parts = [brace == B(q), bracket == K(q), parant == P(q),
                 z3.ForAll([j], z3.Implies(z3.And(j >= g.c0, j < q), z3.Not(g.stop(j))))]
        if isinstance(res, SX.SList):
            # loop entry: [] or [starttoken]
            ok = len(res.items) == s and (s == 0 or res.items[0] is g.start or getattr(res.items[0], 'id', None) is g.start.id)
            parts.append(z3.BoolVal(bool(ok)))
            parts.append(q == g.c0)
        else:
            parts.append(res.length == s + (q - g.c0))
            if s:
                parts.append(z3.Select(res.elems, 0) == g.start.id)
            m = H._bound_var(p, 'm')
            parts.append(z3.ForAll([m], z3.Implies(z3.And(m >= g.c0, m < q), z3.Select(res.elems, s + (m - g.c0)) == z3.Select(g.stream.elems, m))))
        return z3.And(*parts)

    def _havoc_res(I, fr):
        p = I.p
        p.counter += 1
        fr.store('resulttokens', H.SymList(z3.Array(f'res!{p.counter}', I_, I_), z3.Int(f'reslen!{p.counter}'), _schema()))

    def _at_start(I, fr):
        pass

    t.loops[('loop', 1)] = {'name': 'skip', 'inv': _inv, 'havoc': ['brace', 'bracket', 'parant', 'token', 'typ', 'val', 'line', 'col'], 'havoc_extra': [_havoc_res]}

    # the element the loop is about to process needs the recurrence instance: hook through the iterator model is not available, so the
    # instances are added by a model on the unpacking of the element - simpler: instantiate for the cut position in the invariant's assumption
    orig_inv = _inv

    def _inv_with_inst(I, fr, it):
        g = I.p.ghost['G']
        g.inst(it.q)
        g.inst(it.q - 1)
        return orig_inv(I, fr, it)

    t.loops[('loop', 1)]['inv'] = _inv_with_inst

    @t.ensure
    def consumes_exactly_up_to_the_first_stop_token(ghost, result, tokenizer, separateEnd):
        return post_ok(ghost, result, tokenizer, separateEnd)

    t.models[post_ok] = Model(_m_post, 'post (z3)', assumed=False)
    t.native_call = _native(mode)
    return t


def to_t(v):
    return v.t if isinstance(v, Sym) else z3.IntVal(v)


def reference(tokens, start, mode):
    """the statement, written independently of the code: -> (expected result list, number of stream tokens consumed)"""
    ends, endtypes, b, k, pr = MODES[mode]
    if start is not None:
        if mode == 'selectorattendonly' and start[1] == '[':
            k += 1
        if start[0] != 'IDENT':
            k += start[1] == '['
            b += start[1] == '{'
            pr += start[1] == '(' or start[0] == 'FUNCTION'
    out = [start] if start is not None else []
    for i, t in enumerate(tokens):
        out.append(t)
        typ, val = t[0], t[1]
        if typ == 'EOF':
            return out, i + 1
        if typ == 'IDENT':
            continue
        b += (val == '{') - (val == '}')
        k += (val == '[') - (val == ']')
        pr += (val == '(' or typ == 'FUNCTION') - (val == ')')
        is_end = (len(val) == 1 and val in ends) or typ in endtypes
        if b == k == pr == 0 and is_end:
            return out, i + 1
        if mode == 'mediaqueryendonly' and b == -1 and k == pr == 0 and typ in endtypes:
            return out, i + 1
    return out, len(tokens)


def post_ok(ghost, result, tokenizer, separateEnd):
    """native form (replay): `ghost` carries what the native run recorded"""
    g = ghost
    want, consumed = reference(g['tokens'], g['start'], g['mode'])
    if g['consumed'] != consumed:
        return False
    if separateEnd:
        return result == ((want[:-1], want[-1]) if want else (want, None))
    return result == want


def _native(mode):
    """replay: the solver's stream when it is short enough; a failed inductive step speaks about an arbitrary intermediate state, so the
    model's tokens are then used as an alphabet (together with the delimiters) for a search over all streams of <= 3 tokens; what is
    reported is always a concrete stream on which the real function disagrees with the reference"""
    import itertools

    def one(mod, toks, st, sep):
        it = iter(toks)
        flags = {f: (f == mode) for f in FLAGS}
        res = mod.Base()._tokensupto2(it, st, separateEnd=sep, **flags)
        rest = len(list(it))
        g = {'tokens': list(toks), 'start': st, 'mode': mode, 'consumed': len(toks) - rest}
        return res, g

    def run(mod, conc, model):
        it_c = conc['tokenizer']
        lst = it_c['__symiter__']
        mtoks = [(d['typ'], d['val'], d['line'], d['col']) for d in lst['__symlist__']]
        c0 = it_c['cursor']
        st = conc.get('starttoken')
        st = (st['typ'], st['val'], st['line'], st['col']) if st else None
        sep = conc['separateEnd']
        last = None
        if lst['length'] <= len(mtoks):
            res, g = one(mod, mtoks[c0:], st, sep)
            last = ('return', res, {'ghost': g})
            if not post_ok(g, res, None, sep):
                return last
        alpha = []
        generic = [('CHAR', ch, 1, 1) for ch in '{}[]();:!,'] + [('FUNCTION', 'f(', 1, 1), ('IDENT', 'a', 1, 1), ('IDENT', '(', 1, 1), ('IDENT', ';', 1, 1),
                                                                 ('STRING', '"s"', 1, 1), ('EOF', '', 1, 1)]
        # tokens that are no delimiters but whose value ends in one (escaped in the source)
        generic += [('HASH', '#a' + ch, 1, 1) for ch in '({[;'] + [('DIMENSION', '1x' + ch, 1, 1) for ch in '()'] + [('ATKEYWORD', '@a' + ch, 1, 1) for ch in '({']
        for t in mtoks + generic:
            if (t[0], t[1]) not in [(x[0], x[1]) for x in alpha]:
                alpha.append(t)
        starts = [st] if st is not None else [None]
        small = [t for t in alpha if t[0] in ('CHAR', 'EOF') or (t[0], t[1]) == ('IDENT', 'a')]
        spaces = [itertools.product(alpha, repeat=1), itertools.product(alpha, repeat=2),
                  itertools.product(alpha, repeat=3) if len(alpha) <= 24 else itertools.product(alpha, small, small)]
        for space in spaces:
            for toks in space:
                for s0 in starts:
                    res, g = one(mod, list(toks), s0, sep)
                    last = ('return', res, {'ghost': g, 'tokenizer': list(toks), 'starttoken': s0})
                    if not post_ok(g, res, None, sep):
                        return last
        return last
    return run


def _m_post(I, args, kw):
    ghost, result, it, sep = args
    p = I.p
    g = ghost['G']
    s = 1 if g.start is not None else 0
    e = it.cursor  # stream position behind the last consumed token
    j = H._bound_var(p, 'j')
    n = g.stream.length
    g.inst(e - 1)
    consumed_ok = z3.And(e >= g.c0, e <= n,
                         z3.ForAll([j], z3.Implies(z3.And(j >= g.c0, j < e - 1), z3.Not(g.stop(j)))),
                         z3.Or(z3.And(e > g.c0, g.stop(e - 1)), z3.And(e == n, z3.Or(e == g.c0, z3.Not(g.stop(e - 1))))))
    total = s + (e - g.c0)  # length of the full result

    def elem_full(k):
        """k-th element of [start]? + stream[c0:e]"""
        if s:
            return z3.If(k == 0, g.start.id, z3.Select(g.stream.elems, g.c0 + k - 1))
        return z3.Select(g.stream.elems, g.c0 + k)

    def list_equals(v, count):
        """v == first `count` elements of the full result"""
        m = H._bound_var(p, 'm')
        if isinstance(v, SX.SList):
            conj = [z3.IntVal(len(v.items)) == count]
            for idx, x in enumerate(v.items):
                conj.append(H.obj_id(p, x) == elem_full(z3.IntVal(idx)))
            return z3.And(*conj)
        if type(v).__name__ == 'ListView':
            return z3.And(v.hi - v.lo == count, z3.ForAll([m], z3.Implies(z3.And(m >= 0, m < count), z3.Select(v.base.elems, v.lo + m) == elem_full(m))))
        return z3.And(v.length == count, z3.ForAll([m], z3.Implies(z3.And(m >= 0, m < count), z3.Select(v.elems, m) == elem_full(m))))

    sep_t = SX.as_bool_term(truth(sep))
    if isinstance(result, tuple):
        # separateEnd: (tokens before the end token, end token) - or ([], None) when nothing at all was collected
        body, last = result
        if last is None:
            shape = z3.And(total == 0, list_equals(body, z3.IntVal(0)))
        else:
            shape = z3.And(total >= 1, list_equals(body, total - 1), H.obj_id(p, last) == elem_full(total - 1))
        return Sym('bool', z3.And(consumed_ok, sep_t, shape))
    return Sym('bool', z3.And(consumed_ok, z3.Not(sep_t), list_equals(result, total)))


TARGETS = [_mk(m, ws) for m in MODES for ws in (False, True)]


# ------------------------------------------------------------------ the contract as a callee model (for callers verified against it)
def callee_model(I, args, kw):
    """Base._tokensupto2 seen from a caller: the effect stated by the contract proved above - the iterator is advanced exactly behind the
    first stop token of the mode (nesting levels counted from the start token), the result is the start token plus the consumed tokens.
    The mode flags must be concrete at the call site."""
    p = I.p
    names = ['self', 'tokenizer', 'starttoken'] + FLAGS + ['separateEnd']
    bound = dict(zip(names, args))
    bound.update(kw)
    it = bound.get('tokenizer')
    st = bound.get('starttoken')
    if isinstance(st, Opt):
        st = I.unwrap(st, TypeError)
    mode = None
    for f in FLAGS:
        v = bound.get(f, False)
        if not isinstance(v, bool):
            raise Unsupported('symbolic mode flag of _tokensupto2')
        if v:
            mode = f
            break
    if type(it).__name__ != 'SymIter':
        raise Unsupported('_tokensupto2 on something else than a token iterator')
    sch = _schema()
    fam = f'{mode}|{st.id.sexpr() if st is not None else "-"}|{z3.simplify(it.cursor).sexpr()}'
    g = G(p, it.base, it.cursor, mode, st, fam=fam)
    b0, k0, p0 = g.init_levels()
    c0, n = it.cursor, it.base.length
    j = H._bound_var(p, 'j')
    db, dk, dp = g.deltas(j)
    p.assume(z3.And(g.B(c0) == b0, g.K(c0) == k0, g.P(c0) == p0))
    p.assume(z3.ForAll([j], z3.Implies(z3.And(j >= c0, j < n), z3.And(g.B(j + 1) == g.B(j) + db, g.K(j + 1) == g.K(j) + dk, g.P(j + 1) == g.P(j) + dp))))
    p.counter += 1
    e = z3.Int(f'skip_end!{p.counter}')
    p.assume(z3.And(e >= c0, e <= n, z3.ForAll([j], z3.Implies(z3.And(j >= c0, j < e - 1), z3.Not(g.stop(j)))),
                    z3.Or(z3.And(e > c0, g.stop(e - 1)), z3.And(e == n, z3.Or(e == c0, z3.Not(g.stop(e - 1)))))))
    it.cursor = e
    s = 1 if st is not None else 0
    res = H.SymList(z3.Array(f'skipped!{p.counter}', I_, I_), z3.Int(f'skippedlen!{p.counter}'), sch)
    m = H._bound_var(p, 'm')
    p.assume(res.length == s + (e - c0))
    if s:
        p.assume(z3.Select(res.elems, 0) == st.id)
    p.assume(z3.ForAll([m], z3.Implies(z3.And(m >= c0, m < e), z3.Select(res.elems, s + (m - c0)) == z3.Select(it.base.elems, m))))
    p.ghost.setdefault('skips', []).append({'g': g, 'c0': c0, 'e': e, 'mode': mode, 'start': st, 'result': res})
    sep = bound.get('separateEnd', False)
    if sep is True:
        raise Unsupported('separateEnd at a modelled call site')
    return res


def callee(assumed=False):
    return Model(callee_model, 'Base._tokensupto2: own contract (contracts/util_tokensupto2.py, 26 targets)', assumed=assumed)
