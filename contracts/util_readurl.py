"""Sidecar contract for cssutils/util.py::_readUrl (C08): the encoding precedence ladder."""
from pyvc.api import *
from pyvc.target import contract_model
from contracts import codec as CC

S_ = z3.StringSort()
UF_CSSDEC = z3.Function('css_codec_decode', S_, S_, S_)  # (content bytes, encoding or '') -> text


class FetcherStub:
    pass


class LogStub:
    pass


RU = register(Target('cssutils/util.py', '_readUrl', ['C08']))


@spec
def ladder(override, http, explicit, content_encoding, parent):
    """(encoding, enctype) by the statement's precedence: override > transport > BOM/@charset in the content > referring sheet > UTF-8"""
    if override:
        return (override, 0)
    if http:
        return (http, 1)
    if explicit:
        return (content_encoding, 2)
    if parent:
        return (parent, 4)
    return ('utf-8', 5)


def _setup(kind):
    def setup(I):
        import codecs
        import cssutils.codec as C
        import cssutils.util as U
        p = I.p
        g = p.ghost
        http = p.fresh_opt('str', 'httpEncoding')
        content = p.fresh('str' if kind == 'text' else 'bytes', 'content')
        shape = p.fresh('int', 'fetcher_result_shape')  # 0: None, 1: (), 2: (enc, None), 3: (enc, content), 4: 3-tuple
        p.assume(z3.And(shape.t >= 0, shape.t <= 4))
        g['decode_fails'] = False

        def fetch(I2, a, k):
            if I2.p.choose(shape.t == 0):
                return None
            if I2.p.choose(shape.t == 1):
                return ()
            if I2.p.choose(shape.t == 2):
                return (http, None)
            if I2.p.choose(shape.t == 3):
                return (http, content)
            return (http, content, None)

        det_u = contract_model(CC.T2, CC.DETECT_T, ['input', 'final'])
        det_s = contract_model(CC.T1, CC.DETECT_T, ['input', 'final'])

        def with_final(m):
            def fn(I2, a, k):
                a = list(a)
                if len(a) < 2:
                    a.append(False)
                r = m.fn(I2, a, k)
                g['detected'] = r
                return r
            return fn

        def css_decoder(I2, a, k):
            # codecs.lookup('css')[1] is cssutils.codec.decode (its own contract under C07); may raise UnicodeDecodeError
            I2.p.counter += 1
            if I2.p.choose(z3.Bool(f'undecodable!{I2.p.counter}')):
                g['decode_fails'] = True
                raise PyRaise(ExcVal(UnicodeDecodeError))
            enc = k.get('encoding')
            e = enc
            if isinstance(e, Opt):
                et = z3.If(e.isnone, z3.StringVal(''), lift(e.val))
            elif e is None:
                et = z3.StringVal('')
            else:
                et = lift(e)
            return (Sym('str', UF_CSSDEC(lift(a[0]), et)), Sym('int', z3.Length(lift(a[0]))))

        M = p.engine.models
        M[codecs.lookup] = Model(lambda I2, a, k: (None, Model(css_decoder, 'css codec decode'), None, None), "codecs.lookup('css')[1]: the css codec's decode (C07)", assumed=True)
        M[C.detectencoding_unicode] = Model(with_final(det_u), 'detectencoding_unicode (own contract)', assumed=False)
        M[C.detectencoding_str] = Model(with_final(det_s), 'detectencoding_str (own contract)', assumed=False)
        import cssutils.errorhandler as EH
        from contracts.cssstylesheet import m_log
        p.ghost['RAISE'] = z3.Bool('RAISE')
        for n in ('warn', 'error', 'info', 'debug'):
            M[('method', EH._ErrorHandler, n)] = Model(lambda I2, a, k: m_log(I2, [a[0], a[1] if len(a) > 1 else ''] + list(a[2:]), k), 'log.%s: contract of _ErrorHandler.__handle' % n, assumed=False)
        M[CC.chars] = Model(CC.m_chars, 'chars', assumed=False)
        fetcher = Model(fetch, 'the fetcher returns None, (), (charset, None), (charset, content) or something else', assumed=True)
        return {'url': p.fresh('str', 'url'), 'fetcher': fetcher, 'overrideEncoding': p.fresh_opt('str', 'override'),
                'parentEncoding': p.fresh_opt('str', 'parent'), 'http': http, 'content': content, 'shape': shape}
    return setup


RU.setup = _setup('text')


@RU.ensure
def nothing_without_content(shape, result):
    return implies(shape != 3, result == (None, None, None))


@RU.ensure
def encoding_follows_the_precedence_ladder(shape, overrideEncoding, http, parentEncoding, ghost, result):
    return implies(shape == 3,
                   (result[0], result[1]) == ladder(overrideEncoding, http, ghost['detected'][1] if 'detected' in ghost else False,
                                                    ghost['detected'][0] if 'detected' in ghost else None, parentEncoding))


@RU.ensure
def text_content_is_passed_through(shape, content, result):
    # (a byte order mark left at the start of decoded text is dropped)
    return implies(shape == 3, result[2] == (content[1:] if content[0:1] == '\ufeff' else content))


RUB = register(Target('cssutils/util.py', '_readUrl', ['C08'], name='cssutils/util.py::_readUrl[bytes content]'))
RUB.setup = _setup('bytes')
RUB.ensure(nothing_without_content)
RUB.ensure(encoding_follows_the_precedence_ladder)


@RUB.ensure
def bytes_are_decoded_with_the_chosen_encoding_or_dropped(shape, content, ghost, result):
    return implies(shape == 3, (result[2] is None) == ghost['decode_fails'])
