"""Sidecar contract for cssutils/script.py::csscombine (C12): the process-wide serializer is the caller's again on EVERY exit.

csscombine swaps `cssutils.ser` for a private serializer while it writes the combined sheet.  Every call it makes (parser, import
resolution, the encoding setter, the serialisation itself) may raise; the contract says that whatever happens, `cssutils.ser` after the
call is the object it was before, and that the caller's preference object was never written to.
"""
import xml.dom

from pyvc.api import *
from pyvc.api import REGISTRY

EXITS = (UnicodeDecodeError, UnicodeEncodeError, LookupError, xml.dom.DOMException, OSError, ValueError, KeyError, RuntimeError, RecursionError, AttributeError, TypeError, SystemExit)


class SerStub:
    pass


class PrefsStub:
    pass


class ParserStub:
    pass


class SheetStub:
    pass


def _may_raise(name, what):
    def fn(I, args, kw):
        p = I.p
        for ec in EXITS:
            p.counter += 1
            if p.choose(z3.Bool(f'{name}_raises_{ec.__name__}!{p.counter}')):
                raise PyRaise(ExcVal(ec))
        return what(I, args, kw) if what else None
    return Model(fn, f'{name}: returns, or raises any of {[e.__name__ for e in EXITS]}; does not touch cssutils.ser', assumed=True)


CC = Target('cssutils/script.py', 'csscombine', ['C12'])
CC.sidecar = __name__
REGISTRY[CC.name] = CC
CC.max_paths = 200000


@CC.inputs
def _in(I):
    import sys
    import cssutils
    import cssutils.script
    import cssutils.serialize
    p = I.p
    g = p.ghost
    user_prefs = Obj(PrefsStub, {'written': False})
    user_ser = Obj(SerStub, {'prefs': user_prefs, 'owner': 'caller'})
    g['ser'] = user_ser
    g['ser0'] = user_ser
    g['user_prefs'] = user_prefs
    M = p.engine.models
    M[('getattr', id(cssutils), 'ser')] = Model(lambda I2, a, k: g['ser'], 'cssutils.ser (read)', assumed=False)
    M[cssutils.setSerializer] = Model(lambda I2, a, k: g.__setitem__('ser', a[0]), 'cssutils.setSerializer: globals().update(ser=serializer)', assumed=False)
    M[('new', cssutils.serialize.CSSSerializer)] = Model(lambda I2, a, k: Obj(SerStub, {'prefs': Obj(PrefsStub, {'written': False}), 'owner': 'csscombine'}), 'a fresh CSSSerializer', assumed=True)
    M[cssutils.serialize.CSSSerializer] = M[('new', cssutils.serialize.CSSSerializer)]

    def prefs_write(I2, a, k):
        a[0].fields['written'] = True
        return None

    M[('method', PrefsStub, 'useMinified')] = Model(prefs_write, 'Preferences.useMinified: writes this preference object only', assumed=True)
    # (attribute stores on a concrete object are modelled per object: the caller's preference object records every write)
    for attr in ('resolveVariables', 'keepComments', 'indent', 'lineSeparator'):
        M[('setattr', id(user_prefs), attr)] = Model(lambda I2, a, k: prefs_write(I2, a, k), 'write to the CALLER\'s preference object', assumed=False)
    log = cssutils.log
    for n in ('info', 'warn', 'error', 'debug'):
        M[('method', type(log), n)] = Model(lambda I2, a, k: None, 'log.%s(..., neverraise=True): own contract (errorhandler)' % n, assumed=False)
    parser = Obj(ParserStub)
    sheet = Obj(SheetStub)
    M[cssutils.CSSParser] = _may_raise('CSSParser', lambda I2, a, k: parser)
    M[('new', cssutils.CSSParser)] = M[cssutils.CSSParser]
    for n in ('parseFile', 'parseUrl', 'parseString'):
        M[('method', ParserStub, n)] = _may_raise('parser.' + n, lambda I2, a, k: sheet)
    M[cssutils.resolveImports] = _may_raise('resolveImports', lambda I2, a, k: sheet)
    M[('setattr', SheetStub, 'encoding')] = _may_raise('sheet.encoding = ...', None)
    M[('getattr', SheetStub, 'cssText')] = _may_raise('sheet.cssText', lambda I2, a, k: I2.p.fresh('bytes', 'csstext'))

    def sys_exit(I2, a, k):
        raise PyRaise(ExcVal(SystemExit))

    M[sys.exit] = Model(sys_exit, 'sys.exit raises SystemExit', assumed=False)
    return {'path': p.fresh_opt('str', 'path'), 'url': p.fresh_opt('str', 'url'), 'cssText': p.fresh_opt('str', 'cssText'), 'href': p.fresh_opt('str', 'href'),
            'sourceencoding': p.fresh_opt('str', 'sourceencoding'), 'targetencoding': p.fresh_opt('str', 'targetencoding'), 'minify': p.fresh('bool', 'minify'),
            'resolveVariables': p.fresh('bool', 'resolveVariables')}


def serializer_as_found(ghost):
    return ghost['ser'] is ghost['ser0'] and not ghost['user_prefs'].written


CC.ensures.append(Clause('the_callers_serializer_is_back_and_its_preferences_untouched_on_return', serializer_as_found))
for _ec in EXITS:
    CC.raises.append((_ec, [Clause('the_callers_serializer_is_back_and_its_preferences_untouched_on_raise', serializer_as_found)]))
