"""Sidecar contracts for cssutils/css/cssstylesheet.py (C09, C11, C15, C08)."""
import xml.dom

from pyvc.api import *
from pyvc import heap as H
from pyvc.target import contract_model

UNKNOWN, STYLE, CHARSET, IMPORT, MEDIA, FONT_FACE, PAGE, NAMESPACE = 0, 1, 2, 3, 4, 5, 6, 10
COMMENT, VARIABLES = 1001, 1008
MARGIN = 1006
ALL_TYPES = (UNKNOWN, STYLE, CHARSET, IMPORT, MEDIA, FONT_FACE, PAGE, NAMESPACE, COMMENT, VARIABLES)


def _rule_schema():
    import cssutils.css as C
    assert (C.CSSRule.UNKNOWN_RULE, C.CSSRule.STYLE_RULE, C.CSSRule.CHARSET_RULE, C.CSSRule.IMPORT_RULE, C.CSSRule.MEDIA_RULE, C.CSSRule.FONT_FACE_RULE,
            C.CSSRule.PAGE_RULE, C.CSSRule.NAMESPACE_RULE, C.CSSRule.COMMENT, C.CSSRule.VARIABLES_RULE) == ALL_TYPES, 'rule type constants changed'
    if 'rule' not in H.SCHEMAS:
        H.schema('sheet', {}, None)
        H.schema('rule', {'type': 'int', 'wellformed': 'bool', '_parentStyleSheet': ('ref', 'sheet'), '_parentRule': ('ref', 'rule'), 'encoding': 'str',
                          'prefix': 'str', 'namespaceURI': 'str', 'hrefFound': 'bool', 'href': 'optstr'}, C.CSSRule)
    return H.SCHEMAS['rule']


# ------------------------------------------------------------------ the structural invariant of the statement
@spec
def rank(t):
    """ordering class of a rule type: @import < @namespace < @variables < style/media/page/font-face; -1: unconstrained (comments,
    unknown rules).  The statement names @import, @namespace and the style-like rules; the cssutils-only @variables rule takes its
    place from the statement's last sentence (the parser drops an @variables rule that follows a style rule, so any other order
    loses a rule on reparse)."""
    if t == IMPORT:
        return 1
    if t == NAMESPACE:
        return 2
    if t == VARIABLES:
        return 3
    if t == STYLE or t == MEDIA or t == PAGE or t == FONT_FACE:
        return 4
    return -1


@spec
def well_ordered(rules):
    n = len(rules)
    return (all(rules[k].type != CHARSET for k in range(1, n))
            and all(rank(rules[a].type) <= rank(rules[b].type) for a in range(n) for b in range(a + 1, n)
                    if rank(rules[a].type) >= 0 and rank(rules[b].type) >= 0))


@spec
def linked(sheet):
    return all(r._parentStyleSheet is sheet and r._parentRule is None for r in sheet._cssRules)


@spec
def same_rules(now, before):
    return len(now) == len(before) and all(now[k] is before[k] for k in range(len(before)))


class LogStub:
    pass


class NamespacesStub:
    pass


def m_log(I, args, kw):
    """contract of _ErrorHandler.__handle (its own target under C05/C01): raises `error` iff raising mode and not neverraise"""
    err = kw.get('error', args[3] if len(args) > 3 else xml.dom.SyntaxErr)
    never = kw.get('neverraise', args[4] if len(args) > 4 else False)
    if err is None:
        err = xml.dom.SyntaxErr
    if never is True:
        return None
    if I.p.choose(I.p.ghost['RAISE']):
        raise PyRaise(ExcVal(err))
    return None


def mk_sheet(I, with_rule=True):
    """a CSSStyleSheet with an arbitrary rule list of arbitrary length, in raising or logging mode"""
    import cssutils.css as C
    import cssutils.util as U
    p = I.p
    sch = _rule_schema()
    p.counter += 1
    rules = H.SymList(z3.Array(f'rules0!{p.counter}', z3.IntSort(), z3.IntSort()), z3.Int(f'nrules0!{p.counter}'), sch)
    p.assume(rules.length >= 0)
    k = H._bound_var(p)
    # list elements are proper objects (ids > 0), pairwise distinct, each of a known rule type
    p.assume(z3.ForAll([k], z3.Implies(z3.And(k >= 0, k < rules.length), z3.Select(rules.elems, k) > 0)))
    a, b = H._bound_var(p), H._bound_var(p)
    p.assume(z3.ForAll([a, b], z3.Implies(z3.And(a >= 0, a < b, b < rules.length), z3.Select(rules.elems, a) != z3.Select(rules.elems, b))))
    tarr = H.heap_array(p, sch, 'type')
    x = H._bound_var(p)
    p.assume(z3.ForAll([x], z3.Or(*[z3.Select(tarr, x) == t for t in ALL_TYPES])))
    p.ghost['RAISE'] = z3.Bool('RAISE')
    p.use_quantifier_mode()
    log = Obj(LogStub)
    ns = Obj(NamespacesStub)
    sheet = Obj(C.CSSStyleSheet, {'_cssRules': rules, '_readonly': p.fresh('bool', 'readonly'), '_log': log, '_namespaces': ns})
    M = p.engine.models
    for n in ('error', 'warn', 'warning', 'info', 'debug'):
        M[('method', LogStub, n)] = Model(m_log, '_log.%s: contract of _ErrorHandler.__handle' % n, assumed=False)
    M[('iter', C.CSSStyleSheet)] = Model(lambda I2, a_, k_: a_[0].fields['_cssRules'], 'CSSStyleSheet.__iter__ yields the rule list', assumed=False)
    M[('method', NamespacesStub, '__contains__')] = Model(lambda I2, a_, k_: I2.p.fresh('bool', 'ns_has'), 'sheet.namespaces.__contains__: pure', assumed=True)
    M[('method', NamespacesStub, '__getitem__')] = Model(lambda I2, a_, k_: I2.p.fresh('str', 'ns_uri'), 'sheet.namespaces[prefix]: pure', assumed=True)
    M[C.CSSStyleSheet._updateVariables] = Model(lambda I2, a_, k_: None, 'CSSStyleSheet._updateVariables: writes only self._variables', assumed=True)
    p.engine.inline.add(U._BaseClass._checkReadonly)
    return sheet, rules, sch


def fresh_rule(I, sch, rules, hint='rule'):
    p = I.p
    p.counter += 1
    rid = z3.Int(f'{hint}!id!{p.counter}')
    p.assume(rid > 0)
    k = H._bound_var(p)
    p.assume(z3.ForAll([k], z3.Implies(z3.And(k >= 0, k < rules.length), z3.Select(rules.elems, k) != rid)))
    return H.SymObj(rid, sch)


def m_set_encoding(I, args, kw):
    """CSSCharsetRule.encoding = x: accepted (field updated) or rejected (logged / raised, unchanged)"""
    o, name, v = args
    p = I.p
    p.counter += 1
    if p.choose(z3.Bool(f'encoding_accepted!{p.counter}')):
        H.write_field(I, o, 'encoding', v)
        return None
    if p.choose(p.ghost['RAISE']):
        raise PyRaise(ExcVal(xml.dom.SyntaxErr))
    return None


def m_set_href(I, args, kw):
    return None


# ------------------------------------------------------------------ deleteRule
DR = register(Target('cssutils/css/cssstylesheet.py', 'CSSStyleSheet.deleteRule', ['C09', 'C11', 'C15']))


@DR.inputs
def _in_dr(I):
    import cssutils.css as C
    sheet, rules, sch = mk_sheet(I)
    M = I.p.engine.models
    M[C.CSSStyleSheet._getUsedURIs] = Model(lambda I2, a, k: Obj(UsedStub), 'CSSStyleSheet._getUsedURIs: pure, returns a set of URIs', assumed=True)
    M[('method', UsedStub, '__contains__')] = Model(lambda I2, a, k: I2.p.fresh('bool', 'uri_used'), 'uri in useduris', assumed=True)
    M[('method', 'SymList', 'count')] = Model(lambda I2, a, k: I2.p.fresh('int', 'count'), 'list.count', assumed=True)
    return {'self': sheet, 'index': I.p.fresh('int', 'index'), 'rules': rules}


class UsedStub:
    pass


@DR.require
def sheet_is_structurally_valid(self):
    return well_ordered(self._cssRules) and linked(self)


@DR.ensure
def stays_structurally_valid(self):
    return well_ordered(self._cssRules) and linked(self)


@DR.ensure
def removes_exactly_that_rule(self, index, old):
    before = old['self']._cssRules
    i = index if index >= 0 else len(before) + index
    return (len(self._cssRules) == len(before) - 1
            and all(self._cssRules[k] is before[k] for k in range(0, i))
            and all(self._cssRules[k] is before[k + 1] for k in range(i, len(before) - 1)))


@DR.ensure
def removed_rule_names_no_sheet(index, old):
    before = old['self']._cssRules
    i = index if index >= 0 else len(before) + index
    return now(before[i])._parentStyleSheet is None


@DR.on_raise(xml.dom.DOMException, name='rejected_changes_nothing')
def _dr_rej(self, old):
    return same_rules(self._cssRules, old['self']._cssRules) and linked(self)


# ------------------------------------------------------------------ native concretisation for replays
def make_rule(t):
    import cssutils.css as C
    mk = {CHARSET: lambda: C.CSSCharsetRule('utf-8'), IMPORT: lambda: C.CSSImportRule(href='x.css'), NAMESPACE: lambda: C.CSSNamespaceRule(namespaceURI='u%d' % id(object()), prefix='p%d' % (id(object()) % 997)),
          VARIABLES: lambda: C.CSSVariablesRule(), MEDIA: lambda: C.CSSMediaRule(), PAGE: lambda: C.CSSPageRule(), FONT_FACE: lambda: C.CSSFontFaceRule(),
          STYLE: lambda: C.CSSStyleRule(selectorText='a'), COMMENT: lambda: C.CSSComment('/*c*/'), UNKNOWN: lambda: C.CSSUnknownRule('@x;')}
    return mk[t]()


class Pre:
    """pre-state view handed to clauses as old['self']"""

    def __init__(self, rules):
        self._cssRules = list(rules)


def build_sheet(conc_self):
    """real CSSStyleSheet whose rule list has the model's type sequence (rules placed without going through insertRule)"""
    import cssutils
    import cssutils.css as C
    lst = conc_self['fields']['_cssRules']
    sheet = C.CSSStyleSheet()
    sheet._fetcher = lambda url: None
    byid = {}
    for d in lst['__symlist__']:
        r = make_rule(d['type'])
        list.append(sheet._cssRules, r)
        r._parentStyleSheet = sheet
        byid[d['id']] = r
    sheet._readonly = bool(conc_self['fields'].get('_readonly', False))
    return sheet, byid


def _native_mode(model):
    import cssutils
    raise_mode = z3.is_true(model.eval(z3.Bool('RAISE'), model_completion=True))
    return raise_mode


def _dr_native(mod, conc, model):
    import cssutils
    sheet, byid = build_sheet(conc['self'])
    saved = cssutils.log.raiseExceptions
    cssutils.log.raiseExceptions = _native_mode(model)
    conc['self'] = Pre(sheet._cssRules)
    try:
        try:
            r = sheet.deleteRule(conc['index'])
            return ('return', r, {'self': sheet})
        except Exception as e:
            return ('raise', e, {'self': sheet})
    finally:
        cssutils.log.raiseExceptions = saved


DR.native_call = _dr_native


# ------------------------------------------------------------------ _cleanNamespaces (contract used by callers; own target below)
def m_clean_namespaces(I, args, kw):
    """contract: the new rule list is the old one with some @namespace rules removed (order of the others kept); removed rules
    no longer name the sheet, nothing else changes"""
    p = I.p
    sheet = args[0]
    L = sheet.fields['_cssRules']
    sch = L.schema
    p.counter += 1
    c = p.counter
    new_e = z3.Array(f'clean_elems!{c}', z3.IntSort(), z3.IntSort())
    new_n = z3.Int(f'clean_len!{c}')
    f = z3.Function(f'clean_keep!{c}', z3.IntSort(), z3.IntSort())
    tarr = H.heap_array(p, sch, 'type')
    parr = H.heap_array(p, sch, '_parentStyleSheet')
    new_p = z3.Array(f'clean_parent!{c}', z3.IntSort(), z3.IntSort())
    k, a, b, j, x = (H._bound_var(p) for _ in range(5))
    p.assume(z3.And(new_n >= 0, new_n <= L.length))
    p.assume(z3.ForAll([k], z3.Implies(z3.And(k >= 0, k < new_n), z3.And(f(k) >= k, f(k) < L.length, z3.Select(new_e, k) == z3.Select(L.elems, f(k))))))
    p.assume(z3.ForAll([a, b], z3.Implies(z3.And(a >= 0, a < b, b < new_n), f(a) < f(b))))
    kept = lambda jj: z3.Exists([k], z3.And(k >= 0, k < new_n, f(k) == jj))
    p.assume(z3.ForAll([j], z3.Implies(z3.And(j >= 0, j < L.length), z3.Or(kept(j), z3.Select(tarr, z3.Select(L.elems, j)) == NAMESPACE))))
    # parent links: kept rules unchanged; removed ones cleared
    p.assume(z3.ForAll([k], z3.Implies(z3.And(k >= 0, k < new_n), z3.Select(new_p, z3.Select(new_e, k)) == z3.Select(parr, z3.Select(new_e, k)))))
    p.assume(z3.ForAll([j], z3.Implies(z3.And(j >= 0, j < L.length, z3.Not(kept(j))), z3.Select(new_p, z3.Select(L.elems, j)) == 0)))
    L.elems = new_e
    L.length = new_n
    p.heap[(sch.name, '_parentStyleSheet')] = new_p
    return None


# ------------------------------------------------------------------ insertRule (rule given as a CSSRule object)
IR = register(Target('cssutils/css/cssstylesheet.py', 'CSSStyleSheet.insertRule', ['C09', 'C11', 'C15'], name='cssutils/css/cssstylesheet.py::CSSStyleSheet.insertRule[rule object]'))


@IR.inputs
def _in_ir(I):
    import cssutils.css as C
    p = I.p
    sheet, rules, sch = mk_sheet(I)
    rule = fresh_rule(I, sch, rules)
    M = p.engine.models
    M[('setattr', 'rule', 'encoding')] = Model(m_set_encoding, 'CSSCharsetRule.encoding setter: accepted (updated) or rejected (unchanged; raises in raising mode)', assumed=True)
    M[('setattr', 'rule', 'href')] = Model(m_set_href, 'CSSImportRule.href setter: writes only the import rule\'s own href/styleSheet state', assumed=True)
    M[C.CSSStyleSheet._cleanNamespaces] = Model(m_clean_namespaces, 'CSSStyleSheet._cleanNamespaces (own contract)', assumed=False)
    idx = p.fresh_opt('int', 'index')
    return {'self': sheet, 'rule': rule, 'index': idx, 'inOrder': p.fresh('bool', 'inOrder'), '_clean': True}


@IR.require
def sheet_is_structurally_valid(self):
    return well_ordered(self._cssRules) and linked(self)


@IR.require
def rule_is_detached(rule):
    return rule._parentStyleSheet is None and rule._parentRule is None


@IR.ensure
def stays_structurally_valid(self):
    return well_ordered(self._cssRules) and linked(self)


@IR.ensure
def returns_the_index_of_the_inserted_rule(self, rule, result):
    # (not part of the C09 statement; for @namespace rules the clean-up may shift positions after the index was computed)
    return (result is None or rule.type == NAMESPACE or not any(r is rule for r in self._cssRules)
            or (0 <= result and result < len(self._cssRules) and self._cssRules[result] is rule))


@IR.ensure
def a_rule_that_was_not_inserted_does_not_name_the_sheet(self, rule):
    return any(r is rule for r in self._cssRules) or rule._parentStyleSheet is None


@IR.on_raise(xml.dom.DOMException, name='rejected_changes_nothing')
def _ir_rej(self, rule, old):
    return same_rules(self._cssRules, old['self']._cssRules) and linked(self) and rule._parentStyleSheet is None


def _ir_native(mod, conc, model):
    import cssutils
    sheet, byid = build_sheet(conc['self'])
    rule = make_rule(conc['rule']['type'])
    saved = cssutils.log.raiseExceptions
    cssutils.log.raiseExceptions = _native_mode(model)
    conc['self'] = Pre(sheet._cssRules)
    try:
        try:
            r = sheet.insertRule(rule, conc['index'], conc['inOrder'])
            return ('return', r, {'self': sheet, 'rule': rule})
        except Exception as e:
            return ('raise', e, {'self': sheet, 'rule': rule})
    finally:
        cssutils.log.raiseExceptions = saved


IR.native_call = _ir_native
