"""Sidecar contracts for the token callbacks of CSSStyleDeclaration._setCssText (C04): callers of Base._tokensupto2 verified against ITS
contract (contracts/util_tokensupto2.py), not its body.

  unexpected(expected, seq, token, tokenizer)   the malformed declaration that starts with `token` is consumed exactly up to and including its
                                                 own end - the first ';' at which the nesting levels counted from `token` are back at zero (or the
                                                 end of the block) -, nothing is stored, the parse state `expected` is handed back unchanged
  ident(expected, seq, token, tokenizer)        a declaration is carved out the same way; at most one item is stored

Both are nested functions: the names they take from the enclosing scope (`self`) are supplied as the closure.
"""
import xml.dom

from pyvc.api import *
from pyvc import heap as H
from pyvc import symex as SX
from contracts import util_tokensupto2 as TU

I_ = z3.IntSort()


class LogStub:
    pass


class SeqStub:
    pass


class PropStub:
    pass


def _setup(I, want_property):
    import cssutils.css as C
    import cssutils.css.cssstyledeclaration as CSD
    import cssutils.util as U
    p = I.p
    p.use_quantifier_mode()
    sch = TU._schema()
    p.counter += 1
    stream = H.SymList(z3.Array(f'stream!{p.counter}', I_, I_), z3.Int(f'streamlen!{p.counter}'), sch)
    c0 = z3.Int(f'c0!{p.counter}')
    p.assume(z3.And(stream.length >= 0, c0 >= 0, c0 <= stream.length))
    k = H._bound_var(p)
    p.assume(z3.ForAll([k], z3.Implies(z3.And(k >= 0, k < stream.length), z3.Select(stream.elems, k) > 0)))
    p.counter += 1
    token = H.SymObj(z3.Int(f'token!{p.counter}'), sch)
    p.assume(token.id > 0)
    it = H.SymIter(stream, c0)
    g = p.ghost
    g['stream'], g['c0'], g['token'], g['stored'] = stream, c0, token, []
    g['RAISE'] = z3.Bool('RAISE')
    me = Obj(C.CSSStyleDeclaration, {'_log': Obj(LogStub, {'enabled': p.fresh('bool', 'log_enabled'), 'raiseExceptions': SX.Sym('bool', g['RAISE'])})})
    M = p.engine.models
    M[U.Base._tokensupto2] = TU.callee(assumed=False)
    M[('method', C.CSSStyleDeclaration, '_tokensupto2')] = M[U.Base._tokensupto2]
    M[U.Base._valuestr] = Model(lambda I2, a, k_: I2.p.fresh('str', 'valuestr'), 'Base._valuestr: some text for the log message', assumed=True)
    M[('method', C.CSSStyleDeclaration, '_valuestr')] = M[U.Base._valuestr]
    p.engine.inline.add(U.Base._tokenvalue)

    def m_log(I2, a, k_):
        # the error handler's own contract (contracts/errorhandler.py): raises the DOM exception iff raising mode is on
        if I2.p.choose(g['RAISE']):
            raise PyRaise(ExcVal(xml.dom.SyntaxErr))
        return None

    for n in ('error', 'warn', 'info', 'debug'):
        M[('method', LogStub, n)] = Model(m_log, '_log.%s: contract of _ErrorHandler.__handle' % n, assumed=False)
    seq = Obj(SeqStub)
    M[('method', SeqStub, 'append')] = Model(lambda I2, a, k_: g['stored'].append(a[1]), 'Seq.append: stores one item', assumed=True)
    if want_property:
        prop = Obj(PropStub, {'wellformed': p.fresh('bool', 'property_wellformed')})
        prop.plain_setattr = True
        M[CSD.Property] = Model(lambda I2, a, k_: prop, 'Property(parent=self): a new property object', assumed=True)
        M[('new', CSD.Property)] = M[CSD.Property]

        def set_text(I2, a, k_):
            if I2.p.choose(g['RAISE']):
                I2.p.counter += 1
                if I2.p.choose(z3.Bool(f'property_text_rejected!{I2.p.counter}')):
                    raise PyRaise(ExcVal(xml.dom.SyntaxErr))
            return None

        M[('setattr', PropStub, 'cssText')] = Model(set_text, 'Property.cssText = tokens: parses the carved-out tokens (may raise in raising mode); does not touch the token iterator', assumed=True)
    expected = p.fresh_opt('str', 'expected')
    return {'expected': expected, 'seq': seq, 'token': token, 'tokenizer': it, '__closure__': {'self': me, 'Property': CSD.Property}}


def consumed_exactly_the_declaration(ghost, tokenizer):
    raise NotImplementedError('symbolic only')


def _m_consumed(I, args, kw):
    ghost, it = args
    p = I.p
    skips = ghost.get('skips', [])
    if len(skips) != 1:
        return Sym('bool', z3.BoolVal(False))  # the declaration is carved out by exactly one skip
    sk = skips[0]
    ok_shape = sk['mode'] == 'semicolon' and sk['start'] is not None and sk['start'].id is ghost['token'].id and sk['c0'] is ghost['c0']
    if not ok_shape:
        return Sym('bool', z3.BoolVal(False))
    # the statement, over the same level functions the callee contract speaks about: nothing behind the end of the declaration is consumed
    g = sk['g']
    e = it.cursor
    j = H._bound_var(p, 'j')
    n = ghost['stream'].length
    c0 = ghost['c0']
    return Sym('bool', z3.And(e >= c0, e <= n, z3.ForAll([j], z3.Implies(z3.And(j >= c0, j < e - 1), z3.Not(g.stop(j)))),
                              z3.Or(z3.And(e > c0, g.stop(e - 1)), z3.And(e == n, z3.Or(e == c0, z3.Not(g.stop(e - 1)))))))


def _mk(fn, want_property):
    t = register(Target('cssutils/css/cssstyledeclaration.py', f'CSSStyleDeclaration._setCssText.{fn}', ['C04'],
                        name=f'cssutils/css/cssstyledeclaration.py::CSSStyleDeclaration._setCssText.<locals>.{fn}'))
    t.models[consumed_exactly_the_declaration] = Model(_m_consumed, 'post (z3)', assumed=False)

    @t.inputs
    def _in(I):
        return _setup(I, want_property)

    if fn == 'unexpected':
        @t.ensure
        def skips_exactly_the_malformed_declaration_and_stores_nothing(ghost, tokenizer, expected, result):
            return consumed_exactly_the_declaration(ghost, tokenizer) and len(ghost['stored']) == 0 and result is expected

        @t.on_raise(xml.dom.SyntaxErr)
        def the_report_comes_after_the_skip(ghost, tokenizer):
            return consumed_exactly_the_declaration(ghost, tokenizer) and len(ghost['stored']) == 0
    else:
        @t.ensure
        def carves_out_exactly_one_declaration_and_stores_at_most_one_item(ghost, tokenizer, expected, result):
            return consumed_exactly_the_declaration(ghost, tokenizer) and len(ghost['stored']) <= 1 and result is expected

        @t.on_raise(xml.dom.SyntaxErr)
        def a_rejected_declaration_is_still_consumed_whole(ghost, tokenizer):
            return consumed_exactly_the_declaration(ghost, tokenizer) and len(ghost['stored']) == 0
    return t


UNEXPECTED = _mk('unexpected', False)
IDENT = _mk('ident', True)
