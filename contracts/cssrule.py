"""Sidecar contracts for nested rule lists: cssutils/css/cssrule.py CSSRuleRules, cssmediarule.py, csspagerule.py (C09, C11)."""
import xml.dom

from pyvc.api import *
from pyvc import heap as H
from contracts.cssstylesheet import (UNKNOWN, STYLE, CHARSET, IMPORT, MEDIA, FONT_FACE, PAGE, NAMESPACE, COMMENT, VARIABLES, MARGIN, ALL_TYPES, LogStub, m_log,
                                     _rule_schema, fresh_rule, same_rules, make_rule, _native_mode)

NESTED_TYPES = ALL_TYPES + (MARGIN,)


def class_by_type():
    import cssutils.css as C
    m = {UNKNOWN: C.CSSUnknownRule, STYLE: C.CSSStyleRule, CHARSET: C.CSSCharsetRule, IMPORT: C.CSSImportRule, MEDIA: C.CSSMediaRule, FONT_FACE: C.CSSFontFaceRule,
         PAGE: C.CSSPageRule, NAMESPACE: C.CSSNamespaceRule, COMMENT: C.CSSComment, VARIABLES: C.CSSVariablesRule, MARGIN: C.MarginRule}
    for t, k in m.items():
        # T1-finite side condition: the class really carries that constant as its type
        assert k.type.fget(object.__new__(k)) == t if isinstance(k.type, property) else True
    return m


def mk_container(I, cls):
    """an @media / @page rule with an arbitrary nested rule list"""
    import cssutils.util as U
    p = I.p
    sch = _rule_schema()
    sch.class_by_type = class_by_type()
    p.counter += 1
    rules = H.SymList(z3.Array(f'nested0!{p.counter}', z3.IntSort(), z3.IntSort()), z3.Int(f'nrules0!{p.counter}'), sch)
    p.assume(rules.length >= 0)
    k = H._bound_var(p)
    p.assume(z3.ForAll([k], z3.Implies(z3.And(k >= 0, k < rules.length), z3.Select(rules.elems, k) > 0)))
    a, b = H._bound_var(p), H._bound_var(p)
    p.assume(z3.ForAll([a, b], z3.Implies(z3.And(a >= 0, a < b, b < rules.length), z3.Select(rules.elems, a) != z3.Select(rules.elems, b))))
    tarr = H.heap_array(p, sch, 'type')
    x = H._bound_var(p)
    p.assume(z3.ForAll([x], z3.Or(*[z3.Select(tarr, x) == t for t in NESTED_TYPES])))
    p.ghost['RAISE'] = z3.Bool('RAISE')
    p.use_quantifier_mode()
    log = Obj(LogStub)
    me = Obj(cls, {'_cssRules': rules, '_readonly': p.fresh('bool', 'readonly'), '_log': log})
    M = p.engine.models
    for n in ('error', 'warn', 'warning', 'info', 'debug'):
        M[('method', LogStub, n)] = Model(m_log, '_log.%s: contract of _ErrorHandler.__handle' % n, assumed=False)
    M[('getattr', 'rule', 'cssText')] = Model(lambda I2, a_, k_: Opaque('cssText'), 'rule.cssText (only used in a log message)', assumed=True)
    p.engine.inline.add(U._BaseClass._checkReadonly)
    return me, rules, sch


FORBIDDEN = {'media': (CHARSET, FONT_FACE, IMPORT, NAMESPACE, MARGIN), 'page': (CHARSET, FONT_FACE, IMPORT, NAMESPACE, PAGE, MEDIA)}


@spec
def allowed_in_media(t):
    return t != CHARSET and t != FONT_FACE and t != IMPORT and t != NAMESPACE and t != MARGIN


@spec
def allowed_in_page(t):
    return t != CHARSET and t != FONT_FACE and t != IMPORT and t != NAMESPACE and t != PAGE and t != MEDIA


@spec
def nested_valid_media(me):
    return all(allowed_in_media(r.type) and r._parentRule is me and r._parentStyleSheet is None for r in me._cssRules)


@spec
def nested_valid_page(me):
    return all(allowed_in_page(r.type) and r._parentRule is me and r._parentStyleSheet is None for r in me._cssRules)


@spec
def inv_media(self):
    return nested_valid_media(self)


@spec
def inv_page(self):
    return nested_valid_page(self)


class Pre:
    def __init__(self, rules):
        self._cssRules = list(rules)


def build_container(cls, conc_self):
    me = cls()
    byid = {}
    for d in conc_self['fields']['_cssRules']['__symlist__']:
        r = make_rule(d['type']) if d['type'] != MARGIN else __import__('cssutils').css.MarginRule('@top-left')
        list.append(me._cssRules, r)
        r._parentRule = me
        r._parentStyleSheet = None
        byid[d['id']] = r
    me._readonly = bool(conc_self['fields'].get('_readonly', False))
    return me, byid


def _mk_insert_target(clsname, file, inv, which):
    T_ = register(Target(file, f'{clsname}.insertRule', ['C09', 'C11'], name=f'{file}::{clsname}.insertRule[rule object]'))

    def _in(I):
        import cssutils.css as C
        import cssutils.css.cssrule as CR
        cls = getattr(C, clsname)
        me, rules, sch = mk_container(I, cls)
        rule = fresh_rule(I, sch, rules)
        M = I.p.engine.models
        M[CR.CSSRuleRules._prepareInsertRule] = Model(m_prepare, 'CSSRuleRules._prepareInsertRule (own contract)', assumed=False)
        M[CR.CSSRuleRules._finishInsertRule] = Model(m_finish, 'CSSRuleRules._finishInsertRule (own contract)', assumed=False)
        return {'self': me, 'rule': rule, 'index': I.p.fresh_opt('int', 'index')}

    T_.setup = _in
    T_.requires.append(Clause('nested_list_is_valid', inv))
    T_.requires.append(Clause('rule_is_detached', _detached))
    T_.ensures.append(Clause('nested_list_stays_valid', inv))
    T_.ensures.append(Clause('inserted_at_the_returned_index_or_nothing', _ins_post))
    T_.raises.append((xml.dom.DOMException, [Clause('rejected_changes_nothing', _rej_post)]))

    def native(mod, conc, model):
        import cssutils
        import cssutils.css as C
        me, byid = build_container(getattr(C, clsname), conc['self'])
        t = conc['rule']['type']
        rule = make_rule(t) if t != MARGIN else C.MarginRule('@top-left')
        saved = cssutils.log.raiseExceptions
        cssutils.log.raiseExceptions = _native_mode(model)
        conc['self'] = Pre(me._cssRules)
        try:
            try:
                return ('return', me.insertRule(rule, conc['index']), {'self': me, 'rule': rule})
            except Exception as e:
                return ('raise', e, {'self': me, 'rule': rule})
        finally:
            cssutils.log.raiseExceptions = saved

    T_.native_call = native
    return T_


@spec
def _detached(rule):
    return rule._parentStyleSheet is None and rule._parentRule is None


@spec
def _ins_post(self, rule, old, result):
    before = old['self']._cssRules
    return ((result is None and same_rules(self._cssRules, before) and rule._parentRule is None)
            or (result is not None and 0 <= result and result <= len(before) and len(self._cssRules) == len(before) + 1
                and self._cssRules[result] is rule and rule._parentRule is self
                and all(self._cssRules[k] is before[k] for k in range(0, result))
                and all(self._cssRules[k + 1] is before[k] for k in range(result, len(before)))))


@spec
def _rej_post(self, rule, old):
    return same_rules(self._cssRules, old['self']._cssRules) and rule._parentRule is None and rule._parentStyleSheet is None


def m_prepare(I, args, kw):
    """proved contract of _prepareInsertRule for a CSSRule object: NoModificationAllowedErr if read-only; IndexSizeErr if the index
    is outside 0..len; otherwise (rule, index or len); writes nothing"""
    me, rule = args[0], args[1]
    index = args[2] if len(args) > 2 else kw.get('index')
    p = I.p
    if p.choose(truth(me.fields['_readonly'])):
        raise PyRaise(ExcVal(xml.dom.NoModificationAllowedErr))
    L = me.fields['_cssRules']
    if isinstance(index, Opt):
        if p.choose(index.isnone):
            index = None
        else:
            index = index.val
    if index is None:
        return (rule, Sym('int', L.length))
    it = index.t if isinstance(index, Sym) else z3.IntVal(index)
    if p.choose(z3.Or(it < 0, it > L.length)):
        raise PyRaise(ExcVal(xml.dom.IndexSizeErr))
    return (rule, index)


def m_finish(I, args, kw):
    """proved contract of _finishInsertRule: rule inserted at index, names the container and no sheet; returns index"""
    me, rule, index = args
    H.write_field(I, rule, '_parentRule', me)
    H.write_field(I, rule, '_parentStyleSheet', None)
    H.lst_insert(I, me.fields['_cssRules'], index, rule)
    return index


MI = _mk_insert_target('CSSMediaRule', 'cssutils/css/cssmediarule.py', inv_media, 'media')
PI = _mk_insert_target('CSSPageRule', 'cssutils/css/csspagerule.py', inv_page, 'page')

# ------------------------------------------------------------------ _prepareInsertRule / _finishInsertRule themselves
PR = register(Target('cssutils/css/cssrule.py', 'CSSRuleRules._prepareInsertRule', ['C09', 'C11'], name='cssutils/css/cssrule.py::CSSRuleRules._prepareInsertRule[rule object]'))


@PR.inputs
def _in_pr(I):
    import cssutils.css as C
    me, rules, sch = mk_container(I, C.CSSMediaRule)
    rule = fresh_rule(I, sch, rules)
    return {'self': me, 'rule': rule, 'index': I.p.fresh_opt('int', 'index')}


@PR.ensure
def returns_rule_and_checked_index(self, rule, index, result):
    return result[0] is rule and result[1] == (len(self._cssRules) if index is None else index) and 0 <= result[1] and result[1] <= len(self._cssRules)


@PR.ensure
def writes_nothing(self, old):
    return same_rules(self._cssRules, old['self']._cssRules)


@PR.on_raise(xml.dom.IndexSizeErr, name='only_for_an_index_outside_the_list')
def _pr_idx(self, index, old):
    return index is not None and (index < 0 or index > len(self._cssRules)) and same_rules(self._cssRules, old['self']._cssRules)


@PR.on_raise(xml.dom.NoModificationAllowedErr, name='only_when_readonly')
def _pr_ro(self, old):
    return self._readonly and same_rules(self._cssRules, old['self']._cssRules)


FI = register(Target('cssutils/css/cssrule.py', 'CSSRuleRules._finishInsertRule', ['C09']))


@FI.inputs
def _in_fi(I):
    import cssutils.css as C
    me, rules, sch = mk_container(I, C.CSSMediaRule)
    rule = fresh_rule(I, sch, rules)
    idx = I.p.fresh('int', 'index')
    I.p.assume(z3.And(idx.t >= 0, idx.t <= rules.length))
    return {'self': me, 'rule': rule, 'index': idx}


@FI.ensure
def inserted_there_and_linked(self, rule, index, old, result):
    before = old['self']._cssRules
    return (result == index and len(self._cssRules) == len(before) + 1 and self._cssRules[index] is rule
            and rule._parentRule is self and rule._parentStyleSheet is None
            and all(self._cssRules[k] is before[k] for k in range(0, index))
            and all(self._cssRules[k + 1] is before[k] for k in range(index, len(before))))


# ------------------------------------------------------------------ nested deleteRule
ND = register(Target('cssutils/css/cssrule.py', 'CSSRuleRules.deleteRule', ['C09', 'C11']))


@ND.inputs
def _in_nd(I):
    import cssutils.css as C
    me, rules, sch = mk_container(I, C.CSSMediaRule)
    return {'self': me, 'index': I.p.fresh('int', 'index')}


ND.requires.append(Clause('nested_list_is_valid', inv_media))
ND.ensures.append(Clause('nested_list_stays_valid', inv_media))


@ND.ensure
def removes_exactly_that_rule_and_detaches_it(self, index, old):
    before = old['self']._cssRules
    i = index if index >= 0 else len(before) + index
    return (len(self._cssRules) == len(before) - 1
            and all(self._cssRules[k] is before[k] for k in range(0, i))
            and all(self._cssRules[k] is before[k + 1] for k in range(i, len(before) - 1))
            and now(before[i])._parentRule is None and now(before[i])._parentStyleSheet is None)


@ND.on_raise(xml.dom.DOMException, name='rejected_changes_nothing')
def _nd_rej(self, old):
    return same_rules(self._cssRules, old['self']._cssRules) and nested_valid_media(self)


# ------------------------------------------------------------------ nested deleteRule by RULE OBJECT (the other argument form)
# `index` may be a rule: a member is removed (first occurrence) and detached; a rule that is NOT a member is refused with IndexSizeErr and
# nothing at all is written - in particular not the argument's own parent link (it may sit in another nested list of the same sheet).
NDO = register(Target('cssutils/css/cssrule.py', 'CSSRuleRules.deleteRule', ['C09', 'C11'], name='cssutils/css/cssrule.py::CSSRuleRules.deleteRule[rule object]'))


@NDO.inputs
def _in_ndo(I):
    import cssutils.css as C
    me, rules, sch = mk_container(I, C.CSSMediaRule)
    p = I.p
    p.counter += 1
    rid = z3.Int(f'argrule!id!{p.counter}')
    p.assume(rid > 0)  # any rule object: a member of the list or not
    return {'self': me, 'index': H.SymObj(rid, sch)}


NDO.requires.append(Clause('nested_list_is_valid', inv_media))
NDO.ensures.append(Clause('nested_list_stays_valid', inv_media))


@spec
def _is_member(rules, rule):
    return any(rules[k] is rule for k in range(len(rules)))


@NDO.ensure
def removes_exactly_that_member_and_detaches_it(self, index, old):
    before = old['self']._cssRules
    return (_is_member(before, index) and len(self._cssRules) == len(before) - 1 and not _is_member(self._cssRules, index)
            and all(before[k] is index or (k < len(self._cssRules) and self._cssRules[k] is before[k]) or (k >= 1 and self._cssRules[k - 1] is before[k])
                    for k in range(len(before)))
            and index._parentRule is None)


@NDO.on_raise(xml.dom.IndexSizeErr, name='only_a_non_member_is_refused_and_nothing_is_written')
def _ndo_rej(self, index, old):
    return (not _is_member(old['self']._cssRules, index) and same_rules(self._cssRules, old['self']._cssRules) and nested_valid_media(self)
            and index._parentRule is old['index']._parentRule)


@NDO.on_raise(xml.dom.NoModificationAllowedErr, name='only_when_readonly_and_nothing_is_written')
def _ndo_ro(self, index, old):
    return self._readonly and same_rules(self._cssRules, old['self']._cssRules) and index._parentRule is old['index']._parentRule


def _ndo_native(mod, conc, model):
    """the model's list; the argument is the member with the model's id, else a rule that sits in ANOTHER @media rule"""
    import types
    import cssutils.css as C
    me, byid = build_container(C.CSSMediaRule, conc['self'])
    rid = conc['index']['id']
    if rid in byid:
        rule, was = byid[rid], me
    else:
        other = C.CSSMediaRule()
        rule = make_rule(STYLE)
        list.append(other._cssRules, rule)
        rule._parentRule = other
        was = other
    before = Pre(me._cssRules)
    post = {'self': me, 'index': rule, 'old': {'self': before, 'index': types.SimpleNamespace(_parentRule=was)}}
    try:
        return ('return', me.deleteRule(rule), post)
    except Exception as e:  # noqa: BLE001
        return ('raise', e, post)


NDO.native_call = _ndo_native
