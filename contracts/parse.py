"""Sidecar contracts for cssutils/parse.py (C12, C01): a parse call leaves the library-wide error mode as it found it, on every exit."""
import xml.dom

from pyvc.api import *
from pyvc.api import REGISTRY

EXITS = (UnicodeDecodeError, LookupError, xml.dom.DOMException, OSError, ValueError, KeyError, RuntimeError)


class TokStub:
    pass


class SheetStub:
    pass


def _may_raise(name, what):
    def fn(I, args, kw):
        p = I.p
        for ec in EXITS:
            p.counter += 1
            if p.choose(z3.Bool(f'{name}_raises_{ec.__name__}!{p.counter}')):
                raise PyRaise(ExcVal(ec))
        return what(I, args, kw) if what else None
    return Model(fn, f'{name}: returns, or raises any of {[e.__name__ for e in EXITS]} (fetcher / decoder / DOM exceptions); leaves the error mode as found (induction over nested parse calls)', assumed=True)


qual_is_parseString = [False]


def mk_parser(I):
    import cssutils
    import cssutils.parse as P
    import codecs
    p = I.p
    g = p.ghost
    g['mode'] = p.fresh('bool', 'raiseExceptions_at_entry')
    g['mode0'] = g['mode']
    log = cssutils.log
    M = p.engine.models
    M[('getattr', id(log), 'raiseExceptions')] = Model(lambda I2, a, k: g['mode'], 'cssutils.log.raiseExceptions (read)', assumed=False)
    M[('setattr', id(log), 'raiseExceptions')] = Model(lambda I2, a, k: g.__setitem__('mode', a[2]), 'cssutils.log.raiseExceptions (write)', assumed=False)
    saved = SList([])
    tok = Obj(TokStub)
    me = Obj(P.CSSParser, {'_CSSParser__parseRaising': p.fresh('bool', 'parseRaising'), '_CSSParser__savedRaising': saved, '_CSSParser__tokenizer': tok,
                           '_CSSParser__fetcher': None, '_validate': p.fresh('bool', 'validate')})
    M[('method', TokStub, 'tokenize')] = _may_raise('tokenize', lambda I2, a, k: Opaque('tokens'))
    dec = _may_raise('css_decoder', lambda I2, a, k: (I2.p.fresh('str', 'decoded'), 0))
    M[codecs.getdecoder] = Model(lambda I2, a, k: dec, "codecs.getdecoder('css')", assumed=True)
    sheet = Obj(SheetStub)
    M[cssutils.css.CSSStyleSheet] = _may_raise('CSSStyleSheet', lambda I2, a, k: sheet)
    M[('new', cssutils.css.CSSStyleSheet)] = M[cssutils.css.CSSStyleSheet]
    M[('new', cssutils.stylesheets.MediaList)] = _may_raise('MediaList', lambda I2, a, k: Opaque('medialist'))
    M[('new', cssutils.css.CSSStyleDeclaration)] = _may_raise('CSSStyleDeclaration', lambda I2, a, k: Obj(SheetStub))
    M[('method', SheetStub, '_setFetcher')] = Model(lambda I2, a, k: None, 'sheet._setFetcher', assumed=True)
    inner = _may_raise('_setCssTextWithEncodingOverride', None)

    def set_text(I2, a, k):
        # a user fetcher may call back into the SAME parser object while it resolves an @import: the real function is
        # entered once more (depth 1; deeper re-entries are covered by the contract being proved, by induction)
        if g.get('depth', 0) < 1 and qual_is_parseString[0]:
            I2.p.counter += 1
            if I2.p.choose(z3.Bool(f'fetcher_reenters_parser!{I2.p.counter}')):
                g['depth'] = g.get('depth', 0) + 1
                try:
                    I2.call_func(I2.p.engine.target_func, [me, I2.p.fresh('str', 'nested_text')], {})
                finally:
                    g['depth'] -= 1
        return inner.fn(I2, a, k)

    M[('method', SheetStub, '_setCssTextWithEncodingOverride')] = Model(set_text, inner.name + '; may re-enter parseString of the same parser once', assumed=True)
    M['bytes.decode'] = _may_raise('bytes.decode', lambda I2, a, k: I2.p.fresh('str', 'decoded'))
    p.engine.inline.add(P.CSSParser._CSSParser__parseSetting)
    return me, saved


def mode_restored(ghost, saved):
    return ghost['mode'] == ghost['mode0'] and len(saved) == 0


def _mk(qual, argsetup, name=None):
    T_ = Target('cssutils/parse.py', qual, ['C12', 'C01'], name=name)
    T_.sidecar = __name__
    REGISTRY[T_.name] = T_

    def setup(I):
        qual_is_parseString[0] = qual.endswith('parseString')
        me, saved = mk_parser(I)
        env = {'self': me}
        env.update(argsetup(I))
        env['saved'] = saved
        return env

    T_.setup = setup

    T_.ensures.append(Clause('error_mode_as_found_on_return', mode_restored))
    for ec in EXITS:
        T_.raises.append((ec, [Clause('error_mode_as_found_on_raise', mode_restored)]))
    return T_


PS = _mk('CSSParser.parseString', lambda I: {'cssText': I.p.fresh('bytes', 'cssText'), 'encoding': I.p.fresh_opt('str', 'encoding'), 'href': None, 'media': None,
                                              'title': None, 'validate': None})
PST = _mk('CSSParser.parseString', lambda I: {'cssText': I.p.fresh('str', 'cssText'), 'encoding': I.p.fresh_opt('str', 'encoding'), 'href': None, 'media': None,
                                               'title': None, 'validate': None}, name='cssutils/parse.py::CSSParser.parseString[text]')
PY = _mk('CSSParser.parseStyle', lambda I: {'cssText': I.p.fresh('bytes', 'cssText'), 'encoding': 'utf-8', 'validate': None})


# ------------------------------------------------------------------ native replay: a battery of concrete scenarios around the model's settings
def _native(kind):
    def run(mod, conc, model):
        import cssutils
        import logging
        mode0 = z3.is_true(model.eval(z3.Bool('raiseExceptions_at_entry!1'), model_completion=True)) if False else None
        f = conc['self']['fields']
        parse_raising = bool(f.get('_CSSParser__parseRaising', False))
        saved_level = cssutils.log.getEffectiveLevel()
        cssutils.log.setLevel(logging.FATAL)
        result = None
        try:
            for mode0 in (True, False):
                for reenter in (True, False):
                    for fault in (None, 'fetcher-raises', 'undecodable', 'malformed'):
                        parser = [None]

                        def fetcher(url, parser=parser, reenter=reenter, fault=fault):
                            if reenter:
                                parser[0].parseString('b{left:0}')
                            if fault == 'fetcher-raises':
                                raise ValueError('fetcher failed')
                            return None, 'c{top:0}'

                        parser[0] = cssutils.CSSParser(raiseExceptions=parse_raising, fetcher=fetcher)
                        text = '@import "x.css"; a{top:0}'
                        if fault == 'malformed':
                            text += ' $$$ { } @import "late.css";'
                        arg = text.encode('utf-8') + (b'\xff' if fault == 'undecodable' else b'') if kind != 'text' else text
                        cssutils.log.raiseExceptions = mode0
                        try:
                            if kind == 'style':
                                out = ('return', parser[0].parseStyle(arg if isinstance(arg, bytes) else 'top: 0', encoding='ascii' if fault == 'undecodable' else 'utf-8'))
                            else:
                                out = ('return', parser[0].parseString(arg, encoding='ascii' if fault == 'undecodable' and kind != 'text' else None, href='http://h/a.css'))
                        except Exception as e:
                            out = ('raise', e)
                        after = cssutils.log.raiseExceptions
                        state = {'ghost': {'mode': after, 'mode0': mode0}, 'saved': []}
                        if after != mode0:
                            cssutils.log.raiseExceptions = True
                            return out + (state,)
                        result = out + (state,)
            cssutils.log.raiseExceptions = True
            return result
        finally:
            cssutils.log.raiseExceptions = True
            cssutils.log.setLevel(saved_level)
    return run


PS.native_call = _native('bytes')
PST.native_call = _native('text')
PY.native_call = _native('style')

for _t in (PS, PST, PY):
    _t.replay_state_only = True
