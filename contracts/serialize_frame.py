"""T1-finite lemmas for C06 (clause "restoring the defaults restores the default output byte for byte"): complete syntactic facts about the
real source of cssutils/serialize.py and every reader of the preferences, re-derived from the AST on every run.

  frame.1  every preference read anywhere in the package (`<x>.prefs.<name>`) is assigned by Preferences.useDefaults
           (so useDefaults() determines everything the serializer consults)
  frame.2  Preferences.useMinified assigns only names that useDefaults assigns
  frame.3  Preferences.__init__ starts from useDefaults()
  frame.4  outside __init__ the serializer object itself keeps no state beyond the nesting counters `_level`, `_selectors`, `_selectorlevel`
  frame.5  `_selectors` and `_selectorlevel` are reset at the start of do_CSSStyleSheet; every `self._level += 1` is undone in a `finally`
           (the one unprotected `-= 1 ... += 1` pair around a single append is reported as an assumption, not proved exception safe)
"""
import ast
import glob
import os
import time


def _src(repo, rel):
    with open(os.path.join(repo, rel), encoding='utf-8') as f:
        return ast.parse(f.read())


def _cls(tree, name):
    return next(n for n in ast.walk(tree) if isinstance(n, ast.ClassDef) and n.name == name)


def _fn(cls, name):
    return next(n for n in cls.body if isinstance(n, ast.FunctionDef) and n.name == name)


def _self_stores(fn):
    out = set()
    for n in ast.walk(fn):
        if isinstance(n, (ast.Assign, ast.AugAssign, ast.AnnAssign)):
            tg = n.targets if isinstance(n, ast.Assign) else [n.target]
            for t in tg:
                for x in ast.walk(t):
                    if isinstance(x, ast.Attribute) and isinstance(x.value, ast.Name) and x.value.id == 'self' and isinstance(x.ctx, ast.Store):
                        out.add(x.attr)
    return out


def lemmas(ctx):
    repo = os.environ.get('VERIF_REPO', '/repo')
    t0 = time.time()
    ser = _src(repo, 'cssutils/serialize.py')
    prefs = _cls(ser, 'Preferences')
    defaults = _self_stores(_fn(prefs, 'useDefaults'))
    ctx.functions.add('cssutils/serialize.py::Preferences.useDefaults / useMinified / __init__, CSSSerializer (attribute frame)')

    def done(name, ok, detail):
        ctx.lemma('finite.C06.' + name, 'discharged' if ok else 'violated', 'finite', time.time() - t0, detail)
        if not ok:
            ctx.violation('frame lemma on the serializer source: ' + name, detail, False, {'lemma': name})

    # frame.1
    reads = {}
    for path in glob.glob(os.path.join(repo, 'cssutils', '**', '*.py'), recursive=True):
        rel = os.path.relpath(path, repo)
        if '/tests/' in rel.replace(os.sep, '/'):
            continue
        tree = ast.parse(open(path, encoding='utf-8').read())
        for n in ast.walk(tree):
            if isinstance(n, ast.Attribute) and isinstance(n.value, ast.Attribute) and n.value.attr == 'prefs' and not n.attr.startswith('__'):
                reads.setdefault(n.attr, set()).add(rel)
    methods = {f.name for f in prefs.body if isinstance(f, ast.FunctionDef)}
    stray = sorted(k for k in reads if k not in defaults and k not in methods)
    done('frame.1_every_preference_read_is_assigned_by_useDefaults', not stray and len(reads) >= 20,
         f'{len(reads)} distinct names read, {len(defaults)} assigned by useDefaults; read but not assigned: {stray}')
    # frame.2
    mini = _self_stores(_fn(prefs, 'useMinified'))
    done('frame.2_useMinified_assigns_only_names_of_useDefaults', mini <= defaults and len(mini) > 0, f'useMinified assigns {sorted(mini - defaults)} outside useDefaults')
    # frame.3
    init = _fn(prefs, '__init__')
    body = [s for s in init.body if not (isinstance(s, ast.Expr) and isinstance(getattr(s, 'value', None), ast.Constant))]
    first = body[0] if body else None
    ok3 = (isinstance(first, ast.Expr) and isinstance(first.value, ast.Call) and isinstance(first.value.func, ast.Attribute)
           and first.value.func.attr == 'useDefaults' and isinstance(first.value.func.value, ast.Name) and first.value.func.value.id == 'self')
    done('frame.3_constructor_starts_from_useDefaults', ok3, 'first statement of Preferences.__init__ is self.useDefaults()')
    # frame.4
    css = _cls(ser, 'CSSSerializer')
    state = set()
    for f in css.body:
        if isinstance(f, ast.FunctionDef) and f.name != '__init__':
            state |= _self_stores(f)
    allowed = {'_level', '_selectors', '_selectorlevel'}
    done('frame.4_serializer_keeps_no_state_but_the_nesting_counters', state <= allowed, f'attributes assigned outside __init__: {sorted(state)}')
    # frame.5
    sheet = _fn(css, 'do_CSSStyleSheet')
    early = set()
    for s in sheet.body[:4]:
        if isinstance(s, ast.Assign):
            early |= {t.attr for t in s.targets if isinstance(t, ast.Attribute)}
    ok5a = {'_selectors', '_selectorlevel'} <= early
    unprotected = []
    protected = 0

    def is_level(node, op):
        return (isinstance(node, ast.AugAssign) and isinstance(node.op, op) and isinstance(node.target, ast.Attribute) and node.target.attr == '_level')

    for f in css.body:
        if not isinstance(f, ast.FunctionDef):
            continue
        for blk in ast.walk(f):
            for field in ('body', 'orelse', 'finalbody'):
                stmts = getattr(blk, field, None)
                if not isinstance(stmts, list):
                    continue
                for i, s in enumerate(stmts):
                    if is_level(s, ast.Add):
                        nxt = [x for x in stmts[i + 1:i + 3]]
                        tr = next((x for x in nxt if isinstance(x, ast.Try)), None)
                        between = nxt[:nxt.index(tr)] if tr in nxt else nxt
                        simple = all(isinstance(b, ast.Assign) and isinstance(b.value, ast.Constant) for b in between)
                        if tr is not None and simple and any(is_level(x, ast.Sub) for x in tr.finalbody):
                            protected += 1
                        elif i >= 2 and is_level(stmts[i - 2], ast.Sub):
                            unprotected.append(f'{f.name}:{s.lineno}')
                        else:
                            unprotected.append(f'{f.name}:{s.lineno} (no matching finally)')
    bad = [u for u in unprotected if 'no matching' in u]
    if [u for u in unprotected if 'no matching' not in u]:
        ctx.assumptions.add('C06 frame: `self._level -= 1; out.append(...); self._level += 1` at ' + ', '.join(u for u in unprotected if 'no matching' not in u)
                            + ' is not exception safe (an exception inside the single append would leave the level lowered); not proved, not observed')
    done('frame.5_nesting_state_is_reset_per_sheet_and_level_increments_are_undone_in_finally', ok5a and not bad and protected >= 1,
         f'_selectors/_selectorlevel reset at the start of do_CSSStyleSheet: {ok5a}; {protected} protected increments; unmatched: {bad}')
