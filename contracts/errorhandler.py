"""Sidecar contract for cssutils/errorhandler.py::_ErrorHandler.__handle (C01, C05, C11): the log-instead-of-raise switch."""
import urllib.error
import xml.dom

from pyvc.api import *


class TokenStub:
    pass


EH = register(Target('cssutils/errorhandler.py', '_ErrorHandler.__handle', ['C01', 'C05', 'C11', 'C12'], name='cssutils/errorhandler.py::_ErrorHandler.__handle'))
EH.qualname = '_ErrorHandler._ErrorHandler__handle' if False else '_ErrorHandler.__handle'

ERRORS = (xml.dom.SyntaxErr, xml.dom.HierarchyRequestErr, xml.dom.NoModificationAllowedErr, xml.dom.NamespaceErr, xml.dom.IndexSizeErr, xml.dom.InvalidModificationErr,
          xml.dom.NotFoundErr, ValueError)


def _setup(token_kind):
    def setup(I):
        import cssutils.errorhandler as E
        p = I.p
        g = p.ghost
        g['logged'] = []
        me = Obj(E._ErrorHandler, {'enabled': p.fresh('bool', 'enabled'), 'raiseExceptions': p.fresh('bool', 'raiseExceptions'),
                                   '_logcall': Model(lambda I2, a, k: g['logged'].append(a[0]), 'logging.Logger.<level>(msg): records the message, never raises', assumed=True)})
        # error: None, or one of the DOM exception classes the library passes (finite, from a scan of the call sites)
        which = p.fresh('int', 'which_error')
        p.assume(z3.And(which.t >= -1, which.t < len(ERRORS)))
        error = None
        for i, ec in enumerate(ERRORS):
            if p.choose(which.t == i):
                error = ec
                break
        msg = p.fresh('str', 'msg')
        if token_kind == 'none':
            token = None
        elif token_kind == 'tuple':
            token = (p.fresh('str', 'tok_type'), p.fresh('str', 'tok_value'), p.fresh('int', 'tok_line'), p.fresh('int', 'tok_col'))
        else:
            token = Obj(TokenStub, {'value': p.fresh('str', 'tok_value'), 'line': p.fresh('int', 'tok_line'), 'col': p.fresh('int', 'tok_col')})
        g['token_kind'] = token_kind
        return {'self': me, 'msg': msg, 'token': token, 'error': error, 'neverraise': p.fresh('bool', 'neverraise'), 'args': None}
    return setup


@spec
def raising(self, error, neverraise):
    # (error None means the default, SyntaxErr)
    return self.enabled and self.raiseExceptions and not neverraise


def never_raises_when_logging(self, error, neverraise, ghost, result):
    # normal return: only when not in raising mode (or disabled / neverraise); the message was logged iff enabled
    return (not raising(self, error, neverraise)) and result is None and (len(ghost['logged']) == 1) == self.enabled


def raises_the_requested_error_iff_raising_mode(self, error, neverraise, exc, ghost):
    return raising(self, error, neverraise) and len(ghost['logged']) == 0


def dom_error_carries_the_position_of_the_token(token, exc, ghost):
    # C05: "syntax-error reports carry the position of the token they complain about"
    if ghost['token_kind'] == 'none':
        return True
    if ghost['token_kind'] == 'tuple':
        return exc.line == token[2] and exc.col == token[3]
    return exc.line == token.line and exc.col == token.col


for kind in ('none', 'tuple', 'object'):
    T_ = Target('cssutils/errorhandler.py', '_ErrorHandler.__handle', ['C01', 'C05', 'C11', 'C12'], name=f'cssutils/errorhandler.py::_ErrorHandler.__handle[token {kind}]')
    T_.sidecar = __name__
    from pyvc.api import REGISTRY
    REGISTRY[T_.name] = T_
    T_.setup = _setup(kind)
    T_.ensures.append(Clause('never_raises_when_logging', never_raises_when_logging))
    for ec in ERRORS:
        cls_ = [Clause('raises_the_requested_error_iff_raising_mode', raises_the_requested_error_iff_raising_mode)]
        if issubclass(ec, xml.dom.DOMException):
            cls_.append(Clause('dom_error_carries_the_position_of_the_token', dom_error_carries_the_position_of_the_token))
        T_.raises.append((ec, cls_))
del REGISTRY[EH.name]
